#!/venv/bin/python
"""Regenerate MANIFEST.json from the check modules (so it is valid at all times)."""
import glob, importlib, json, os, sys
VERIF = os.path.dirname(os.path.dirname(os.path.abspath(__file__)))
sys.path[:0] = [VERIF, '/repo/src', os.path.join(VERIF, 'shims')]
props = [json.loads(l) for l in open(os.path.join(VERIF, 'properties.jsonl'))]
checks, na = [], []
ready = set(open(os.path.join(VERIF, 'checks', 'READY')).read().split())
for p in props:
    pid = p['id']
    hits = glob.glob(os.path.join(VERIF, 'checks', pid.lower() + '_*.py'))
    if not hits or pid not in ready:
        na.append({'property_id': pid, 'reason': 'check not built yet (work in progress; the property is decidable by this technique, see DESIGN.md)'})
        continue
    m = importlib.import_module('checks.' + os.path.splitext(os.path.basename(hits[0]))[0])
    checks.append({
        'property_id': pid,
        'quick_cmd': f'/venv/bin/python run.py {pid} --tier quick',
        'thorough_cmd': f'/venv/bin/python run.py {pid} --tier thorough',
        'evidence_file': f'/verif/evidence/{pid}.json',
        'replay_cmd_template': f'/venv/bin/python run.py {pid} --replay {{path}}',
        'engine': 'hypothesis-descriptor-runner',
        'level_claimed': {
            'category': m.LEVEL,
            'text': m.LEVEL_TEXT,
            'design_ref': f'DESIGN.md section 2, {pid}',
        },
        'level_note': m.LEVEL_NOTE,
        'technique': m.TECHNIQUE,
    })
manifest = {
    'version': 1,
    'setup_cmd': '/venv/bin/python tools/setup_check.py',
    'hooks': {
        'guard': 'SRCTOOLS_VERIF',
        'enable': 'no instrumentation inside srctools is needed: checks import /repo/src directly (PYTHONPATH=/repo/src:/verif/shims, set by run.py) and observe through public API / harness-side wrappers; run.py sets SRCTOOLS_VERIF=1 but no repo code reads it',
        'baseline_off_cmd': 'cd /repo && /venv/bin/python -m pytest -ra -q -p no:cacheprovider --timeout=900 --continue-on-collection-errors',
        'source_commits': [],
        'add_only': True,
    },
    'engines': [{
        'name': 'hypothesis-descriptor-runner',
        'path': 'run.py',
        'serves_properties': [c['property_id'] for c in checks],
        'kind_free_text': 'Hypothesis 6.168 generating JSON descriptors (inputs, operation histories, fault points), executed against explicit oracles; exhaustive enumeration over small finite domains; shrunk descriptor = replay file',
    }],
    'checks': checks,
    'not_applicable': na,
    'notes': 'All checks run the pure-Python implementations from /repo/src (Cython cannot be built in this sandbox, DESIGN.md 0.2). Known findings ledger: KNOWN_FINDINGS.txt.',
}
with open(os.path.join(VERIF, 'MANIFEST.json'), 'w') as f:
    json.dump(manifest, f, indent=1)
    f.write('\n')
print(f'{len(checks)} checks, {len(na)} not yet built')
