"""C11 - every BSP lump writer is the inverse of its reader (DESIGN.md section 2, C11)."""
from __future__ import annotations

import contextlib
import io
import os
import struct
import tempfile

from hypothesis import strategies as st

from vlib import bspgen as G
from vlib.core import HarnessError, Sub

PROPERTY = 'C11'
LEVEL = 'exploration'
RULE = (
    'per view family a Hypothesis strategy of value descriptors (pools of planes/texinfo/edges/faces/... plus lists '
    'that are slices of an existing table, new items, or a tail of the table followed by new items); the value is '
    'built as srctools objects on top of an independently written base BSP (7 layouts, family lumps optionally '
    'LZMA-flagged), assigned to the view, saved, re-read and compared with a rooted-graph canonicaliser; '
    'non-trivial = the value has >= 2 elements; distinct = sha1 of the descriptor JSON'
)
ASSUMPTIONS = [
    'numbers are float32-representable / inside the integer field of the chosen layout (descriptor ints are reduced '
    'modulo the field width of the layout); angles lie in [0, 360); node/leaf bounds are integral except in v25 '
    '(float fields); cubemap origins and prop tints are integral; fixed-size byte arrays have their size '
    '(Face.light_styles 4, VisLeaf._ambient 24, zero when the layout has no such field)',
    'contents/surface flags are 32-bit words; static-prop flags only the bits the prop version stores; fields a version '
    'does not store are left out of the comparison (StaticProp docstring), uniform scaling compares as Vec(s, s, s)',
    'faces: every split face has an original face and a texinfo (the reader resolves -1 to the last table entry), '
    'shares texinfo and Hammer id with it and has an int Hammer id (or all faces have None, as the reader reports an '
    'empty FACEIDS lump); FACES_HDR is empty or parallel to FACES; VitaminSource faces carry only the fields that format stores '
    'and there are no primitives/original/HDR faces there; Overlay.face_count == len(faces)',
    'entity lump: keys are unique case-insensitively, not "nodeid", made of identifier characters; values contain no '
    'NUL, no ESC and are not of the shape "a,b,c,<number>,<number>" (the lump cannot tell those from connections); '
    'connection fields contain no separator, no ";" in instance names, names do not start with "instance:"; a '
    'parameter contains no comma when the comma separator is used; delays are m x 10^e with m <= 99999, e in -9..9 (%g); '
    'text is ASCII + surrogate-escaped bytes',
    'material names (TexData.mat): < 128 bytes, no NUL, one letter case - the texinfo writer deliberately looks materials up '
    'in the string table with str.casefold; model names of static/detail props, the `textures` list and packed file names '
    'are kept exactly as given, so pairs differing only in case ARE generated there; a brush '
    'model with solids has physics keyvalues; physics keyvalues are ASCII identifier-like (general escaping is C01); '
    'visibility rows have ceil(clusters/8) bytes; detail sprite dimensions contain no -0.0 (sprites are pooled by ==)',
    'the base file is consistent and the lumps of other views that index into a replaced table are not parsed',
    'static prop versions are set through bsp.static_prop_version with the matching game-lump version; V11 is not '
    'used in v20 files nor Mesa elsewhere (the reader cannot tell them apart)',
    'pure-Python srctools only',
]
LEVEL_TEXT = (
    'Generated-input search per view family (18 families x 7 layouts, every static-prop version): thousands of '
    'well-formed values are assigned, saved and re-read; equality is decided by an independent rooted-graph '
    'canonicaliser (sharing and cycles up to isomorphism, floats bit-exact); oversize values must raise or round-trip. '
    'Held-on-everything-explored, not a proof.'
)
LEVEL_NOTE = ('Trusts vlib/bspgen.py (base file writer, canonicaliser); the reader is the one under test, so a defect '
              'that reader and writer share symmetrically is only visible to C10\'s independent writer.')
TECHNIQUE = 'property-based testing (Hypothesis): write/read round trip against a graph-isomorphism oracle + rejection clause'
CAPS = (420, 2400)

ALLOWED_REJECTIONS = (struct.error, ValueError, OverflowError)

# ----------------------------------------------------------------------------------------------------------------
# base files

_FACE = {'plane': 0, 'side': 1, 'onnode': 0, 'fe': 0, 'ne': 3, 'ti': 0, 'disp': -1, 'fog': -1, 'styles': '00ffffff',
         'lofs': 16, 'area': 2048.0, 'lm': [0, 0, 3, 3], 'orig': 0, 'np': 1, 'fp': 0, 'nodyn': False, 'smooth': 0,
         'hid': 7, 'vflags': 0}
_LEAF = {'contents': 0, 'cluster': 0, 'area': 1, 'flags': 0, 'mins': [0, 0, 0], 'maxs': [64, 64, 64],
         'faces': [0, 1], 'brushes': [0], 'water': 0, 'ambient': '11' * 24, 'mindist': 10}
_OVERLAY = {'id': 3, 'ti': 0, 'faces': [0, 1], 'ro': 1, 'uv': [0.0, 1.0, 0.0, 1.0],
            'pts': [[-16.0, -16.0, 0.0], [-16.0, 16.0, 0.0], [16.0, 16.0, 0.0], [16.0, -16.0, 0.0]],
            'origin': [32.0, 32.0, 0.0], 'normal': [0.0, 0.0, 1.0], 'fade': [-1.0, 0.0], 'lvl': [0, 0, 0, 0]}


def base_raw(layout: str) -> dict:
    """A small but complete base world: 2 planes, 4 vertexes, 3 edges, 2 faces on 1 original face, 1 primitive,
    1 brush, 2 leaves, 1 node, 1 model, water, cubemap, overlay."""
    w = G.raw_skeleton(layout)
    w.update(
        planes=[[0.0, 0.0, 1.0, 0.0, 2], [1.0, 0.0, 0.0, 8.0, 0]],
        verts=[[64.0, 0.0, 0.0], [64.0, 64.0, 0.0], [0.0, 64.0, 0.0]], zero_at=0,
        edges=[[0, 1], [1, 2], [2, 3]], surfedges=[-1, 2],
        prims=[[0, [0, 1, 2], [[1.0, 2.0, 3.0]]]],
        ofaces=[dict(_FACE, np=0)], faces=[dict(_FACE), dict(_FACE, fe=3, ne=2, np=0, smooth=1)],
        brushes=[[1, [[0, 0, 0, 0, 0], [1, 0, 0, 1, 0]]]],
        leafs=[dict(_LEAF), dict(_LEAF, cluster=1, faces=[], brushes=[], water=-1, mins=[1, 2, 3])],
        nodes=[{'plane': 1, 'ch': [-1, -2], 'mins': [0, 0, 0], 'maxs': [64, 64, 64], 'ff': 0, 'nf': 2, 'area': 0}],
        models=[{'mins': [0.0, 0.0, 0.0], 'maxs': [64.0, 64.0, 64.0], 'origin': [0.0, 0.0, 0.0], 'head': 0, 'ff': 0, 'nf': 2}],
        water=[[16.0, 0.0, 0]], cubemaps=[[1, 2, 3, 0]], overlays=[dict(_OVERLAY)],
    )
    return w


_BLOBS: dict = {}


def base_blob(layout: str, lzma: tuple = (), sprp_ver: str = '', gl_lzma: tuple = ()) -> bytes:
    key = (layout, lzma, sprp_ver, gl_lzma)
    if key not in _BLOBS:
        w = G.resolve_world(base_raw(layout))
        w['lzma'] = list(lzma)
        w['gl_lzma'] = list(gl_lzma)
        if sprp_ver:
            w['sprp'] = dict(w['sprp'], ver=sprp_ver)
        _BLOBS[key] = G.build_bsp(w)
    return _BLOBS[key]


def save_quiet(bsp, path: str) -> None:
    with contextlib.redirect_stdout(io.StringIO()):
        bsp.save(path)


class Case:
    """Temp dir + base BSP of one case."""
    def __init__(self, desc, ctx, lumps=(), sprp_ver='', gl=()) -> None:
        self.desc, self.ctx = desc, ctx
        self.layout = desc['layout']
        self.lay = G.LAYOUTS[self.layout]
        self.fam = self.lay.fam
        self.chaos = self.fam == 'chaos'
        self.vit = self.fam == 'vitamin'
        lz = bool(desc.get('lzma'))
        ctx.label('layout:' + self.layout)
        if lz:
            ctx.label('lzma_base')
        self.blob = base_blob(self.layout, tuple(lumps) if lz else (), sprp_ver, tuple(gl) if lz else ())
        self._stack = contextlib.ExitStack()

    def __enter__(self):
        from srctools.bsp import BSP
        self.td = self._stack.enter_context(tempfile.TemporaryDirectory(prefix='c11_'))
        self.src = os.path.join(self.td, 'in.bsp')
        with open(self.src, 'wb') as f:
            f.write(self.blob)
        try:
            self.bsp = BSP(self.src)
        except Exception as exc:
            raise HarnessError(f'base file rejected: {exc!r}') from exc
        return self

    def __exit__(self, *exc):
        self._stack.close()
        return False

    def reread(self):
        from srctools.bsp import BSP
        out = os.path.join(self.td, 'out.bsp')
        save_quiet(self.bsp, out)
        return BSP(out)

    def expect_equal(self, clause: str, want, got, **facts) -> None:
        if want != got:
            self.ctx.fail(clause, f'{self.layout}: re-read value differs from the assigned one at '
                                  f'{G.first_diff(want, got)}', layout=self.layout, **facts)

    # integer reduction to the field width of this layout
    def u(self, v: int, bits_std: int = 16, bits_chaos: int = 32) -> int:
        return v & ((1 << (bits_chaos if self.chaos else bits_std)) - 1)

    def s(self, v: int, bits_std: int = 16, bits_chaos: int = 32) -> int:
        bits = bits_chaos if self.chaos else bits_std
        half = 1 << (bits - 1)
        return ((v + half) & ((1 << bits) - 1)) - half


# ----------------------------------------------------------------------------------------------------------------
# descriptor strategies (numbers)

F = G.f32_strategy()
FNZ = G.f32_strategy(signed_zero=False)
U8 = st.integers(0, 255)
U16 = G.biased_int(0, 0xFFFF, [0, 1, 2, 255, 256, 0x7FFF, 0x8000, 0xFFFF])
U32 = G.biased_int(0, 0xFFFFFFFF, [0, 1, 0xFFFF, 0x10000, 0x7FFFFFFF, 0x80000000, 0xFFFFFFFF])
I32 = G.biased_int(-0x80000000, 0x7FFFFFFF, [0, 1, -1, 0x7FFF, -0x8000, 0x7FFFFFFF, -0x80000000])
FLAGS31 = G.biased_int(0, 0xFFFFFFFF, [0, 1, 0x4000, 0x40000000, 0x7FFFFFFF, 0x80000000, 0xFFFFFFFF])   # full 32-bit flag words
SMALL = st.integers(0, 30)
VEC = st.tuples(F, F, F).map(list)
IBOUND = G.biased_int(-0x8000, 0x7FFF, [0, 1, -1, 0x7FFF, -0x8000])
IVEC = st.tuples(IBOUND, IBOUND, IBOUND).map(list)
ANG = st.one_of(st.integers(0, 360 * 64 - 1).map(lambda i: i / 64.0), st.sampled_from([0.0, 90.0, 359.99996948242188]))
ANGLES = st.tuples(ANG, ANG, ANG).map(list)
MATNAME = st.one_of(
    st.text('ABCXYZ_/0189', min_size=1, max_size=10),
    st.integers(120, 127).map(lambda n: ('LONG/MATERIAL/NAME/' * 8)[:n]),
    st.sampled_from(['TOOLS/TOOLSNODRAW', 'A', 'B/A', 'X\udc80\udcffY']),
)
MDLNAME = st.one_of(
    st.text('abcxyz_/0189.', min_size=1, max_size=12).map(lambda s: 'models/' + s + '.mdl'),
    st.integers(120, 127).map(lambda n: ('models/' + 'y' * 130)[:n]),
    st.sampled_from(['models/a.mdl', 'm\udcfe.mdl']),
    # spellings that differ only in letter case: the model dictionaries keep names exactly as given
    st.sampled_from(['models/Props/Grass01.mdl', 'models/props/grass01.mdl', 'MODELS/PROPS/GRASS01.MDL', 'models/A.mdl']),
)


CASE_MODELS = st.sampled_from(['models/Props/Grass01.mdl', 'models/props/grass01.mdl', 'MODELS/PROPS/GRASS01.MDL'])


# Optional per-case pool of names that the props pick from by index ('name_ix'), so that several props share a name or
# use spellings differing only in case; an empty pool means every prop uses its own generated name.
NAME_POOL = st.one_of(st.just([]), st.just(['models/Props/Grass01.mdl', 'models/props/grass01.mdl', 'MODELS/PROPS/GRASS01.MDL']),
                      st.just(['models/a.mdl', 'models/A.mdl', 'models/b.mdl']))


def pooled_names(desc) -> list:
    pool = desc.get('name_pool') or []
    return [pool[d.get('name_ix', 0) % len(pool)] if pool else d['model'] for d in desc['props']]


def case_variant_pair(names) -> bool:
    """Two different strings that are equal after casefold()."""
    seen: dict = {}
    for n in names:
        if seen.setdefault(n.casefold(), n) != n:
            return True
    return False


LAYOUT = st.sampled_from(G.MAIN_LAYOUTS)
LAYOUT_NOVIT = st.sampled_from([n for n in G.MAIN_LAYOUTS if n != 'v43'])
LZ = st.sampled_from([False, False, True])


def lspec(max_new: int = 3):
    """How a sub-list is formed: a slice of the table, new items only, or the tail of the table + new items."""
    idx = st.lists(SMALL, max_size=max_new)
    return st.one_of(
        st.tuples(st.just('slice'), SMALL, st.integers(0, 4)).map(list),
        st.tuples(st.just('new'), idx).map(list),
        st.tuples(st.just('tail'), st.integers(1, 3), st.lists(SMALL, min_size=1, max_size=max_new)).map(list),
    )


def pick_list(spec, table: list, pool: list) -> list:
    kind = spec[0]
    if kind == 'slice':
        first, n = G._slice(spec[1], spec[2], len(table))
        return table[first:first + n]
    new = [pool[i % len(pool)] for i in spec[-1]] if pool else []
    if kind == 'new':
        return new
    k = min(spec[1], len(table))
    return table[len(table) - k:] + new


def label_spec(ctx, spec, prefix: str) -> None:
    ctx.label(f'{prefix}:{spec[0]}')


# ----------------------------------------------------------------------------------------------------------------
# object builders

def mk_vec(v):
    from srctools.math import Vec
    return Vec(v[0], v[1], v[2])


def mk_plane(p):
    from srctools.bsp import Plane, PlaneType
    return Plane(mk_vec(p), p[3], PlaneType(p[4]))


PLANE = st.tuples(F, F, F, F, st.integers(0, 5)).map(list)
TEXDATA = st.tuples(MATNAME, VEC, I32, I32).map(list)
TEXINFO = st.tuples(st.lists(F, min_size=16, max_size=16), FLAGS31, SMALL, st.booleans()).map(list)


def mk_texdata(t):
    from srctools.bsp import TexData
    return TexData(t[0], mk_vec(t[1]), t[2], t[3])


def mk_texinfo(t, texdatas):
    from srctools.bsp import TexInfo
    from srctools.const import SurfFlags
    fl = t[0]
    return TexInfo(mk_vec(fl[0:3]), fl[3], mk_vec(fl[4:7]), fl[7], mk_vec(fl[8:11]), fl[11], mk_vec(fl[12:15]), fl[15],
                   SurfFlags(t[1]), texdatas[t[2] % len(texdatas)])


def texinfo_pool(bsp, desc_pool, texdata_desc):
    """TexInfo objects: the ones already in the file followed by new ones; flagged ones are appended to bsp.texinfo."""
    texdatas = [ti._info for ti in bsp.texinfo] + [mk_texdata(t) for t in texdata_desc]
    pool = list(bsp.texinfo)
    for t in desc_pool:
        ti = mk_texinfo(t, texdatas)
        if t[3]:
            bsp.texinfo.append(ti)
        pool.append(ti)
    return pool


def plane_pool(bsp, desc_pool):
    pool = list(bsp.planes)
    for p, in_table in desc_pool:
        pl = mk_plane(p)
        if in_table:
            bsp.planes.append(pl)
        pool.append(pl)
    return pool


PLANE_POOL = st.lists(st.tuples(PLANE, st.booleans()).map(list), max_size=3)
TEXINFO_POOL = st.lists(TEXINFO, max_size=3)
TEXDATA_POOL = st.lists(TEXDATA, max_size=2)

# ----------------------------------------------------------------------------------------------------------------
# planes / vertexes / cubemaps / textures


def strat_planes(tier):
    return st.fixed_dictionaries({'layout': LAYOUT, 'lzma': LZ, 'planes': st.lists(PLANE, max_size=6)})


def execute_planes(desc, ctx):
    with Case(desc, ctx, ['PLANES']) as c:
        value = [mk_plane(p) for p in desc['planes']]
        ctx.nontrivial(len(value) >= 2)
        if not value and desc['lzma']:
            ctx.label('empty_compressed')
        want = G.canon(value)
        c.bsp.planes = value
        c.expect_equal('roundtrip:planes', want, G.canon(c.reread().planes), empty=not value, lzma=bool(desc['lzma']))


def strat_vertexes(tier):
    return st.fixed_dictionaries({'layout': LAYOUT, 'lzma': LZ, 'verts': st.lists(VEC, max_size=8)})


def execute_vertexes(desc, ctx):
    with Case(desc, ctx, ['VERTEXES']) as c:
        value = [mk_vec(v) for v in desc['verts']]
        ctx.nontrivial(len(value) >= 2)
        if not value and desc['lzma']:
            ctx.label('empty_compressed')
        want = G.canon(value)
        c.bsp.vertexes = value
        c.expect_equal('roundtrip:vertexes', want, G.canon(c.reread().vertexes), empty=not value, lzma=bool(desc['lzma']))


def strat_cubemaps(tier):
    cm = st.tuples(I32, I32, I32, st.one_of(st.integers(0, 13), I32)).map(list)
    return st.fixed_dictionaries({'layout': LAYOUT, 'lzma': LZ, 'cubemaps': st.lists(cm, max_size=5)})


def execute_cubemaps(desc, ctx):
    from srctools.bsp import Cubemap
    from srctools.math import Vec
    with Case(desc, ctx, ['CUBEMAPS']) as c:
        value = [Cubemap(Vec(x, y, z), size) for x, y, z, size in desc['cubemaps']]
        ctx.nontrivial(len(value) >= 2)
        if not value and desc['lzma']:
            ctx.label('empty_compressed')
        want = G.canon(value)
        c.bsp.cubemaps = value
        c.expect_equal('roundtrip:cubemaps', want, G.canon(c.reread().cubemaps), empty=not value, lzma=bool(desc['lzma']))


def strat_textures(tier):
    name = st.one_of(MATNAME, st.sampled_from(['', 'a', 'ba', 'cba', 'A', 'x/y/z']),
                     st.text('abcABC/_\udc80\udcff .-', max_size=20))
    return st.fixed_dictionaries({'layout': LAYOUT, 'lzma': LZ, 'names': st.lists(name, max_size=8)})


def execute_textures(desc, ctx):
    with Case(desc, ctx, ['TEXDATA_STRING_DATA', 'TEXDATA_STRING_TABLE']) as c:
        value = list(desc['names'])
        ctx.nontrivial(len(value) >= 2)
        if len(set(value)) < len(value):
            ctx.label('duplicate_name')
        if case_variant_pair(value):
            ctx.label('case_variant_pair')
        if not value and desc['lzma']:
            ctx.label('empty_compressed')
        c.bsp.textures = list(value)
        c.expect_equal('roundtrip:textures', G.canon(value), G.canon(c.reread().textures), empty=not value,
                       lzma=bool(desc['lzma']))


# ----------------------------------------------------------------------------------------------------------------
# texinfo / water


def strat_texinfo(tier):
    return st.fixed_dictionaries({
        'layout': LAYOUT, 'lzma': LZ, 'texdata': st.lists(TEXDATA, min_size=1, max_size=3),
        'texinfo': st.lists(TEXINFO, max_size=5), 'keep': st.integers(0, 2),
    })


def execute_texinfo(desc, ctx):
    with Case(desc, ctx, ['TEXINFO', 'TEXDATA']) as c:
        bsp = c.bsp
        old = list(bsp.texinfo)
        texdatas = [ti._info for ti in old] + [mk_texdata(t) for t in desc['texdata']]
        value = old[:desc['keep']] + [mk_texinfo(t, texdatas) for t in desc['texinfo']]
        ctx.nontrivial(len(value) >= 2)
        if len({id(t._info) for t in value}) < len(value):
            ctx.label('shared_texdata')
        if not value and desc['lzma']:
            ctx.label('empty_compressed')
        want = G.canon(value)
        bsp.texinfo = value
        c.expect_equal('roundtrip:texinfo', want, G.canon(c.reread().texinfo), empty=not value, lzma=bool(desc['lzma']))


def strat_water(tier):
    return st.fixed_dictionaries({
        'layout': LAYOUT, 'lzma': LZ, 'texdata': TEXDATA_POOL, 'texinfo': TEXINFO_POOL,
        'water': st.lists(st.tuples(F, F, SMALL).map(list), max_size=4),
    })


def execute_water(desc, ctx):
    from srctools.bsp import LeafWaterInfo
    with Case(desc, ctx, ['LEAFWATERDATA']) as c:
        bsp = c.bsp
        pool = texinfo_pool(bsp, desc['texinfo'], desc['texdata'])
        value = [LeafWaterInfo(a, b, pool[t % len(pool)]) for a, b, t in desc['water']]
        ctx.nontrivial(len(value) >= 2)
        if not value and desc['lzma']:
            ctx.label('empty_compressed')
        want = G.canon(value)
        bsp.water_leaf_info = value
        c.expect_equal('roundtrip:water_leaf_info', want, G.canon(c.reread().water_leaf_info), empty=not value,
                       lzma=bool(desc['lzma']))


# ----------------------------------------------------------------------------------------------------------------
# surfedges / primitives

VERT_POOL = st.lists(st.tuples(VEC, st.booleans()).map(list), min_size=1, max_size=5)
EDGE_POOL = st.lists(st.tuples(SMALL, SMALL).map(list), min_size=1, max_size=5)
EDGE_REFS = st.lists(st.tuples(SMALL, st.booleans()).map(list), max_size=8)


def edge_pool(bsp, verts_desc, edges_desc):
    from srctools.bsp import Edge
    verts = list(bsp.vertexes)
    for v, in_table in verts_desc:
        vec = mk_vec(v)
        if in_table:
            bsp.vertexes.append(vec)
        verts.append(vec)
    return [Edge(verts[a % len(verts)], verts[b % len(verts)]) for a, b in edges_desc]


def edge_refs(edges, refs):
    return [(edges[i % len(edges)].opposite if rev else edges[i % len(edges)]) for i, rev in refs]


def strat_surfedges(tier):
    return st.fixed_dictionaries({'layout': LAYOUT, 'lzma': LZ, 'verts': VERT_POOL, 'edges': EDGE_POOL,
                                  'surf': EDGE_REFS, 'keep': st.integers(0, 3)})


def execute_surfedges(desc, ctx):
    with Case(desc, ctx, ['SURFEDGES', 'EDGES']) as c:
        bsp = c.bsp
        old = list(bsp.surfedges)
        edges = edge_pool(bsp, desc['verts'], desc['edges'])
        value = old[:desc['keep']] + edge_refs(edges, desc['surf'])
        ctx.nontrivial(len(value) >= 2)
        if any(type(e).__name__ == 'RevEdge' for e in value):
            ctx.label('revedge')
        if len({id(e) for e in value}) < len(value):
            ctx.label('edge_twice')
        if not value and desc['lzma']:
            ctx.label('empty_compressed')
        want = G.canon(value)
        bsp.surfedges = value
        c.expect_equal('roundtrip:surfedges', want, G.canon(c.reread().surfedges), empty=not value, lzma=bool(desc['lzma']))


PRIM = st.tuples(st.integers(0, 1), st.lists(U32, max_size=5), st.lists(VEC, max_size=4)).map(list)


def mk_prim(c: Case, p):
    from srctools.bsp import Primitive
    infra = c.fam == 'infra'
    return Primitive(bool(p[0]), [v & (0xFFFFFFFF if c.chaos else 0xFFFF) for v in p[1]], [mk_vec(v) for v in p[2]])


def strat_primitives(tier):
    return st.fixed_dictionaries({'layout': LAYOUT_NOVIT, 'lzma': LZ, 'prims': st.lists(PRIM, max_size=5)})


def execute_primitives(desc, ctx):
    with Case(desc, ctx, ['PRIMITIVES', 'PRIMVERTS', 'PRIMINDICES']) as c:
        value = [mk_prim(c, p) for p in desc['prims']]
        ctx.nontrivial(len(value) >= 2)
        if not value and desc['lzma']:
            ctx.label('empty_compressed')
        want = G.canon(value)
        c.bsp.primitives = value
        c.expect_equal('roundtrip:primitives', want, G.canon(c.reread().primitives), empty=not value,
                       lzma=bool(desc['lzma']))


# ----------------------------------------------------------------------------------------------------------------
# faces

FACE = st.fixed_dictionaries({
    'plane': SMALL, 'side': st.booleans(), 'onnode': st.booleans(), 'edges': lspec(), 'ti': SMALL, 'disp': I32,
    'fog': I32, 'styles': st.binary(min_size=4, max_size=4).map(bytes.hex), 'lofs': I32, 'area': F,
    'lm': st.lists(I32, min_size=4, max_size=4), 'orig': SMALL, 'prims': lspec(2), 'dyn': st.booleans(),
    'smooth': U32, 'hid': U32, 'vflags': U8,
})


def strat_faces(tier):
    return st.fixed_dictionaries({
        'layout': LAYOUT, 'lzma': LZ, 'planes': PLANE_POOL, 'texdata': TEXDATA_POOL, 'texinfo': TEXINFO_POOL,
        'verts': VERT_POOL, 'edges': EDGE_POOL, 'surf_table': EDGE_REFS, 'keep_surf': st.booleans(),
        'prims': st.lists(PRIM, max_size=3), 'prim_table': st.lists(SMALL, max_size=3), 'keep_prims': st.booleans(),
        'ofaces': st.lists(FACE, min_size=1, max_size=3), 'faces': st.lists(FACE, max_size=4),
        'hdr': st.booleans(), 'no_ids': st.booleans(),
    })


def build_faces(c: Case, desc, ctx):
    """Returns (orig faces, faces, hdr faces) built on c.bsp; also installs the surfedge/primitive tables."""
    from srctools.bsp import Face
    import attrs
    bsp = c.bsp
    planes = plane_pool(bsp, desc['planes'])
    texinfos = texinfo_pool(bsp, desc['texinfo'], desc['texdata'])
    edges = edge_pool(bsp, desc['verts'], desc['edges'])
    table = (list(bsp.surfedges) if desc['keep_surf'] else []) + edge_refs(edges, desc['surf_table'])
    bsp.surfedges = table
    if c.vit:
        prim_pool, prim_table = [], []
    else:
        prim_pool = [mk_prim(c, p) for p in desc['prims']]
        prim_table = (list(bsp.primitives) if desc['keep_prims'] else []) + (
            [prim_pool[i % len(prim_pool)] for i in desc['prim_table']] if prim_pool else [])
        prim_table = list({id(p): p for p in prim_table}.values())   # a primitive is stored once
        bsp.primitives = prim_table
    new_edges = [e for ed in edges for e in (ed, ed.opposite)]

    def face(f, orig, texinfo, hid):
        elist = pick_list(f['edges'], table, new_edges)
        label_spec(ctx, f['edges'], 'edges')
        if c.vit:
            return Face(
                planes[f['plane'] % len(planes)], False, False, elist, texinfo, c.s(f['disp'], 32), 0,
                b'\0\0\0\0', 0, 0, (f['lm'][0], f['lm'][1]), (f['lm'][2], f['lm'][3]), None, [], False, 0, None,
                f['vflags'],
            )
        plist = pick_list(f['prims'], prim_table, prim_pool)
        return Face(
            planes[f['plane'] % len(planes)], f['side'], f['onnode'], elist, texinfo, c.s(f['disp']), c.s(f['fog']),
            bytes.fromhex(f['styles']), f['lofs'], f['area'], (f['lm'][0], f['lm'][1]), (f['lm'][2], f['lm'][3]),
            orig, plist, f['dyn'], f['smooth'], hid, 0,
        )

    if c.vit:
        faces = [face(f, None, texinfos[f['ti'] % len(texinfos)], None) for f in desc['faces']]
        return [], faces, []
    no_ids = desc['no_ids']
    origs = [face(f, None, None, None) for f in desc['ofaces']]
    faces = []
    for f in desc['faces']:
        o = origs[f['orig'] % len(origs)]
        if o.texinfo is None:      # first split face decides what the original face shares with all of them
            o.texinfo = texinfos[f['ti'] % len(texinfos)]
            o.hammer_id = None if no_ids else c.u(f['hid'])
        faces.append(face(f, o, o.texinfo, o.hammer_id))
    hdr = []
    if desc['hdr']:
        hdr = [attrs.evolve(f, lightmap_off=f._lightmap_off ^ 1) for f in faces]
    return origs, faces, hdr


def execute_faces(desc, ctx):
    with Case(desc, ctx, ['FACES', 'FACEIDS', 'EDGES']) as c:
        bsp = c.bsp
        origs, faces, hdr = build_faces(c, desc, ctx)
        ctx.nontrivial(len(faces) >= 2)
        if hdr:
            ctx.label('hdr')
        want = G.canon([origs, faces, hdr], by_value=('Primitive',))
        if not c.vit:
            bsp.orig_faces = origs
            bsp.hdr_faces = hdr
        bsp.faces = faces
        b2 = c.reread()
        got = [list(b2.orig_faces), list(b2.faces), list(b2.hdr_faces)]
        if not c.vit:
            got[0] = got[0][:len(origs)]
        c.expect_equal('roundtrip:faces', want, G.canon(got, by_value=('Primitive',)))


# ----------------------------------------------------------------------------------------------------------------
# brushes

SIDE = st.tuples(SMALL, SMALL, I32, st.booleans(), U16).map(list)


def strat_brushes(tier):
    return st.fixed_dictionaries({
        'layout': LAYOUT, 'lzma': LZ, 'planes': PLANE_POOL, 'texdata': TEXDATA_POOL, 'texinfo': TEXINFO_POOL,
        'sides': st.lists(SIDE, max_size=6),
        'brushes': st.lists(st.tuples(FLAGS31, st.lists(SMALL, max_size=4)).map(list), max_size=5),
        'keep': st.integers(0, 1),
    })


def execute_brushes(desc, ctx):
    from srctools.bsp import Brush, BrushSide, BrushContents
    with Case(desc, ctx, ['BRUSHES', 'BRUSHSIDES']) as c:
        bsp = c.bsp
        old = list(bsp.brushes)
        planes = plane_pool(bsp, desc['planes'])
        texinfos = texinfo_pool(bsp, desc['texinfo'], desc['texdata'])
        sides = []
        for p, t, disp, bevel, bits in desc['sides']:
            if c.vit:
                sides.append(BrushSide(planes[p % len(planes)], texinfos[t % len(texinfos)], c.s(disp), bevel, bits & 0xFF))
            else:
                sides.append(BrushSide(planes[p % len(planes)], texinfos[t % len(texinfos)], c.s(disp, 16, 32), bevel,
                                       bits & 0xFFFE))
        value = old[:desc['keep']]
        for contents, idx in desc['brushes']:
            value.append(Brush(BrushContents(contents), [sides[i % len(sides)] for i in idx] if sides else []))
        ctx.nontrivial(len(value) >= 2)
        seen = set()
        for b in value:
            for s_ in b.sides:
                if id(s_) in seen:
                    ctx.label('shared_side')
                seen.add(id(s_))
        if not value and desc['lzma']:
            ctx.label('empty_compressed')
        want = G.canon(value, by_value=('BrushSide',))
        bsp.brushes = value
        c.expect_equal('roundtrip:brushes', want, G.canon(c.reread().brushes, by_value=('BrushSide',)), empty=not value,
                       lzma=bool(desc['lzma']))


# ----------------------------------------------------------------------------------------------------------------
# nodes + visleafs

LEAF = st.fixed_dictionaries({
    'contents': FLAGS31, 'cluster': I32, 'area': U16, 'flags': st.integers(0, 127), 'mins': IVEC, 'maxs': IVEC,
    'fmins': VEC, 'fmaxs': VEC, 'faces': st.lists(SMALL, max_size=4), 'brushes': st.lists(SMALL, max_size=3),
    'water': I32, 'ambient': st.binary(min_size=24, max_size=24).map(bytes.hex), 'mindist': U16,
    'listed': st.booleans(),
})
NODE = st.fixed_dictionaries({
    'plane': SMALL, 'mins': IVEC, 'maxs': IVEC, 'fmins': VEC, 'fmaxs': VEC, 'faces': lspec(2), 'area': I32,
    'neg': st.tuples(st.sampled_from('nl'), SMALL).map(list), 'pos': st.tuples(st.sampled_from('nl'), SMALL).map(list),
    'listed': st.booleans(),
})


def strat_tree(tier):
    return st.fixed_dictionaries({
        'layout': LAYOUT, 'lzma': LZ, 'planes': PLANE_POOL, 'leafs': st.lists(LEAF, min_size=1, max_size=4),
        'nodes': st.lists(NODE, min_size=1, max_size=4), 'new_faces': st.integers(0, 2),
        'keep_leafs': st.integers(0, 2), 'float_bounds': st.booleans(),
    })


def execute_tree(desc, ctx):
    from srctools.bsp import Brush, VisLeaf, VisTree, VisLeafFlags, BrushContents
    import attrs
    with Case(desc, ctx, ['NODES', 'LEAFS', 'LEAFMINDISTTOWATER']) as c:
        bsp = c.bsp
        planes = plane_pool(bsp, desc['planes'])
        faces = list(bsp.faces)
        brushes = list(bsp.brushes)
        new_faces = [attrs.evolve(faces[k % len(faces)], lightmap_size=(100 + k, 7)) for k in range(desc['new_faces'])] if faces else []
        if brushes and desc['new_faces']:
            # a brush that is not in bsp.brushes yet (the leaf writer has to insert it), sharing its sides with an old one
            brushes.append(Brush(BrushContents(0x8001), list(brushes[0].sides)))
            ctx.label('new_brush')
        use_float = c.chaos and desc['float_bounds']
        if use_float:
            ctx.label('float_bounds')

        def bounds(d):
            if use_float:
                return mk_vec(d['fmins']), mk_vec(d['fmaxs'])
            mins, maxs = d['mins'], d['maxs']
            if c.vit and 'cluster' in d:       # srctools' table has unsigned leaf bounds there
                mins, maxs = [abs(v) for v in mins], [abs(v) for v in maxs]
            return mk_vec([float(v) for v in mins]), mk_vec([float(v) for v in maxs])

        old_leafs = list(bsp.visleafs)[:desc['keep_leafs']]
        listed_leafs = list(old_leafs)
        all_leafs = list(old_leafs)
        for d in desc['leafs']:
            mins, maxs = bounds(d)
            if c.chaos:
                area = d['area'] & 0x3FFF
            elif c.vit:
                area = c.s(d['area'], 16)
            else:
                area = d['area'] & 0xFF
            ambient = bytes.fromhex(d['ambient']) if c.lay.version <= 19 else bytes(24)
            leaf = VisLeaf(
                BrushContents(d['contents']), c.s(d['cluster']), area, VisLeafFlags(d['flags']), mins, maxs,
                [(faces + new_faces)[i % len(faces + new_faces)] for i in d['faces']] if faces else [],
                [brushes[i % len(brushes)] for i in d['brushes']] if brushes else [],
                c.s(d['water']), ambient, d['mindist'],
            )
            all_leafs.append(leaf)
            if d['listed'] or not listed_leafs:
                listed_leafs.append(leaf)
        nodes = []
        for d in desc['nodes']:
            mins, maxs = bounds(d)
            flist = pick_list(d['faces'], faces, new_faces)
            label_spec(ctx, d['faces'], 'node_faces')
            nodes.append(VisTree(planes[d['plane'] % len(planes)], mins, maxs, flist, c.s(d['area'], 16, 16)))
        for d, node in zip(desc['nodes'], nodes):
            for attr in ('neg', 'pos'):
                kind, i = d[attr]
                child = nodes[i % len(nodes)] if kind == 'n' else all_leafs[i % len(all_leafs)]
                setattr(node, 'child_' + attr, child)
        listed_nodes = [n for d, n in zip(desc['nodes'], nodes) if d['listed']] or [nodes[0]]
        if len(listed_nodes) < len(nodes):
            ctx.label('unlisted_node')
        if len(listed_leafs) < len(all_leafs):
            ctx.label('unlisted_leaf')
        ctx.nontrivial(len(nodes) >= 2)
        want = G.canon([listed_leafs, listed_nodes], by_value=('Face', 'Primitive', 'BrushSide'))
        n_leafs, n_nodes = len(listed_leafs), len(listed_nodes)     # the writer appends unlisted children to these lists
        bsp.visleafs = listed_leafs
        bsp.nodes = listed_nodes
        b2 = c.reread()
        got = [list(b2.visleafs)[:n_leafs], list(b2.nodes)[:n_nodes]]
        c.expect_equal('roundtrip:tree', want, G.canon(got, by_value=('Face', 'Primitive', 'BrushSide')), float_bounds=use_float)


# ----------------------------------------------------------------------------------------------------------------
# visibility


VIS_RUNS = [1, 2, 254, 255, 256, 257, 510, 511]
VIS_PATTERN = st.one_of(
    # (a) alternating non-zero / zero bytes (every zero byte becomes the pair 00 01: the coding expands)
    st.tuples(st.just('alt'), st.integers(1, 255), st.integers(0, 1), st.integers(1, 3)).map(list),
    # (b) random bytes AND-ed together: about half the bytes are isolated zeros
    st.tuples(st.just('and'), st.binary(min_size=8, max_size=40).map(bytes.hex),
              st.binary(min_size=8, max_size=40).map(bytes.hex)).map(list),
    # (c) one zero run of a boundary length at the start / middle / end, non-zero elsewhere
    st.tuples(st.just('run'), st.sampled_from(VIS_RUNS), st.sampled_from(['start', 'middle', 'end']),
              st.integers(1, 255)).map(list),
    st.just(['ones']),                                                  # (d)
    st.just(['zeros']),                                                 # (e)
    st.tuples(st.just('raw'), st.binary(min_size=1, max_size=48).map(bytes.hex)).map(list),
)


def vis_row(pat, ln: int, k: int) -> bytearray:
    """Row number k of length ln for a pattern descriptor (pure function)."""
    kind = pat[0]
    if kind == 'alt':
        _, val, phase, period = pat
        return bytearray((val if ((i + phase + k) % (period + 1)) else 0) for i in range(ln))
    if kind == 'and':
        a, b = bytes.fromhex(pat[1]), bytes.fromhex(pat[2])
        return bytearray(a[(i + k) % len(a)] & b[(i + 3 * k) % len(b)] for i in range(ln))
    if kind == 'run':
        _, run, where, val = pat
        run = min(run, ln)
        start = {'start': 0, 'middle': (ln - run) // 2, 'end': ln - run}[where]
        row = bytearray([val]) * ln
        row[start:start + run] = bytes(run)
        return row
    if kind == 'ones':
        return bytearray(b'\xff' * ln)
    if kind == 'zeros':
        return bytearray(ln)
    raw = bytes.fromhex(pat[1])
    return bytearray(raw[(i + k) % len(raw)] for i in range(ln))


def strat_visibility(tier):
    n = st.sampled_from([0, 1, 2, 7, 8, 9, 16, 17, 24, 33, 64, 100, 128, 129, 200, 256, 256, 300, 2041, 2048, 2100, 4090])
    # every row k uses pattern pvs[k % len] / pas[k % len] (different lists, so PVS and PAS rows differ)
    vis = st.fixed_dictionaries({'n': n, 'pvs': st.lists(VIS_PATTERN, min_size=1, max_size=4),
                                 'pas': st.lists(VIS_PATTERN, min_size=1, max_size=4)})
    return st.fixed_dictionaries({'layout': LAYOUT, 'lzma': LZ, 'vis': st.one_of(st.none(), vis, vis, vis, vis)})


def execute_visibility(desc, ctx):
    from srctools.bsp import Visibility
    with Case(desc, ctx, ['VISIBILITY']) as c:
        v = desc['vis']
        if v is None:
            value = None
            ctx.label('vis_none')
        else:
            n = v['n']
            ln = (n + 7) // 8
            pvs = [vis_row(v['pvs'][k % len(v['pvs'])], ln, k) for k in range(n)]
            pas = [vis_row(v['pas'][k % len(v['pas'])], ln, k) for k in range(n)]
            value = Visibility(pvs, pas)
            ctx.label('vis_long_rows' if ln > 255 else 'vis_short_rows')
            if n >= 128:
                ctx.label('vis_clusters>=128')
            for pat in v['pvs'] + v['pas']:
                ctx.label('vis_pat:' + pat[0])
            # independent coder: does the run-length form of some row take more bytes than the row itself?
            grow = max((len(G.rle_encode(bytes(r))) - len(r) for r in pvs[:8] + pas[:8]), default=0)
            if grow > 0:
                ctx.label('vis_encoded_longer')
                if ln >= 4 and grow >= 2:
                    ctx.label('vis_encoded_much_longer')
            if any(0 < run <= ln and run in VIS_RUNS for pat in v['pvs'] + v['pas'] if pat[0] == 'run' for run in [pat[1]]):
                ctx.label('vis_boundary_run')
            ctx.nontrivial(n >= 2)
        want = G.canon(value)
        c.bsp.visibility = value
        c.expect_equal('roundtrip:visibility', want, G.canon(c.reread().visibility))


# ----------------------------------------------------------------------------------------------------------------
# brush models

KVNAME = st.text('abcxyz_0189', min_size=1, max_size=6)
KVTREE = st.lists(st.tuples(KVNAME, st.lists(st.tuples(KVNAME, st.text('abc 012.-_', max_size=8)).map(list), max_size=3)).map(list),
                  max_size=3)
BMODEL = st.fixed_dictionaries({
    'mins': VEC, 'maxs': VEC, 'origin': VEC, 'node': SMALL, 'faces': lspec(2),
    'kv': st.one_of(st.none(), KVTREE), 'solids': st.lists(st.binary(max_size=12).map(bytes.hex), max_size=3),
})


def strat_bmodels(tier):
    return st.fixed_dictionaries({
        'layout': LAYOUT, 'lzma': LZ, 'models': st.lists(BMODEL, min_size=1, max_size=4),
        'ents': st.lists(SMALL, max_size=4), 'new_faces': st.integers(0, 2),
    })


def execute_bmodels(desc, ctx):
    from weakref import WeakKeyDictionary
    from srctools.bsp import BModel
    from srctools.keyvalues import Keyvalues
    import attrs
    with Case(desc, ctx, ['MODELS', 'PHYSCOLLIDE']) as c:
        bsp = c.bsp
        vmf = bsp.ents
        faces = list(bsp.faces)
        nodes = list(bsp.nodes)
        new_faces = [attrs.evolve(faces[k % len(faces)], lightmap_size=(200 + k, 9)) for k in range(desc['new_faces'])] if faces else []
        models = []
        for d in desc['models']:
            kv = None
            if d['kv'] is not None:
                kv = Keyvalues.root(*[Keyvalues(nm, [Keyvalues(k, v) for k, v in ch]) for nm, ch in d['kv']])
            solids = [bytes.fromhex(h) for h in d['solids']]
            if solids and kv is None:
                kv = Keyvalues.root()
            label_spec(ctx, d['faces'], 'model_faces')
            if solids:
                ctx.label('phys_solids')
            models.append(BModel(mk_vec(d['mins']), mk_vec(d['maxs']), mk_vec(d['origin']), nodes[d['node'] % len(nodes)],
                                 pick_list(d['faces'], faces, new_faces), kv, solids))
        ents = [vmf.spawn] + [vmf.create_ent('func_brush', targetname=f'b{k}') for k in range(len(desc['ents']))]
        value = WeakKeyDictionary()
        value[vmf.spawn] = models[0]
        for ent, m in zip(ents[1:], desc['ents']):
            value[ent] = models[m % len(models)]
        if len({id(m) for m in value.values()}) < len(value):
            ctx.label('shared_model')
        ctx.nontrivial(len(value) >= 2)
        order = [vmf.spawn] + list(vmf.entities)
        want = G.canon([[order.index(e), m] for e, m in sorted(value.items(), key=lambda kv_: order.index(kv_[0]))],
                       by_value=('Face', 'Primitive'))
        bsp.bmodels = value
        b2 = c.reread()
        got_map = b2.bmodels
        order2 = [b2.ents.spawn] + list(b2.ents.entities)
        got = G.canon([[order2.index(e), m] for e, m in sorted(got_map.items(), key=lambda kv_: order2.index(kv_[0]))],
                      by_value=('Face', 'Primitive'))
        c.expect_equal('roundtrip:bmodels', want, got)


# ----------------------------------------------------------------------------------------------------------------
# overlays


OVERLAY = st.fixed_dictionaries({
    'id': I32, 'origin': VEC, 'normal': VEC, 'ti': SMALL,
    'faces': st.one_of(st.lists(I32, max_size=5), st.lists(I32, min_size=63, max_size=64)),
    'ro': st.integers(0, 3), 'uv': st.lists(F, min_size=4, max_size=4), 'pts': st.lists(VEC, min_size=4, max_size=4),
    'fade': st.lists(F, min_size=2, max_size=2), 'lvl': st.lists(st.integers(0, 254), min_size=4, max_size=4),
})


def strat_overlays(tier):
    return st.fixed_dictionaries({'layout': LAYOUT, 'lzma': LZ, 'texdata': TEXDATA_POOL, 'texinfo': TEXINFO_POOL,
                                  'overlays': st.lists(OVERLAY, max_size=4)})


def execute_overlays(desc, ctx):
    from srctools.bsp import Overlay
    with Case(desc, ctx, ['OVERLAYS', 'OVERLAY_FADES', 'OVERLAY_SYSTEM_LEVELS']) as c:
        bsp = c.bsp
        pool = texinfo_pool(bsp, desc['texinfo'], desc['texdata'])
        value = []
        for d in desc['overlays']:
            fl = list(d['faces'])
            value.append(Overlay(
                d['id'], mk_vec(d['origin']), mk_vec(d['normal']), pool[d['ti'] % len(pool)], len(fl), fl, d['ro'],
                d['uv'][0], d['uv'][1], d['uv'][2], d['uv'][3], *[mk_vec(p) for p in d['pts']], d['fade'][0], d['fade'][1],
                *d['lvl'],
            ))
            if len(fl) == 64:
                ctx.label('faces64')
        ctx.nontrivial(len(value) >= 2)
        if not value and desc['lzma']:
            ctx.label('empty_compressed')
        want = G.canon(value)
        bsp.overlays = value
        c.expect_equal('roundtrip:overlays', want, G.canon(c.reread().overlays), empty=not value, lzma=bool(desc['lzma']))


# ----------------------------------------------------------------------------------------------------------------
# static props

PROP = st.fixed_dictionaries({
    'model': MDLNAME, 'name_ix': SMALL, 'origin': VEC, 'angles': ANGLES, 'scale': st.one_of(F, VEC), 'leaves': st.lists(SMALL, max_size=3),
    'solidity': U8, 'flags': G.biased_int(0, (1 << 40) - 1, [0, 1, 0xFF, 0x100, 0x400, 0xFFFFFFFF, (1 << 40) - 1]),
    'skin': I32, 'min_fade': F, 'max_fade': F, 'lighting': st.one_of(st.none(), VEC), 'fade_scale': F,
    'min_dx': U16, 'max_dx': U16, 'cpu': st.lists(U8, min_size=4, max_size=4), 'tint': st.lists(U8, min_size=3, max_size=3),
    'renderfx': U8, 'xbox': st.booleans(), 'lm': st.lists(U16, min_size=2, max_size=2),
})

# field -> predicate(version name, effective number, lightmap, sdk2013) "is stored"
def _prop_dropped(ver: str) -> set:
    vnum = G.SPRP_VERSIONS[ver][0]
    lightmap = ver.startswith('V_LIGHTMAP')
    sdk = ver.startswith('V_LIGHTMAP_v')
    eff = 7 if lightmap else vnum
    drop = set()
    if eff < 5:
        drop.add('fade_scale')
    if eff not in (6, 7):
        drop |= {'min_dx_level', 'max_dx_level'}
    if eff < 8:
        drop |= {'min_cpu_level', 'max_cpu_level', 'min_gpu_level', 'max_gpu_level'}
    if not lightmap:
        drop |= {'lightmap_x', 'lightmap_y'}
    if not (eff >= 7 and not sdk):
        drop |= {'tint', 'renderfx'}
    if not (eff >= 9 and not lightmap):
        drop.add('disable_on_xbox')
    if not (ver == 'V_CHAOS_V13' or eff >= 11):
        drop.add('scaling')
    return {('StaticProp', f) for f in drop}


def strat_props(tier):
    def per_version(ver):
        layouts = [n for n in G.MAIN_LAYOUTS if ver in G.sprp_versions_for(n)]

        def per_layout(layout):
            return st.fixed_dictionaries({
                'layout': st.just(layout), 'lzma': LZ, 'ver': st.just(ver), 'props': st.lists(PROP, max_size=4),
                'name_pool': NAME_POOL,
                # 'match': the file already has this version; 'switch': it has another one and static_prop_version is
                # changed before saving; 'unparsed': props are assigned without reading the lump or choosing a version
                'mode': st.sampled_from(['match', 'match', 'switch', 'unparsed']),
                'base_ver': st.sampled_from(G.sprp_versions_for(layout)),
            })
        return st.sampled_from(layouts).flatmap(per_layout)
    return st.sampled_from(sorted(G.SPRP_VERSIONS)).flatmap(per_version)


def execute_props(desc, ctx):
    from srctools.bsp import StaticProp, StaticPropFlags, StaticPropVersion
    from srctools.math import Vec, Angle
    mode = desc.get('mode', 'match')
    ver = desc['ver']
    base_ver = ver if mode == 'match' else desc['base_ver']
    if mode == 'unparsed':
        ver = 'V5'           # documented default when the version is unknown
    with Case(desc, ctx, [], sprp_ver=base_ver, gl=['sprp']) as c:
        bsp = c.bsp
        ctx.label('sprp:' + ver)
        names = pooled_names(desc)
        if case_variant_pair(names):
            ctx.label('case_variant_pair')
        ctx.label('props_mode:' + mode)
        leafs = list(bsp.visleafs)
        if mode != 'unparsed':
            list(bsp.props)                               # parse the (empty) lump first, then choose the version
            bsp.static_prop_version = StaticPropVersion[ver]
        mask = G.sprp_flag_mask(ver)
        uniform = ver != 'V_CHAOS_V13'
        value = []
        for d, name in zip(desc['props'], names):
            sc = d['scale']
            if isinstance(sc, list):
                scaling = Vec(sc[0], sc[0], sc[0]) if uniform else mk_vec(sc)
            else:
                scaling = sc
            kw = {}
            if d['lighting'] is not None:
                kw['lighting'] = mk_vec(d['lighting'])
            value.append(StaticProp(
                model=name, origin=mk_vec(d['origin']), angles=Angle(*d['angles']), scaling=scaling,
                visleafs={leafs[i % len(leafs)] for i in d['leaves']}, solidity=d['solidity'],
                flags=StaticPropFlags(d['flags'] & mask), skin=d['skin'], min_fade=d['min_fade'], max_fade=d['max_fade'],
                fade_scale=d['fade_scale'], min_dx_level=d['min_dx'], max_dx_level=d['max_dx'],
                min_cpu_level=d['cpu'][0], max_cpu_level=d['cpu'][1], min_gpu_level=d['cpu'][2], max_gpu_level=d['cpu'][3],
                tint=Vec(*[float(t) for t in d['tint']]), renderfx=d['renderfx'], disable_on_xbox=d['xbox'],
                lightmap_x=d['lm'][0], lightmap_y=d['lm'][1], **kw,
            ))
        ctx.nontrivial(len(value) >= 2)
        drop = _prop_dropped(ver)

        def scale3(v):
            return v if hasattr(v, 'x') else Vec(v, v, v)
        rename = {('StaticProp', 'scaling'): scale3}
        want = G.canon([leafs, value], drop=drop, rename=rename)
        bsp.props = value
        facts = {'ver': ver, 'mode': mode, 'same_number': G.SPRP_VERSIONS[ver][0] == G.SPRP_VERSIONS[base_ver][0]}
        b2 = c.reread()
        if not c.ctx.check(b2.game_lumps[b'sprp'].version == G.SPRP_VERSIONS[ver][0], 'props_lump_version',
                           f'{c.layout} mode={mode}: props written as {ver} (file had {base_ver}) but the sprp game lump '
                           f'header says version {b2.game_lumps[b"sprp"].version}', **facts):
            return
        got = G.canon([list(b2.visleafs), list(b2.props)], drop=drop, rename=rename)
        if value:
            c.ctx.check(b2.static_prop_version.name == ver, 'props_version_detected',
                        f'{c.layout}: wrote {ver}, re-read detects {b2.static_prop_version.name}', **facts)
        c.expect_equal('roundtrip:props', want, got, **facts)


# ----------------------------------------------------------------------------------------------------------------
# detail props

F2 = st.tuples(FNZ, FNZ).map(list)
DPROP = st.fixed_dictionaries({
    'type': st.sampled_from(['model', 'model', 'sprite', 'shape', 'cross']), 'origin': VEC, 'angles': ANGLES,
    'orient': st.integers(0, 2), 'leaf': U16, 'lighting': st.lists(U8, min_size=4, max_size=4), 'styles': U32,
    'style_count': U8, 'sway': U8, 'model': MDLNAME, 'name_ix': SMALL, 'scale': F, 'dims': st.lists(F2, min_size=4, max_size=4),
    'sprite_ref': st.one_of(st.none(), SMALL), 'shape_angle': U8, 'shape_size': U8,
})


def strat_detail(tier):
    return st.fixed_dictionaries({'layout': LAYOUT, 'lzma': LZ, 'props': st.lists(DPROP, max_size=5), 'name_pool': NAME_POOL})


def execute_detail(desc, ctx):
    from srctools.bsp import DetailPropModel, DetailPropSprite, DetailPropShape, DetailPropOrientation
    from srctools.math import Angle
    with Case(desc, ctx, [], gl=['dprp']) as c:
        value = []
        dims_seen: list = []
        names = pooled_names(desc)
        if case_variant_pair([n for n, d in zip(names, desc['props']) if d['type'] == 'model']):
            ctx.label('case_variant_pair')
        for d, name in zip(desc['props'], names):
            common = (mk_vec(d['origin']), Angle(*d['angles']), DetailPropOrientation(d['orient']), d['leaf'],
                      tuple(d['lighting']), (d['styles'], d['style_count']), d['sway'])
            ctx.label('detail:' + d['type'])
            if d['type'] == 'model':
                value.append(DetailPropModel(*common, name))
                continue
            dims = [tuple(p) for p in d['dims']]
            if d['sprite_ref'] is not None and dims_seen:       # reuse an earlier sprite rectangle
                dims = dims_seen[d['sprite_ref'] % len(dims_seen)]
                ctx.label('shared_sprite')
            dims_seen.append(dims)
            if d['type'] == 'sprite':
                value.append(DetailPropSprite(*common, d['scale'], *dims))
            else:
                value.append(DetailPropShape(*common, d['scale'], *dims, d['type'] == 'cross', d['shape_angle'],
                                             d['shape_size']))
        ctx.nontrivial(len(value) >= 2)
        want = G.canon(value)
        c.bsp.detail_props = value
        got = G.canon(c.reread().detail_props)
        c.expect_equal('roundtrip:detail_props', want, got,
                       has_shape=any(d['type'] in ('shape', 'cross') for d in desc['props']))


# ----------------------------------------------------------------------------------------------------------------
# entity lump

ENT_KEY = st.one_of(st.text('abcdefgXYZ_0123', min_size=1, max_size=8),
                    st.sampled_from(['origin', 'angles', 'targetname', 'spawnflags', 'Some Key', 'a.b$c%']))
ENT_VAL = st.one_of(
    st.text('abcXYZ 0123.,;:-_+*#@!$%&/()[]=<>|~^?\'`', max_size=14),
    st.text('ab\n\t"\\ {}/\udc80\udcff,', max_size=10),
    st.sampled_from(['', '0 0 0', '1,2,3,4', 'a,b,c,d,e', '1,2,3,4,5,6', '//comment', '/* x */', '{', '}', '\\n', 'a\\']),
)
OUT_NAME = st.text('abcOnTrigger_012', min_size=1, max_size=8)
OUT_TEXT = st.text('abcXYZ 012._-!@/*', max_size=8)
OUT_PARAM = st.one_of(OUT_TEXT, st.text('ab,c 1', max_size=6), st.text('a"b\\c\nd\t', max_size=5))
# m x 10^e with m <= 5 significant digits over all magnitudes '%g' writes exactly
DELAY = st.one_of(st.integers(0, 99999).map(lambda i: i / 100.0), st.sampled_from([0.0, 0.5, 1e-05, 12345.0, 1e10, 2.5e-07, 1e-07]),
                  st.tuples(st.integers(1, 99999), st.integers(-9, 9)).map(lambda t: float(f'{t[0]}e{t[1]}')))
OUTPUT = st.fixed_dictionaries({
    'out': OUT_NAME, 'inst_out': st.one_of(st.none(), st.none(), OUT_NAME), 'target': OUT_TEXT, 'inp': OUT_NAME,
    'inst_in': st.one_of(st.none(), st.none(), OUT_NAME), 'param': OUT_PARAM, 'delay': DELAY,
    'times': st.sampled_from([-1, 1, 0, 5, 2147483647]), 'comma': st.booleans(),
})
ENTITY = st.fixed_dictionaries({
    'cls': st.text('abc_xyz', min_size=1, max_size=8),
    'kv': st.lists(st.tuples(ENT_KEY, ENT_VAL).map(list), max_size=5, unique_by=lambda p: p[0].casefold()),
    'outs': st.lists(OUTPUT, max_size=3),
})


def looks_like_output(value: str) -> bool:
    if '\x1b' in value:
        return True
    if value.count(',') != 4:
        return False
    parts = value.split(',')
    try:
        float(parts[3])
        int(parts[4])
    except ValueError:
        return False
    return True


def strat_ents(tier):
    return st.fixed_dictionaries({
        'layout': LAYOUT, 'lzma': LZ, 'sep': st.sampled_from([None, True, False]),
        'spawn': st.lists(st.tuples(ENT_KEY, ENT_VAL).map(list), max_size=4, unique_by=lambda p: p[0].casefold()),
        'ents': st.lists(ENTITY, max_size=4),
    })


def execute_ents(desc, ctx):
    from srctools.vmf import VMF, Output
    with Case(desc, ctx, ['ENTITIES']) as c:
        bsp = c.bsp
        vmf = VMF()
        sep = desc['sep']
        ctx.label(f'sep:{sep}')

        def ok_kv(k, v):
            return k.casefold() not in ('nodeid', 'classname', 'model') and not looks_like_output(v) and '\x00' not in v

        for k, v in desc['spawn']:
            if ok_kv(k, v):
                vmf.spawn[k] = v
        expect_sep = []
        for e in desc['ents']:
            ent = vmf.create_ent(e['cls'])
            for k, v in e['kv']:
                if ok_kv(k, v):
                    ent[k] = v
                    if any(ch in v for ch in '"\\\n\t'):
                        ctx.label('value_needs_escape')
            for o in e['outs']:
                comma = o['comma'] if sep is None else sep
                param = o['param']
                if comma:
                    param = param.replace(',', ';')
                    ctx.label('out:comma')
                else:
                    ctx.label('out:esc')
                ent.add_out(Output(o['out'], o['target'], o['inp'], param, o['delay'], times=o['times'],
                                   inst_out=o['inst_out'], inst_in=o['inst_in'], comma_sep=o['comma']))
                expect_sep.append(comma)
        ctx.nontrivial(len(desc['ents']) >= 2)
        # expected form: each output's separator is the BSP-wide one when that is set
        want = G.canon(vmf)
        k = 0
        for ent_c in want[2]:
            for out_c in ent_c[4]:
                out_c[-1] = int(expect_sep[k])
                k += 1
        bsp.out_comma_sep = sep
        bsp.ents = vmf
        got = G.canon(c.reread().ents)
        c.expect_equal('roundtrip:ents', want, got)


# ----------------------------------------------------------------------------------------------------------------
# pakfile


def strat_pakfile(tier):
    fname = st.one_of(
        st.text('abc/_.XY', min_size=1, max_size=10).filter(lambda s: not s.startswith('/') and not s.endswith('/')),
        st.sampled_from(['materials/Wall.vmt', 'materials/wall.vmt', 'MATERIALS/WALL.VMT']))
    return st.fixed_dictionaries({
        'layout': LAYOUT, 'files': st.lists(st.tuples(fname, st.binary(max_size=40).map(bytes.hex)).map(list), max_size=4,
                                           unique_by=lambda p: p[0]),
        'append': st.booleans(),
    })


def execute_pakfile(desc, ctx):
    import zipfile
    with Case(desc, ctx) as c:
        bsp = c.bsp
        if desc['append']:
            zf = bsp.pakfile
            ctx.label('pak:append')
        else:
            zf = zipfile.ZipFile(io.BytesIO(), 'w')
            ctx.label('pak:new')
        for name, hx in desc['files']:
            zf.writestr(name, bytes.fromhex(hx))
        want = ['Zip', [[name, hx] for name, hx in desc['files']], '']
        if case_variant_pair([name for name, hx in desc['files']]):
            ctx.label('case_variant_pair')
        ctx.nontrivial(len(desc['files']) >= 2)
        if not desc['append']:
            bsp.pakfile = zf
        c.expect_equal('roundtrip:pakfile', want, G.canon(c.reread().pakfile))


# ----------------------------------------------------------------------------------------------------------------
# rejection clause: a value that does not fit its field must raise, or else read back equal


REJECT_KINDS = [
    'texture_name', 'texdata_name', 'prop_model_name', 'detail_model_name', 'overlay_faces', 'leaf_area',
    'face_dispinfo', 'face_many_prims', 'cubemap_size', 'prop_skin', 'prop_solidity', 'prop_dx', 'detail_leaf',
    'leaf_cluster', 'leaf_mindist', 'node_area', 'side_dispinfo', 'vis_mismatch', 'prim_index', 'overlay_id',
    'vertex_index', 'face_hammer_id', 'water_texinfo_many',
]


def strat_reject(tier):
    return st.fixed_dictionaries({
        'layout': LAYOUT_NOVIT, 'kind': st.sampled_from(REJECT_KINDS),
        'n': st.integers(0, 200), 'big': st.sampled_from([0x8000, 0xFFFF, 0x10000, 0x12345, 0x7FFFFFFF, 0x80000000,
                                                          0xFFFFFFFF, 0x100000000, -0x8001, -0x80000001]),
    })


def execute_reject(desc, ctx):
    from srctools import bsp as B
    from srctools.math import Vec, Angle
    kind, n, big = desc['kind'], desc['n'], desc['big']
    ctx.label('kind:' + kind)
    ctx.nontrivial(True)
    with Case(desc, ctx, sprp_ver='V10') as c:
        bsp = c.bsp
        view = None
        facts = {'kind': kind}
        if kind == 'texture_name':
            name = ('T' * 300)[:128 + n]
            value = ['A', name]
            bsp.textures = value
            view = 'textures'
        elif kind == 'texdata_name':
            name = ('M' * 400)[:128 + n]
            value = [mk_texinfo([[0.0] * 16, 0, 0, False], [mk_texdata([name, [0.0, 0.0, 0.0], 4, 4])])]
            bsp.texinfo = value
            view = 'texinfo'
        elif kind == 'prop_model_name':
            name = ('models/' + 'p' * 400)[:129 + n] + '.mdl'
            list(bsp.props)
            bsp.static_prop_version = B.StaticPropVersion.V10
            value = [B.StaticProp(model=name, origin=Vec(1, 2, 3))]
            bsp.props = value
            view = 'props'
            facts['name_len'] = len(name)
        elif kind == 'detail_model_name':
            name = ('models/' + 'd' * 400)[:129 + n] + '.mdl'
            value = [B.DetailPropModel(Vec(), Angle(), B.DetailPropOrientation.NORMAL, 0, (0, 0, 0, 0), (0, 0), 0, name)]
            bsp.detail_props = value
            view = 'detail_props'
            facts['name_len'] = len(name)
        elif kind == 'overlay_faces':
            fl = list(range(65 + n))
            value = [B.Overlay(1, Vec(), Vec(0, 0, 1), bsp.texinfo[0], len(fl), fl)]
            bsp.overlays = value
            view = 'overlays'
        elif kind in ('leaf_area', 'leaf_cluster', 'leaf_mindist'):
            leaf = list(bsp.visleafs)[0]
            if kind == 'leaf_area':
                leaf.area = (0x4000 + n) if c.chaos else (256 + n)
            elif kind == 'leaf_cluster':
                leaf.cluster_id = big if (c.chaos and not -0x80000000 <= big <= 0x7FFFFFFF) or (
                    not c.chaos and not -0x8000 <= big <= 0x7FFF) else 0x7FFFFFFF + 1 + n
            else:
                leaf.min_water_dist = 0x10000 + n
            value = [leaf]
            bsp.visleafs = value
            view = 'visleafs'
        elif kind in ('face_dispinfo', 'face_many_prims', 'face_hammer_id'):
            faces = list(bsp.faces)
            f = faces[0]
            if kind == 'face_dispinfo':
                f._dispinfo_ind = (0x80000000 + n) if c.chaos else (0x8000 + n)
            elif kind == 'face_hammer_id':
                f.hammer_id = f.orig_face.hammer_id = (0x100000000 + n) if c.chaos else (0x10000 + n)
            else:
                f.primitives = [B.Primitive(False, [], []) for _ in range(0x8000 + (n % 3))]
            value = faces
            bsp.faces = value
            view = 'faces'
        elif kind == 'cubemap_size':
            value = [B.Cubemap(Vec(1, 2, 3), 0x80000000 + n)]
            bsp.cubemaps = value
            view = 'cubemaps'
        elif kind in ('prop_skin', 'prop_solidity', 'prop_dx'):
            list(bsp.props)
            bsp.static_prop_version = B.StaticPropVersion.V6 if kind == 'prop_dx' else B.StaticPropVersion.V10
            bsp.game_lumps[b'sprp'].version = bsp.static_prop_version.version
            p = B.StaticProp(model='models/a.mdl', origin=Vec(1, 2, 3))
            if kind == 'prop_skin':
                p.skin = 0x80000000 + n
            elif kind == 'prop_solidity':
                p.solidity = 256 + n
            else:
                p.max_dx_level = 0x10000 + n
            value = [p]
            bsp.props = value
            view = 'props'
        elif kind == 'detail_leaf':
            value = [B.DetailPropModel(Vec(), Angle(), B.DetailPropOrientation.NORMAL, 0x10000 + n, (0, 0, 0, 0), (0, 0), 0,
                                       'models/a.mdl')]
            bsp.detail_props = value
            view = 'detail_props'
        elif kind == 'node_area':
            nodes = list(bsp.nodes)
            nodes[0].area_ind = 0x8000 + n
            value = nodes
            bsp.nodes = value
            view = 'nodes'
        elif kind == 'side_dispinfo':
            brushes = list(bsp.brushes)
            brushes[0].sides[0]._dispinfo = (0x80000000 + n) if c.chaos else (0x8000 + n)
            value = brushes
            bsp.brushes = value
            view = 'brushes'
        elif kind == 'vis_mismatch':
            value = B.Visibility([bytearray(1)] * 2, [bytearray(1)] * (3 + n % 3))
            bsp.visibility = value
            view = 'visibility'
        elif kind == 'prim_index':
            value = [B.Primitive(False, [(0x100000000 + n) if c.chaos else (0x10000 + n)], [])]
            bsp.primitives = value
            view = 'primitives'
        elif kind == 'overlay_id':
            value = [B.Overlay(0x80000000 + n, Vec(), Vec(0, 0, 1), bsp.texinfo[0], 0, [])]
            bsp.overlays = value
            view = 'overlays'
        elif kind == 'vertex_index':
            if c.chaos:
                ctx.label('skipped')
                return
            verts = [Vec(i, 0, 0) for i in range(0x10001)]
            bsp.vertexes = verts
            value = [B.Edge(verts[0x10000], verts[1])]
            bsp.surfedges = value
            view = 'surfedges'
        elif kind == 'water_texinfo_many':
            if c.chaos:
                ctx.label('skipped')
                return
            tis = [mk_texinfo([[float(i)] + [0.0] * 15, 0, 0, False], [bsp.texinfo[0]._info]) for i in range(0x10000)]
            bsp.texinfo = list(bsp.texinfo) + tis
            value = [B.LeafWaterInfo(1.0, 0.0, tis[-1])]
            bsp.water_leaf_info = value
            view = 'water_leaf_info'
        else:
            raise HarnessError(kind)
        want = G.canon(value)
        try:
            b2 = c.reread()
        except ALLOWED_REJECTIONS:
            ctx.label('rejected')
            return
        ctx.label('accepted')
        got_v = getattr(b2, view)
        got = G.canon(got_v if got_v is None or not isinstance(got_v, list) else list(got_v)[:len(value)])
        if want != got:
            ctx.fail('silent_truncation', f'{c.layout} {kind}: save() accepted a value that does not fit and the file reads '
                                          f'back different: {G.first_diff(want, got)}', **facts)


# ----------------------------------------------------------------------------------------------------------------
# edit sessions: re-open a file, parse a mapping/list view, delete / re-key / move / replace entries, save, re-open;
# the content is compared with a plain model of what the caller stored (entities by position, models by a marker).

_EPROP = {'model': 'models/a.mdl', 'leaves': [0], 'flags': 0, 'origin': [1.0, 2.0, 3.0], 'angles': [0.0, 90.0, 0.0],
          'solidity': 6, 'skin': 0, 'min_fade': 0.0, 'max_fade': 0.0, 'lighting': [1.0, 2.0, 3.0], 'fade_scale': 1.0,
          'min_dx': 0, 'max_dx': 0, 'min_cpu': 0, 'max_cpu': 0, 'min_gpu': 0, 'max_gpu': 0, 'lm_x': 32, 'lm_y': 32,
          'tint': [255, 255, 255], 'renderfx': 255, 'xbox': False, 'scale3': [1.0, 1.0, 1.0]}
_EDPROP = {'type': 0, 'model': 'models/d.mdl', 'sprite': [0.0, 1.0, 1.0, 0.0, 0.0, 0.0, 1.0, 1.0], 'origin': [0.0, 0.0, 0.0],
           'angles': [0.0, 0.0, 0.0], 'leaf': 0, 'lighting': [1, 2, 3, 4], 'styles': 0, 'style_count': 0, 'sway': 0,
           'shape_angle': 0, 'shape_size': 1, 'orient': 0, 'scale': 1.0}
_EDIT_BLOBS: dict = {}


def edit_blob(layout: str) -> bytes:
    """Base file for the edit sessions: 4 brush models (marker = origin.x), 3 brush entities + one that shares model 1,
    2 point entities, physics on two models, 3 static props (marker = skin), 3 detail props (marker = leaf), an
    unknown game lump and two packed files."""
    if layout not in _EDIT_BLOBS:
        raw = base_raw(layout)
        m0 = raw['models'][0]
        raw['models'] = [dict(m0, origin=[float(k), 0.0, 0.0]) for k in range(4)]
        raw['model_refs'] = [0]
        raw['ents'] = [raw['ents'][0],
                       {'kv': [['classname', 'info_target'], ['targetname', 'p1']], 'outs': []},
                       {'kv': [['classname', 'info_target'], ['targetname', 'p2'], ['model', 'models/x.mdl']], 'outs': []}]
        raw['phys'] = [{'model': 1, 'solids': ['0102', ''], 'kv': 'solid\n{\n"index" "0"\n}\n'},
                       {'model': 3, 'solids': [], 'kv': ''}]
        raw['sprp'] = dict(raw['sprp'], props=[dict(_EPROP, skin=k, model=f'models/p{k % 2}.mdl') for k in range(3)])
        raw['dprp'] = dict(raw['dprp'], props=[dict(_EDPROP, leaf=k, type=k, model=f'models/d{k}.mdl') for k in range(3)])
        raw['extra_gl'] = [{'id': 'xyzw', 'flags': 2, 'ver': 7, 'data': 'deadbeef', 'lzma': False, 'pos': 2}]
        raw['pak'] = [['a.txt', '6161'], ['dir/b.bin', '0001ff']]
        _EDIT_BLOBS[layout] = G.build_bsp(G.resolve_world(raw))
    return _EDIT_BLOBS[layout]


EDIT_OP = st.one_of(
    st.tuples(st.just('bm_del'), SMALL).map(list),                      # del bmodels[ent]
    st.tuples(st.just('bm_move'), SMALL, SMALL).map(list),              # bmodels[dst] = bmodels.pop(src)
    st.tuples(st.just('bm_share'), SMALL, SMALL).map(list),             # bmodels[dst] = bmodels[src]
    st.tuples(st.just('bm_new'), SMALL).map(list),                      # bmodels[ent] = BModel(...)
    st.tuples(st.just('prop_del'), SMALL).map(list),
    st.tuples(st.just('prop_move'), SMALL, SMALL).map(list),
    st.just(['prop_clear']),
    st.tuples(st.just('detail_del'), SMALL).map(list),
    st.tuples(st.just('detail_move'), SMALL, SMALL).map(list),
    st.tuples(st.just('gl_del'), st.sampled_from(['xyzw', 'abcd'])).map(list),
    st.tuples(st.just('gl_add'), st.sampled_from(['abcd', 'efgh']), st.binary(max_size=8).map(bytes.hex)).map(list),
    st.tuples(st.just('pak_drop'), SMALL).map(list),                    # new archive without one file
    st.tuples(st.just('pak_add'), st.sampled_from(['n1.txt', 'dir/n2']), st.binary(max_size=8).map(bytes.hex)).map(list),
)


def strat_edits(tier):
    return st.fixed_dictionaries({
        'layout': LAYOUT,
        'sessions': st.lists(st.lists(EDIT_OP, min_size=1, max_size=5), min_size=1, max_size=2),
    })


def execute_edits(desc, ctx):
    import zipfile
    from srctools.bsp import BSP, BModel, GameLump
    layout = desc['layout']
    ctx.label('layout:' + layout)
    l4d2 = G.LAYOUTS[layout].l4d2
    by_val = ('Face', 'Primitive')
    # ---- the model of the intended content
    m_bm = {0: 0, 1: None, 2: None, 3: 1, 4: 2, 5: 3, 6: 1}        # entity position -> model marker (None: no brush model)
    # positions: 0 worldspawn, 1-2 point entities, 3-5 func_brush *1..*3, 6 shares *1  (see resolve_world)
    m_props = [0, 1, 2]
    m_detail = [0, 1, 2]
    m_gl = {'xyzw': (2, 7, 'deadbeef')}
    m_pak = {'a.txt': '6161', 'dir/b.bin': '0001ff'}
    new_marker = 100
    ctx.nontrivial(sum(len(x) for x in desc['sessions']) >= 2)
    with tempfile.TemporaryDirectory(prefix='c11_') as td:
        cur = os.path.join(td, 'in.bsp')
        with open(cur, 'wb') as f:
            f.write(edit_blob(layout))
        for sno, ops in enumerate(desc['sessions']):
            bsp = BSP(cur)
            ents = [bsp.ents.spawn] + list(bsp.ents.entities)
            if len(ents) != len(m_bm):
                raise HarnessError(f'entity count {len(ents)}')
            bm = None
            for op in ops:
                kind = op[0]
                if kind.startswith('bm_'):
                    if bm is None:
                        bm = bsp.bmodels
                    owners = [e for e in range(len(ents)) if m_bm[e] is not None]
                    if kind == 'bm_del':
                        cand = [e for e in owners if e != 0]
                        if cand:
                            e = cand[op[1] % len(cand)]
                            del bm[ents[e]]
                            m_bm[e] = None
                            ctx.label('edit:bm_del')
                    elif kind == 'bm_move':
                        cand = [e for e in owners if e != 0]
                        if cand:
                            src_e = cand[op[1] % len(cand)]
                            dst_e = [e for e in range(len(ents)) if e != src_e][op[2] % (len(ents) - 1)]
                            bm[ents[dst_e]] = bm.pop(ents[src_e])
                            m_bm[dst_e], m_bm[src_e] = m_bm[src_e], None
                            ctx.label('edit:bm_move')
                    elif kind == 'bm_share':
                        src_e = owners[op[1] % len(owners)]
                        dst_e = op[2] % len(ents)
                        bm[ents[dst_e]] = bm[ents[src_e]]
                        m_bm[dst_e] = m_bm[src_e]
                        ctx.label('edit:bm_share')
                    else:
                        e = op[1] % len(ents)
                        old = bm[ents[owners[0]]]
                        bm[ents[e]] = BModel(mk_vec([0.0, 0.0, 0.0]), mk_vec([8.0, 8.0, 8.0]), mk_vec([float(new_marker), 0.0, 0.0]),
                                             old.node, list(old.faces))
                        m_bm[e] = new_marker
                        new_marker += 1
                        ctx.label('edit:bm_new')
                elif kind.startswith('prop_'):
                    props = bsp.props
                    if kind == 'prop_clear':
                        props.clear()
                        m_props = []
                    elif props:
                        i = op[1] % len(props)
                        if kind == 'prop_del':
                            del props[i]
                            del m_props[i]
                        else:
                            j = op[2] % len(props)
                            props.insert(j, props.pop(i))
                            m_props.insert(j, m_props.pop(i))
                    ctx.label('edit:' + kind)
                elif kind.startswith('detail_'):
                    det = bsp.detail_props
                    if det:
                        i = op[1] % len(det)
                        if kind == 'detail_del':
                            del det[i]
                            del m_detail[i]
                        else:
                            j = op[2] % len(det)
                            det.insert(j, det.pop(i))
                            m_detail.insert(j, m_detail.pop(i))
                    ctx.label('edit:' + kind)
                elif kind == 'gl_del':
                    if op[1] in m_gl:
                        del bsp.game_lumps[op[1].encode()]
                        del m_gl[op[1]]
                        ctx.label('edit:gl_del')
                elif kind == 'gl_add':
                    bsp.game_lumps[op[1].encode()] = GameLump(op[1].encode(), 4, 3, bytes.fromhex(op[2]))
                    m_gl.pop(op[1], None)
                    m_gl[op[1]] = (4, 3, op[2])
                    ctx.label('edit:gl_add')
                else:
                    if kind == 'pak_drop' and m_pak:
                        del m_pak[sorted(m_pak)[op[1] % len(m_pak)]]
                    elif kind == 'pak_add':
                        m_pak[op[1]] = op[2]
                    zf = zipfile.ZipFile(io.BytesIO(), 'w')
                    for name in sorted(m_pak):
                        zf.writestr(name, bytes.fromhex(m_pak[name]))
                    bsp.pakfile = zf
                    ctx.label('edit:' + kind)
            want_models = None
            if bm is not None:
                want_models = {e: G.canon(bm[ents[e]], by_value=by_val) for e in range(len(ents)) if m_bm[e] is not None}
                if set(want_models) != {e for e in range(len(ents)) if ents[e] in bm}:
                    raise HarnessError('reference model and mapping disagree')
            out = os.path.join(td, f'out{sno}.bsp')
            save_quiet(bsp, out)
            # ---- fresh session on the written file
            tag = f'{layout} session {sno + 1}/{len(desc["sessions"])} ops={ops}'
            b2 = BSP(out)
            ents2 = [b2.ents.spawn] + list(b2.ents.entities)
            ctx.check(len(ents2) == len(ents), 'edit:entities', f'{tag}: {len(ents)} entities became {len(ents2)}')
            keys = [e['model'] for e in ents2]
            for e, key in enumerate(keys):
                has = key.startswith('*')
                if not ctx.check(has == (m_bm[e] is not None) or e == 0, 'edit:bmodel_owner',
                                 f'{tag}: entity #{e} ({ents2[e]["classname"]}) was stored '
                                 f'{"with" if m_bm[e] is not None else "WITHOUT"} a brush model and re-reads with model={key!r}',
                                 op=ops[0][0]):
                    return
            got_bm = b2.bmodels
            got = {}
            for e, ent in enumerate(ents2):
                if ent in got_bm:
                    got[e] = got_bm[ent]
            want_markers = {e: float(m) for e, m in m_bm.items() if m is not None}
            got_markers = {e: m.origin.x for e, m in got.items()}
            ctx.check(got_markers == want_markers, 'edit:bmodel_mapping',
                      f'{tag}: entity -> brush model (marker origin.x) stored {want_markers}, re-read {got_markers}', op=ops[0][0])
            if want_models is not None:
                for e, wc in want_models.items():
                    gc = G.canon(got[e], by_value=by_val)
                    if wc != gc:
                        ctx.fail('edit:bmodel_content', f'{tag}: brush model of entity #{e} differs: {G.first_diff(wc, gc)}')
            for e in range(len(ents2)):        # sharing is kept
                for e2 in range(e):
                    if m_bm[e] is not None and m_bm[e2] is not None:
                        ctx.check((got[e] is got[e2]) == (m_bm[e] == m_bm[e2]), 'edit:bmodel_sharing',
                                  f'{tag}: entities #{e2}/#{e} share={got[e] is got[e2]}, stored markers {m_bm[e2]}/{m_bm[e]}')
            ctx.check([p.skin for p in b2.props] == m_props, 'edit:props',
                      f'{tag}: static props (marker skin) stored {m_props}, re-read {[p.skin for p in b2.props]}')
            ctx.check([p.leaf for p in b2.detail_props] == m_detail, 'edit:detail_props',
                      f'{tag}: detail props (marker leaf) stored {m_detail}, re-read {[p.leaf for p in b2.detail_props]}')
            kinds = [type(p).__name__ for p in b2.detail_props]
            want_kinds = [['DetailPropModel', 'DetailPropSprite', 'DetailPropShape'][k] for k in m_detail]
            ctx.check(kinds == want_kinds, 'edit:detail_props', f'{tag}: detail prop kinds {kinds} != {want_kinds}')
            with open(out, 'rb') as f:
                cont = G.read_container(f.read(), l4d2)
            got_gl = {g['id'].decode(): (g['flags'], g['version'], g['data'].hex()) for g in cont['game_lumps']
                      if g['id'] not in (b'sprp', b'dprp')}
            ctx.check(got_gl == m_gl, 'edit:game_lumps', f'{tag}: game lumps stored {m_gl}, file has {got_gl}')
            zf2 = b2.pakfile
            got_pak = {n: zf2.read(n).hex() for n in zf2.namelist()}
            ctx.check(got_pak == m_pak, 'edit:pakfile', f'{tag}: packed files stored {m_pak}, re-read {got_pak}')
            cur = out


# ----------------------------------------------------------------------------------------------------------------

_LAYOUTS = tuple('layout:' + n for n in G.MAIN_LAYOUTS)
_LAYOUTS_NOVIT = tuple(x for x in _LAYOUTS if x != 'layout:v43')


def guarded(execute):
    """Values are built from legal descriptor numbers with srctools' own constructors (flag enums, attrs classes).  If
    such a constructor refuses a legal value the traceback ends in the standard library (enum.py), which the runner
    would take for a harness bug - it is a finding: the view cannot hold what the on-disk field holds."""
    import functools
    import traceback as tb_mod

    @functools.wraps(execute)
    def run(desc, ctx):
        try:
            return execute(desc, ctx)
        except ValueError as exc:
            frames = tb_mod.extract_tb(exc.__traceback__)
            if frames and frames[-1].filename.endswith('enum.py'):
                mine = [f for f in frames if f.filename.endswith('c11_bsp_lump_inverse.py')]
                ctx.fail('flag_word_rejected', f'a flag enum refuses a legal field value: {exc} (built at line '
                                               f'{mine[-1].lineno if mine else "?"}: {mine[-1].line if mine else ""})',
                         layout=desc.get('layout'))
                return None
            raise
    return run


def S(name, execute, strategy, quick, thorough, floor=20, must=(), layouts=_LAYOUTS):
    return Sub(name, guarded(execute), strategy=strategy, quick=quick, thorough=thorough, quick_shards=4 if quick >= 400 else 2,
               thorough_shards=16,
               floor=floor, must_hit=tuple(layouts) + tuple(must))


SUBCHECKS = [
    S('ents', execute_ents, strat_ents, 500, 12000, must=('out:comma', 'out:esc', 'sep:None', 'sep:True', 'sep:False',
                                                            'value_needs_escape')),
    S('planes', execute_planes, strat_planes, 300, 6000, must=('lzma_base',)),
    S('vertexes', execute_vertexes, strat_vertexes, 300, 6000),
    S('surfedges', execute_surfedges, strat_surfedges, 400, 8000, must=('revedge', 'edge_twice')),
    S('primitives', execute_primitives, strat_primitives, 300, 6000, layouts=_LAYOUTS_NOVIT),
    S('faces', execute_faces, strat_faces, 600, 14000, must=('edges:slice', 'edges:new', 'edges:tail', 'hdr')),
    S('brushes', execute_brushes, strat_brushes, 400, 10000, must=('shared_side',)),
    S('textures', execute_textures, strat_textures, 300, 6000, must=('duplicate_name', 'case_variant_pair')),
    S('texinfo', execute_texinfo, strat_texinfo, 400, 8000, must=('shared_texdata',)),
    S('tree', execute_tree, strat_tree, 600, 14000, must=('node_faces:slice', 'node_faces:tail', 'unlisted_node',
                                                          'unlisted_leaf', 'float_bounds', 'new_brush')),
    S('water', execute_water, strat_water, 300, 6000),
    S('visibility', execute_visibility, strat_visibility, 300, 5000, must=(
        'vis_none', 'vis_long_rows', 'vis_short_rows', 'vis_clusters>=128', 'vis_encoded_longer', 'vis_encoded_much_longer',
        'vis_boundary_run', 'vis_pat:alt', 'vis_pat:and', 'vis_pat:run', 'vis_pat:ones', 'vis_pat:zeros', 'vis_pat:raw')),
    S('bmodels', execute_bmodels, strat_bmodels, 400, 10000, must=('shared_model', 'phys_solids', 'model_faces:tail')),
    S('cubemaps', execute_cubemaps, strat_cubemaps, 200, 4000),
    S('overlays', execute_overlays, strat_overlays, 300, 6000, must=('faces64',)),
    S('props', execute_props, strat_props, 800, 16000, must=tuple('sprp:' + v for v in G.SPRP_VERSIONS) + ('props_mode:match', 'props_mode:switch', 'props_mode:unparsed', 'case_variant_pair')),
    S('detail', execute_detail, strat_detail, 400, 8000, must=('detail:model', 'detail:sprite', 'detail:shape',
                                                               'detail:cross', 'shared_sprite', 'case_variant_pair')),
    S('pakfile', execute_pakfile, strat_pakfile, 150, 2000, floor=5, must=('pak:new', 'pak:append', 'case_variant_pair')),
    S('edits', execute_edits, strat_edits, 400, 8000, must=('edit:bm_del', 'edit:bm_move', 'edit:bm_share', 'edit:bm_new', 'edit:prop_del',
                                                       'edit:prop_move', 'edit:detail_del', 'edit:gl_del', 'edit:gl_add', 'edit:pak_drop')),
    S('reject', execute_reject, strat_reject, 400, 6000, floor=20, layouts=_LAYOUTS_NOVIT,
      must=tuple('kind:' + k for k in REJECT_KINDS) + ('rejected',)),
]

MATCHERS = {}
