"""C02 - escape_text() and the tokenizer are exact inverses on every string (DESIGN.md section 2, C02)."""
from __future__ import annotations

import itertools

from hypothesis import strategies as st

from vlib.core import Sub

PROPERTY = 'C02'
LEVEL = 'exploration'
RULE = (
    'enum: every string of length <= 4 (quick) / <= 5 (thorough) over the 19-symbol escape alphabet, each run with '
    'multiline in {False, True}, two tokenizer option sets and chunked deliveries (fixed blocks; per character and blocks '
    'with zero-length chunks at every cut point); long: a short generated unit (with escapes) repeated to lengths around '
    '4096/8192/12288/16384/65536 and random lengths 8192..40000, as str, in blocks and embedded in a KeyValues line; '
    'kv2file: long values of 2/3/4-byte characters and escapes exported with Element.export_kv2 (unicode format/silent/ascii) at '
    'byte shifts 0..3 and read back with Element.parse from a binary file; every case is preceded by a generated earlier '
    'use of the library (single_block parse, abandoned push_back/peek, tokenizer stopped by an error, IterTokenizer); random: Hypothesis text (<= 300 chars) mixing all Unicode '
    'scalar values with that alphabet; embed: generated KeyValues/VMF/BSP-entity/DMX-KV2 style lines holding several '
    'escaped strings between operators, bare words, flags and comments, tokenized with the option set that format\'s '
    'parser uses, optionally with one malformed fragment (nested/unclosed [ ] or ( ) block, stray ] ) / \') earlier on the line whose '
    'single TokenSyntaxError a report-and-continue reader catches before reading on from the same tokenizer. non-trivial = a string contains a character that must be escaped (" \\ CR LF TAB \\v \\b \\f \\a); '
    'distinct = every enumerated string once / sha1 of the descriptor JSON'
)
ASSUMPTIONS = [
    'strings are sequences of Unicode scalar values (no lone surrogates) - the quantifier of the statement',
    'the text is tokenized with allow_escapes=True (statement); the other six options must not matter inside quotes',
    'pure-Python Tokenizer/escape_text only (no Cython build possible in this sandbox)',
    'embedding: bare words / flags around the strings use only [A-Za-z0-9_.$%-]; a separator is forced next to bare words',
    'kv2file: unicode="ascii" documents carry only the ASCII characters of the generated strings (the mode is documented to reject '
    'others); unicode="silent" files are parsed with unicode=True as documented; attribute names are plain identifiers',
    'pre-steps are complete, legal uses of the public API (their own expected TokenSyntaxError/KeyValError is caught)',
]
LEVEL_TEXT = ('Exhaustive over all strings up to length 4 (quick) / 5 (thorough) on the 19 escape-relevant symbols in both '
              'escaping modes, plus generated-input search over Unicode text and over strings embedded in larger lines; '
              'held-on-everything-explored beyond the exhaustive bound, not a proof.')
LEVEL_NOTE = ('Trusts the harness quote scanner and the expected-token construction of the embedding lines; pure-Python '
              'implementation only (_tokenizer.pyx cannot be built here).')
TECHNIQUE = 'bounded exhaustive enumeration + property-based testing (Hypothesis): inverse law escape_text -> Tokenizer'
CAPS = (300, 2400)

ALPHABET = ['\\', '"', "'", '\r', '\n', '\t', '\v', '\b', '\f', '\a', '?', '/', 'n', 'a', ' ', '{', '[', '﻿', '\x00']
assert len(ALPHABET) == 19
MUST_ESCAPE = frozenset('"\\\r\n\t\v\b\f\a')

# Everything except allow_escapes flipped from its default - must be irrelevant inside a quoted string.
OTHER_OPTS = dict(
    string_bracket=True, string_parens=False, allow_star_comments=True, preserve_comments=True,
    colon_operator=True, plus_operator=True,
)
# The option set each format's parser really uses (keyvalues.py:427, bsp.py:2890, dmx.py:1486); VMF goes through Keyvalues.
FORMAT_OPTS = {
    'kv': dict(string_bracket=True, allow_escapes=True),
    'vmf': dict(string_bracket=True, allow_escapes=True),
    'bsp': dict(allow_escapes=True),
    'kv2': dict(allow_escapes=True),
}


PRE_KINDS = ['none', 'single_block', 'pushback_abandoned', 'peek_abandoned', 'stopped_mid_string', 'itertokenizer_abandoned',
             'parse_error']


def run_pre(desc, ctx) -> None:
    """An earlier, unrelated and perfectly legal use of the library in the same process, finished or abandoned before the
    judged tokenization starts - the law is about every string, whatever the process did before."""
    from srctools.keyvalues import Keyvalues, KeyValError
    from srctools.tokenizer import IterTokenizer, Token, Tokenizer, TokenSyntaxError
    pre = desc.get('pre', 'none') if isinstance(desc, dict) else 'none'
    ctx.label('pre:' + pre)
    if pre == 'single_block':
        # documented to return right after the first keyvalue / block, its tokenizer is dropped with tokens left
        Keyvalues.parse('"skyname" "sky_day01_01"\n"other" "value"\n', single_block=True)
        Keyvalues.parse('"Blk"\n{\n"a" "b"\n}\n"Other" "x"', single_block=True)
    elif pre == 'pushback_abandoned':
        tok = Tokenizer('a } "c"')
        tok()
        tok.push_back(Token.BRACE_CLOSE, '}')
        tok.push_back(Token.STRING, 'stale')
        del tok
    elif pre == 'peek_abandoned':
        tok = Tokenizer('"peeked" {')
        tok.peek()
        del tok
    elif pre == 'stopped_mid_string':
        tok = Tokenizer(['"first" "unterminated \\', 'n text'])
        tok()
        try:
            tok()
            raise AssertionError('harness: unterminated string accepted')
        except TokenSyntaxError:
            pass
        tok2 = Tokenizer('"a" "b" { }')
        tok2()
        del tok, tok2
    elif pre == 'itertokenizer_abandoned':
        it = IterTokenizer([(Token.STRING, 'x'), (Token.BRACE_OPEN, '{'), (Token.STRING, 'y')])
        it()
        it.peek()
        it.push_back(Token.NEWLINE)
        del it
    elif pre == 'parse_error':
        try:
            Keyvalues.parse('"a" "b" "c"\n')
            raise AssertionError('harness: bad KeyValues accepted')
        except KeyValError:
            pass


def raw_quote_at(e: str) -> int:
    """Independent scan: index of a double quote not preceded by an odd run of backslashes, or -1."""
    if '"' not in e:
        return -1
    run = 0
    for i, ch in enumerate(e):
        if ch == '\\':
            run += 1
        else:
            if ch == '"' and run % 2 == 0:
                return i
            run = 0
    return -1


def check_string(ctx, s: str, multiline: bool, opts: dict, tag: str) -> None:
    """The inverse law + the two output clauses for one string / mode / option set."""
    from srctools.tokenizer import Token, Tokenizer, escape_text
    e = escape_text(s, multiline)
    ctx.check(type(e) is str, 'escape_type', f'escape_text returned {type(e).__name__}')
    q = raw_quote_at(e)
    ctx.check(q < 0, 'raw_quote', f'escape_text({s!r}, multiline={multiline}) = {e!r} has a raw double quote at {q}',
              multiline=multiline)
    if not multiline:
        ctx.check('\n' not in e and '\r' not in e, 'raw_linebreak',
                  f'escape_text({s!r}, multiline=False) = {e!r} contains a raw line break', multiline=multiline)
    text = '"' + e + '"'
    if opts.get('_enable_late'):
        # "escapes enabled" through the documented public attribute instead of the constructor argument
        tok = Tokenizer(text, **{k: v for k, v in opts.items() if k != '_enable_late' and k != 'allow_escapes'}, allow_escapes=False)
        tok.allow_escapes = True
    elif opts.get('_blocks'):
        n = opts['_blocks']
        chunks = [text[i:i + n] for i in range(0, len(text), n)]
        if opts.get('_empties'):
            # a zero-length chunk at EVERY cut point (a read() that returned nothing, an empty line of a list ...), two at
            # every third: for blocks of 1 that is an empty chunk between any two characters of the text
            spaced = ['']
            for i, c in enumerate(chunks):
                spaced += [c, ''] if i % 3 else [c, '', '']
            chunks = spaced
        tok = Tokenizer(chunks, **{k: v for k, v in opts.items() if k not in ('_blocks', '_empties')})
    else:
        tok = Tokenizer(text, **opts)
    got = list(tok)     # iteration stops at the first EOF
    ok = len(got) == 1 and got[0][0] is Token.STRING and type(got[0][1]) is str and got[0][1] == s
    if not ok:
        if len(s) > 300:    # long strings: say what differs instead of dumping them
            gv = got[0][1] if len(got) == 1 and type(got[0][1]) is str else None
            where = next((i for i, (a, b) in enumerate(zip(gv, s)) if a != b), min(len(gv), len(s))) if gv is not None else None
            ctx.fail('inverse', f'[{tag}] multiline={multiline} len(s)={len(s)} s[:60]={s[:60]!r}: '
                     + (f'token value has {len(gv)} characters, first difference at {where}: got {gv[where:where + 30]!r} '
                        f'want {s[where:where + 30]!r}' if gv is not None else f'{len(got)} tokens, kinds {[t[0].name for t in got[:5]]}'),
                     multiline=multiline)
        ctx.fail('inverse', f'[{tag}] multiline={multiline} s={s!r} escaped={e!r}: tokens={got!r}, want [(STRING, {s!r})]',
                 multiline=multiline)
    for k in range(3):
        nxt = tok()
        if not (nxt[0] is Token.EOF):
            ctx.fail('eof_forever', f'[{tag}] multiline={multiline} s={s!r}: call {k + 1} after EOF returned {nxt!r}',
                     multiline=multiline)


# ------------------------------------------------------------------ (a) exhaustive

def enum_cases(tier: str):
    max_len = 4 if tier == 'quick' else 5
    i = 0
    for n in range(max_len + 1):
        for tup in itertools.product(ALPHABET, repeat=n):
            i += 1
            yield {'s': ''.join(tup), 'pre': PRE_KINDS[i % len(PRE_KINDS)]}


def execute_string(desc, ctx):
    s = desc['s']
    run_pre(desc, ctx)
    ctx.nontrivial(not MUST_ESCAPE.isdisjoint(s))
    if '\\' in s:
        ctx.label('has_backslash')
        if s.endswith('\\'):
            ctx.label('trailing_backslash')
        if '\\\n' in s or '\\\r' in s:
            ctx.label('backslash_then_linebreak')
        if '\\n' in s or '\\a' in s or '\\"' in s or '\\\\' in s or "\\'" in s or '\\?' in s or '\\/' in s:
            ctx.label('backslash_then_escape_letter')
    if '"' in s:
        ctx.label('has_quote')
    if '\r\n' in s:
        ctx.label('crlf')
    elif '\r' in s:
        ctx.label('lone_cr')
    if '\n' in s:
        ctx.label('lf')
    if any(ord(c) > 0x7f for c in s):
        ctx.label('non_ascii')
    if any(ord(c) > 0xffff for c in s):
        ctx.label('astral')
    if len(s) > 64:
        ctx.label('len>64')
    for multiline in (False, True):
        check_string(ctx, s, multiline, {'allow_escapes': True}, 'default')
        check_string(ctx, s, multiline, dict(OTHER_OPTS, allow_escapes=True), 'other-options-flipped')
        check_string(ctx, s, multiline, {'allow_escapes': True, '_enable_late': True}, 'allow_escapes-set-as-attribute')
        if len(s) >= 2:
            for n in (2, 3, 5):
                check_string(ctx, s, multiline, {'allow_escapes': True, '_blocks': n}, f'text-delivered-in-blocks-of-{n}')
        if s:
            ctx.label('delivery:empty_chunk_at_every_cut')
            check_string(ctx, s, multiline, {'allow_escapes': True, '_blocks': 1, '_empties': True},
                         'text-delivered-per-character-with-empty-chunks-between')
            if len(s) >= 3:
                check_string(ctx, s, multiline, {'allow_escapes': True, '_blocks': 2 + len(s) % 3, '_empties': True},
                             'text-delivered-in-blocks-with-empty-chunks-between')


# ------------------------------------------------------------------ (b) random

SNIPPETS = ['\\n', '\\"', '\r\n', '\\\\', '\\\n', '\\\r', '\\\r\n', '"', '\\', '\n', '\r', "\\'", '\\t', '\\?', '\\/', '""', '" "',
            '\t', 'key', ' ', '//', '/*', '*/', '\\x', '\\0', '\\u1234', '{', '}', '[', ']', '\x00', '\ufeff', '\u2028', '\x85']


def char_strategy():
    """About 55 % escape alphabet, 45 % other characters (ASCII, BMP, astral)."""
    return st.one_of(
        st.sampled_from(ALPHABET),
        st.characters(exclude_categories=['Cs']),
        st.sampled_from(ALPHABET),
        st.characters(max_codepoint=0x7f),
        st.sampled_from(['\\', '"', '\r', '\n', '\\', 'n', 't', 'r']),
        st.characters(exclude_categories=['Cs'], max_codepoint=0xffff),
    )


def string_strategy(max_size: int = 300):
    return st.one_of(
        st.text(char_strategy(), max_size=min(30, max_size)),
        st.text(char_strategy(), min_size=min(40, max_size), max_size=max_size),
        st.text(st.characters(exclude_categories=['Cs']), max_size=max_size),
        st.lists(st.one_of(st.sampled_from(SNIPPETS), char_strategy()), max_size=max(1, max_size // 3)).map(''.join),
        st.text(st.sampled_from(ALPHABET), max_size=min(60, max_size)),
    )


def random_cases(tier: str):
    return st.fixed_dictionaries({'s': string_strategy(300), 'pre': st.sampled_from(PRE_KINDS)})


# ------------------------------------------------------------------ (b2) long strings at size boundaries

# Lengths around the powers of two where an implementation might flush / re-allocate / switch representation.
BOUNDARIES = [4096, 8192, 12288, 16384, 65536]
LONG_UNITS = ['a', 'ab\\"\n', '\\', '"', '\r\n', 'x\ty\\n', '\n', "'\a\b\f\v", 'é\\\U0001f600"', 'abcdefg']


def build_long(desc) -> str:
    """prefix + the unit repeated and cut to exactly n characters (a pure function of the descriptor)."""
    unit = desc['unit'] or 'a'
    n = desc['n']
    body = unit * (n // len(unit) + 1)
    return (desc['prefix'] + body)[:n]


def long_fixed(tier: str):
    """Every boundary -1/0/+1 with a unit that needs escaping - always run, so the class never depends on sampling."""
    for b in BOUNDARIES:
        for d in (-1, 0, 1):
            yield {'unit': LONG_UNITS[1] if d else LONG_UNITS[5], 'n': b + d, 'prefix': 'HEAD\\"', 'block': 4096}
    yield {'unit': '\\', 'n': 2048, 'prefix': '', 'block': 0}      # escaped form is exactly 4096
    yield {'unit': '"\\', 'n': 4096, 'prefix': '', 'block': 1024}  # escaped form is exactly 8192
    yield {'unit': 'a\n', 'n': 20000, 'prefix': '>', 'block': 0}


def long_cases(tier: str):
    n = st.one_of(
        st.tuples(st.sampled_from(BOUNDARIES[:4]), st.integers(-2, 2)).map(sum),
        st.tuples(st.sampled_from(BOUNDARIES[:4]), st.integers(-2, 2)).map(sum),
        st.tuples(st.sampled_from([2048, 2730, 4096, 8192, 5461]), st.integers(-2, 2)).map(sum),   # escaped form at a boundary
        st.integers(8192, 40000),
        st.tuples(st.just(65536), st.integers(-2, 2)).map(sum),
    )
    unit = st.one_of(st.sampled_from(LONG_UNITS), st.text(char_strategy(), min_size=1, max_size=12),
                     st.text(st.sampled_from(ALPHABET), min_size=1, max_size=6))
    return st.fixed_dictionaries({
        'unit': unit, 'n': n, 'prefix': st.text(char_strategy(), max_size=5),
        'block': st.sampled_from([0, 0, 1000, 4096, 8192]), 'pre': st.sampled_from(PRE_KINDS),
    })


def execute_long(desc, ctx):
    from srctools.keyvalues import Keyvalues
    from srctools.tokenizer import escape_text
    s = build_long(desc)
    n = len(s)
    run_pre(desc, ctx)
    for b in BOUNDARIES:
        if abs(n - b) <= 2:
            ctx.label(f'long:{b}+-2')
    if n >= 8192:
        ctx.label('long:>=8192')
    if n >= 12288:
        ctx.label('long:>=12288')
    if n > 16384:
        ctx.label('long:>16384')
    esc = n + sum(1 for ch in s if ch in MUST_ESCAPE or ch == "'")      # own count of the escaped length
    if any(abs(esc - b) <= 2 for b in BOUNDARIES) or any(abs(esc - 2 * b) <= 2 for b in BOUNDARIES):
        ctx.label('long:escaped_form_at_boundary')
    ctx.nontrivial(n >= 4094 and not MUST_ESCAPE.isdisjoint(s))
    block = desc['block']
    for multiline in (False, True):
        check_string(ctx, s, multiline, {'allow_escapes': True}, f'long({n})')
        if block:
            ctx.label('long:delivered_in_blocks')
            check_string(ctx, s, multiline, {'allow_escapes': True, '_blocks': block, '_empties': block == 1000},
                         f'long({n})-in-blocks-of-{block}')
    if n <= 20000:
        # ... and embedded as the value of a KeyValues line between other strings
        ctx.label('long:embedded_kv_value')
        multiline = bool(n % 2)
        text = f'"Block"\n{{\n\t"before" "1"\n\t"key" "{escape_text(s, multiline)}"\n\t"after" "2"\n}}\n'
        root = Keyvalues.parse(text)
        got = [[blk.real_name, [[c.real_name, c.value] for c in blk]] for blk in root]
        want = [['Block', [['before', '1'], ['key', s], ['after', '2']]]]
        if got != want:
            gv = got[0][1][1][1] if len(got) == 1 and len(got[0][1]) == 3 and isinstance(got[0][1][1][1], str) else None
            ctx.fail('embedded_kvparse', f'long value of {n} characters (unit {desc["unit"]!r}) embedded in a KeyValues line: '
                     + (f'read back {len(gv)} characters, head {gv[:40]!r} want head {s[:40]!r}' if gv is not None
                        else f'tree shape differs: {str(got)[:300]!r}'), multiline=multiline)


# ------------------------------------------------------------------ (b3) DMX KeyValues2 embedding as a binary file

KV2_UNITS = ['é', '日', '\U0001f600', 'a\\"é日\U0001f600\n', 'é日', 'ab\U0001f600', 'x\té\\n日"', 'aé', '日本語のテキスト ☃ \U0001f600 ']
KV2_BLOCKS = (4096, 8192, 65536)


def kv2_fixed(tier: str):
    """Long values of 2-, 3-, 4-byte and mixed characters; each descriptor is exported at byte shifts 0..3."""
    for i, (unit, n) in enumerate([('é', 9000), ('日', 6000), ('\U0001f600', 4500), ('a\\"é日\U0001f600\n', 9000),
                                   ('\U0001f600', 20000), ('日本語のテキスト ☃ \U0001f600 ', 18000)]):
        yield {'unit': unit, 'n': n, 'prefix': '', 'mode': ['format', 'silent'][i % 2], 'arr': ['tail "v"\t\\', unit * 3],
               'name': 'elem', 'pre': 'none'}


def kv2_cases(tier: str):
    unit = st.one_of(st.sampled_from(KV2_UNITS), st.text(char_strategy(), min_size=1, max_size=10),
                     st.text(st.sampled_from(ALPHABET + ['é', '日', '\U0001f600']), min_size=1, max_size=6))
    short = string_strategy(12)
    return st.fixed_dictionaries({
        'unit': unit,
        'n': st.one_of(st.integers(0, 300), st.integers(2000, 12000), st.integers(2000, 12000), st.integers(12000, 36000)),
        'prefix': st.text(char_strategy(), max_size=5),
        'mode': st.sampled_from(['format', 'format', 'silent', 'ascii']),
        'arr': st.lists(short, max_size=4),
        'name': short,
        'pre': st.sampled_from(PRE_KINDS),
    })


def execute_kv2file(desc, ctx):
    """The DMX-KV2 embedding as its real route: Element.export_kv2() writes '"' + escape_text(s) + '"' into a binary file,
    Element.parse() reads the binary file back.  The value, the array items and the element name must come back exactly,
    wherever the bytes of the string fall in the file (the same document is written at byte shifts 0..3)."""
    import io
    from srctools.dmx import Attribute, Element
    mode = desc['mode']
    run_pre(desc, ctx)

    def legal(x: str) -> str:
        # unicode='ascii' is documented to reject non-ASCII values: there the same strings without those characters
        return ''.join(ch for ch in x if ord(ch) < 128) if mode == 'ascii' else x
    s = legal(build_long(desc))
    arr = [legal(x) for x in desc['arr']]
    name = legal(desc['name'])
    ctx.label('kv2file:mode:' + mode)
    widths = {len(ch.encode('utf8')) for ch in s[:64]}
    for w in sorted(widths - {1}):
        ctx.label(f'kv2file:{w}-byte_chars')
    ctx.nontrivial(len(s) >= 1000 and not MUST_ESCAPE.isdisjoint(s + ''.join(arr)) or len(widths - {1}) > 0 and len(s) >= 1000)
    for shift in range(4):
        root = Element(name, 'DmElement')
        root['pad'] = Attribute.string('pad', 'x' * shift)
        root['comment'] = Attribute.string('comment', s)
        root['arr'] = Attribute.array('arr', root['comment'].type, list(arr) + [s[:50]])
        root['after'] = Attribute.string('after', 'tail "value"\t\\')
        buf = io.BytesIO()
        root.export_kv2(buf, 'verif', 1, unicode=mode)
        data = buf.getvalue()
        if shift == 0:
            if len(data) > 8192:
                ctx.label('kv2file:bytes>8192')
            if len(data) > 65536:
                ctx.label('kv2file:bytes>65536')
        # measured, not assumed: does a multi-byte character straddle a block boundary (absolute or counted after the header)?
        header = data.find(b'-->') + 3
        for blk in KV2_BLOCKS:
            for base in (0, header):
                if any(0x80 <= data[off] <= 0xBF for off in range(base + blk, len(data), blk)):
                    ctx.label(f'kv2file:char_straddles_{blk}_block')
                    break
        for unicode_arg in ((True,) if mode == 'silent' else (False, True) if shift == 0 else (False,)):
            parsed, fmt_name, fmt_ver = Element.parse(io.BytesIO(data), unicode=unicode_arg)
            got = parsed['comment'].val_str
            if got != s:
                where = next((i for i, (a, b) in enumerate(zip(got, s)) if a != b), min(len(got), len(s)))
                ctx.fail('embedded_kv2_file', f'mode={mode} shift={shift} parse(unicode={unicode_arg}): string attribute of '
                         f'{len(s)} characters read back with {len(got)}, first difference at {where}: got '
                         f'{got[where:where + 30]!r} want {s[where:where + 30]!r} (unit {desc["unit"]!r})', mode=mode)
            got_arr = list(parsed['arr'].iter_str())
            ctx.check(got_arr == arr + [s[:50]], 'embedded_kv2_file',
                      f'mode={mode} shift={shift}: string array read back as {got_arr!r}, want {arr + [s[:50]]!r}', mode=mode)
            ctx.check(parsed.name == name and parsed['after'].val_str == 'tail "value"\t\\' and parsed['pad'].val_str == 'x' * shift,
                      'embedded_kv2_file', f'mode={mode} shift={shift}: element name {parsed.name!r} (want {name!r}) / neighbours '
                      f'{parsed["after"].val_str!r} {parsed["pad"].val_str!r} changed', mode=mode)
            ctx.check((fmt_name, fmt_ver) == ('verif', 1), 'embedded_kv2_file', f'format header read back as {(fmt_name, fmt_ver)!r}')


# ------------------------------------------------------------------ (c) embedding

WORD_CHARS = 'abcXYZ019_.$%-'
# Malformed fragments: each makes the tokenizer raise exactly one TokenSyntaxError and leaves it at a token boundary.
BAD_KINDS = ['nest', 'nest_paren', 'eol', 'close', 'slash', 'stray']
ERR = ('<TokenSyntaxError>', '')      # stands for "one syntax error was raised here" in the got / want token lists


def bad_fragment(kind: str, word: str, string_bracket: bool) -> str:
    """The text of a malformed fragment; which ones are errors depends on string_bracket (string_parens is on in all formats)."""
    if kind == 'nest':          # 'Cannot nest [] / () brackets!' after the block collected `word`
        return f'[{word}[' if string_bracket else f'({word}('
    if kind == 'nest_paren':
        return f'({word}('
    if kind == 'eol':           # 'Reached end of line without closing "]"' - only with string_bracket
        return f'[{word}\n' if string_bracket else f'({word}\n('
    if kind == 'close':         # 'No open [] / () to close'
        return ']' if string_bracket else ')'
    if kind == 'slash':         # 'Single slash found' (the character after the slash is consumed)
        return '/ '
    return "'"                  # 'Unexpected character'


def read_all(tok) -> list:
    """Report-and-continue reader: every token up to EOF, a TokenSyntaxError is noted as ERR and reading goes on."""
    from srctools.tokenizer import Token, TokenSyntaxError
    got: list = []
    errors = 0
    while True:
        try:
            typ, val = tok()
        except TokenSyntaxError:
            got.append(ERR)
            errors += 1
            if errors > 8:
                return got
            continue
        if typ is Token.EOF:
            return got
        got.append((typ, val))


def embed_cases(tier: str):
    s = st.one_of(string_strategy(12), string_strategy(12), string_strategy(80))
    word = st.text(st.sampled_from(WORD_CHARS), min_size=1, max_size=6)
    item = st.one_of(
        st.tuples(st.just('q'), s).map(list),
        st.tuples(st.just('q'), s).map(list),
        st.tuples(st.just('q'), s).map(list),
        st.tuples(st.just('b'), word).map(list),
        st.tuples(st.just('nl'), st.sampled_from(['\n', '\r\n', '\r', '\r'])).map(list),
        # a quoted string directly after a bare CR line ending (no indentation), its value often starting with a line feed
        st.tuples(st.just('crq'), st.one_of(s, s.map(lambda x: '\n' + x), s.map(lambda x: '\r\n' + x))).map(list),
        st.tuples(st.just('op'), st.sampled_from(['{', '}', ',', '=', '[', ']'])).map(list),
        st.tuples(st.just('flag'), word).map(list),
        st.tuples(st.just('comment'), st.text(st.sampled_from(WORD_CHARS + ' "\\/*'), max_size=8)).map(list),
    )
    seps = st.lists(st.sampled_from(['', ' ', '\t', '  ']), min_size=1, max_size=8)
    # a malformed fragment earlier on the line (one TokenSyntaxError) that a report-and-continue reader steps over:
    # [kind, collected text, position among the items]
    bad = st.one_of(st.none(), st.tuples(st.sampled_from(BAD_KINDS), st.text(st.sampled_from(WORD_CHARS + '  '), max_size=8),
                                         st.integers(0, 12)).map(list))
    return st.fixed_dictionaries({
        'bad': bad,
        'fmt': st.sampled_from(['kv', 'vmf', 'bsp', 'kv2', 'kvparse']),
        'multiline': st.booleans(),
        'items': st.lists(item, min_size=1, max_size=12),
        'seps': seps,
        'pairs': st.lists(st.tuples(s, s).map(list), min_size=1, max_size=5),
        'pre': st.sampled_from(PRE_KINDS),
    })


# Typical surroundings of a value line in each format (all plain tokens, known expansion).
FRAMES = {
    'kv': ([['q', 'Block'], ['nl', '\n'], ['op', '{'], ['nl', '\n']], [['nl', '\n'], ['op', '}'], ['nl', '\n']]),
    'vmf': ([['b', 'entity'], ['nl', '\n'], ['op', '{'], ['nl', '\n'], ['q', 'id'], ['q', '12'], ['nl', '\n'],
             ['q', 'classname'], ['q', 'func_detail'], ['nl', '\n']],
            [['nl', '\n'], ['b', 'connections'], ['nl', '\n'], ['op', '{'], ['nl', '\n'],
             ['q', 'OnTrigger'], ['q', 'a\x1bFire\x1b\x1b0\x1b-1'], ['nl', '\n'], ['op', '}'], ['nl', '\n'], ['op', '}'], ['nl', '\n']]),
    'bsp': ([['op', '{'], ['nl', '\n'], ['q', 'classname'], ['q', 'worldspawn'], ['nl', '\n']],
            [['nl', '\n'], ['op', '}'], ['nl', '\n'], ['op', '{'], ['nl', '\n'], ['q', 'classname'], ['q', 'info_null'],
             ['nl', '\n'], ['op', '}'], ['nl', '\n']]),
    'kv2': ([['comment', ' dmx encoding keyvalues2 1 format dmx 1 -->'], ['nl', '\n'], ['q', 'DmElement'], ['nl', '\n'],
             ['op', '{'], ['nl', '\n'], ['q', 'name'], ['q', 'string'], ['q', 'elem'], ['nl', '\n'],
             ['q', 'arr'], ['q', 'string_array'], ['nl', '\n'], ['op', '['], ['nl', '\n']],
            [['op', ','], ['nl', '\n'], ['q', 'last'], ['nl', '\n'], ['op', ']'], ['nl', '\n'], ['op', '}'], ['nl', '\n']]),
}


def render(items, seps, multiline, string_bracket):
    """Build the line and, independently of the tokenizer, the token list it must produce."""
    from srctools.tokenizer import Token, escape_text
    parts: list[str] = []
    want: list[tuple] = []
    prev_kind = None
    for i, (kind, val) in enumerate(items):
        sep = seps[i % len(seps)]
        if i and (kind == 'b' or prev_kind == 'b') and sep == '':
            sep = ' '   # a bare word swallows any adjacent non-terminator, keep it apart
        if i and (kind == 'bad' or prev_kind == 'bad'):
            sep = ' '   # the malformed fragment stands on its own
        if i and sep == '' and kind == 'nl' and val.startswith('\n') and items[i - 1][0] == 'nl' and items[i - 1][1].endswith('\r'):
            sep = ' '   # a bare CR directly followed by LF would be ONE line break (CR-LF), keep them two
        if i:
            parts.append(sep)
        if kind == 'q':
            parts.append('"' + escape_text(val, multiline) + '"')
            want.append((Token.STRING, val))
        elif kind == 'crq':
            parts.append('\r"' + escape_text(val, multiline) + '"')
            want.append((Token.NEWLINE, '\n'))
            want.append((Token.STRING, val))
        elif kind == 'b':
            parts.append(val)
            want.append((Token.STRING, val))
        elif kind == 'nl':
            parts.append(val)
            want.append((Token.NEWLINE, '\n'))
        elif kind == 'flag':
            parts.append('[' + val + ']')
            if string_bracket:
                want.append((Token.PROP_FLAG, val))
            else:
                want += [(Token.BRACK_OPEN, '['), (Token.STRING, val), (Token.BRACK_CLOSE, ']')]
        elif kind == 'comment':
            parts.append('//' + val + '\n')
            want.append((Token.NEWLINE, '\n'))
        elif kind == 'bad':
            parts.append(bad_fragment(val[0], val[1], string_bracket))
            want.append(ERR)
        else:
            parts.append(val)
            want.append(({'{': Token.BRACE_OPEN, '}': Token.BRACE_CLOSE, ',': Token.COMMA, '=': Token.EQUALS,
                          '[': Token.BRACK_OPEN, ']': Token.BRACK_CLOSE}[val], val))
        prev_kind = kind
    return ''.join(parts), want


def execute_embed(desc, ctx):
    from srctools.tokenizer import Token, Tokenizer, escape_text
    fmt = desc['fmt']
    multiline = desc['multiline']
    ctx.label('fmt:' + fmt, 'multiline' if multiline else 'singleline')
    run_pre(desc, ctx)
    if fmt == 'kvparse':
        return execute_kvparse(desc, ctx)
    opts = FORMAT_OPTS[fmt]
    string_bracket = bool(opts.get('string_bracket'))
    items = [list(it) for it in desc['items']]
    if string_bracket:
        # '[' / ']' are not tokens of their own in these formats; keep them as flags only.
        items = [it for it in items if not (it[0] == 'op' and it[1] in '[]')]
    bad = desc.get('bad')
    if bad:
        # history on the judged tokenizer itself: an earlier block of the line is malformed, the reader catches the one
        # TokenSyntaxError and keeps reading - the strings after it must still come back exactly
        ctx.label('resume_after_syntax_error', 'bad:' + bad[0])
        if bad[0] in ('nest', 'nest_paren', 'eol') and bad[1]:
            ctx.label('resume_after_error_in_block_with_text')
        at = bad[2] % (len(items) + 1)
        items = items[:at] + [['bad', [bad[0], bad[1]]]] + items[at:]
    head, tail = FRAMES[fmt]
    items = head + items + tail
    quoted = [v for k, v in items if k in ('q', 'crq')]
    nt = any(not MUST_ESCAPE.isdisjoint(v) for v in quoted)
    ctx.nontrivial(nt and len(quoted) >= 2)
    if any('"' in v for v in quoted):
        ctx.label('value_has_quote')
    if any(v.endswith('\\') for v in quoted):
        ctx.label('value_trailing_backslash')
    if any('\n' in v or '\r' in v for v in quoted):
        ctx.label('value_has_linebreak')
    text, want = render(items, desc['seps'], multiline, string_bracket)
    if any((k == 'nl' and v == '\r') or k == 'crq' for k, v in items):
        ctx.label('bare_cr_line_ending')
    block = 2 + len(text) % 9          # the same text also as fixed-size blocks (file.read(N)) and per character
    blocks = [text[i:i + block] for i in range(0, len(text), block)]
    chars_spaced = ['']
    for ch in text:
        chars_spaced += [ch, '']
    blocks_spaced = []
    for i, b in enumerate(blocks):
        blocks_spaced += [b, ''] if i % 2 else [b, '', '']
    deliveries = [('str', text), (f'blocks-of-{block}', blocks), ('chars', list(text)),
                  # zero-length chunks at the cut points: between every two characters / between the blocks
                  ('chars+empty-chunks', chars_spaced), (f'blocks-of-{block}+empty-chunks', iter(blocks_spaced))]
    ctx.label('delivery:empty_chunk_at_every_cut')
    bare_cr = any((k == 'nl' and v == '\r') or k == 'crq' for k, v in items)
    if any(k == 'crq' and v[:1] == '\n' for k, v in items):
        ctx.label('string_starting_with_LF_after_bare_CR')
    if bare_cr:
        # The statement is about the STRING tokens.  After a bare CR the pinned tokenizer drops the NEWLINE token of a
        # following LF when only operator characters stand between them ('\r{\n' - observed, outside C02; DESIGN.md 3.2),
        # so line-break tokens are not compared in lines that use bare CR endings.
        want = [t for t in want if t[0] is not Token.NEWLINE]
    for how, data in deliveries:
        got = read_all(Tokenizer(data, **opts))
        if bare_cr:
            got = [t for t in got if t[0] is not Token.NEWLINE]
        if got != want:
            k = next((i for i, (a, b) in enumerate(zip(got, want)) if a != b), min(len(got), len(want)))
            ctx.fail('embedded', f'fmt={fmt} multiline={multiline} delivery={how}: token {k} differs: got {got[k:k + 2]!r} '
                                 f'want {want[k:k + 2]!r}\n text={text!r}\n got ={got!r}\n want={want!r}',
                     fmt=fmt, multiline=multiline, delivery=how)
            break


def execute_kvparse(desc, ctx):
    """KeyValues line: the escaped strings as key and value of leaf lines, read back by Keyvalues.parse()."""
    from srctools.keyvalues import Keyvalues
    from srctools.tokenizer import escape_text
    multiline = desc['multiline']
    pairs = [list(p) for p in desc['pairs']]
    seps = desc['seps']
    lines = ['"Block"\n', '{\n']
    for i, (k, v) in enumerate(pairs):
        sep = seps[i % len(seps)]
        lines.append(f'\t"{escape_text(k, multiline)}"{sep}"{escape_text(v, multiline)}"\n')
    lines.append('}\n')
    text = ''.join(lines)
    ctx.nontrivial(any(not MUST_ESCAPE.isdisjoint(k + v) for k, v in pairs))
    if any('\n' in k or '\r' in k for k, v in pairs):
        ctx.label('key_has_linebreak')
    # newline_keys=True: by default parse() rejects line breaks in *keys* (a documented option, not an escaping matter).
    root = Keyvalues.parse(text, newline_keys=True)
    got = [[blk.real_name, [[c.real_name, c.value] for c in blk]] for blk in root]
    want = [['Block', pairs]]
    ctx.check(got == want, 'embedded_kvparse',
              f'multiline={multiline}: Keyvalues.parse gives {got!r}, want {want!r}\n text={text!r}', multiline=multiline)


SUBCHECKS = [
    Sub('enum', execute_string, enumerate=enum_cases, quick_shards=16, thorough_shards=64, floor=100000,
        must_hit=('trailing_backslash', 'backslash_then_linebreak', 'backslash_then_escape_letter', 'crlf', 'lone_cr',
                  'has_quote', 'delivery:empty_chunk_at_every_cut',
                  'pre:none', 'pre:single_block', 'pre:pushback_abandoned', 'pre:peek_abandoned', 'pre:stopped_mid_string',
                  'pre:itertokenizer_abandoned', 'pre:parse_error')),
    Sub('random', execute_string, strategy=random_cases, quick=20000, thorough=500000, quick_shards=16,
        floor=2000, must_hit=('non_ascii', 'astral', 'len>64', 'has_backslash', 'has_quote', 'crlf', 'trailing_backslash',
                  'pre:none', 'pre:single_block', 'pre:pushback_abandoned', 'pre:peek_abandoned', 'pre:stopped_mid_string',
                  'pre:itertokenizer_abandoned', 'pre:parse_error')),
    Sub('long', execute_long, strategy=long_cases, fixed=long_fixed, quick=192, thorough=6000, quick_shards=16, floor=60,
        must_hit=('long:4096+-2', 'long:8192+-2', 'long:12288+-2', 'long:16384+-2', 'long:65536+-2', 'long:>=8192',
                  'long:>=12288', 'long:>16384', 'long:escaped_form_at_boundary', 'long:delivered_in_blocks',
                  'long:embedded_kv_value')),
    Sub('kv2file', execute_kv2file, strategy=kv2_cases, fixed=kv2_fixed, quick=96, thorough=3000, quick_shards=16, floor=30,
        must_hit=('kv2file:mode:format', 'kv2file:mode:silent', 'kv2file:mode:ascii', 'kv2file:bytes>8192', 'kv2file:bytes>65536',
                  'kv2file:2-byte_chars', 'kv2file:3-byte_chars', 'kv2file:4-byte_chars', 'kv2file:char_straddles_4096_block',
                  'kv2file:char_straddles_8192_block', 'kv2file:char_straddles_65536_block', 'pre:single_block')),
    Sub('embed', execute_embed, strategy=embed_cases, quick=8000, thorough=200000, quick_shards=16,
        floor=1000, must_hit=('fmt:kv', 'fmt:vmf', 'fmt:bsp', 'fmt:kv2', 'fmt:kvparse', 'multiline', 'singleline',
                              'value_has_quote', 'value_trailing_backslash', 'value_has_linebreak', 'key_has_linebreak',
                              'delivery:empty_chunk_at_every_cut', 'resume_after_syntax_error',
                              'resume_after_error_in_block_with_text',
                  'pre:none', 'pre:single_block', 'pre:pushback_abandoned', 'pre:peek_abandoned', 'pre:stopped_mid_string',
                  'pre:itertokenizer_abandoned', 'pre:parse_error')),
]

MATCHERS = {}
