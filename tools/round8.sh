#!/bin/sh
# Usage: round8.sh <NN>  -- verify both round-8 seeds of property C<NN> (from /tmp/seedout8_c<NN>/m1,m2), keep the confirmed
# ones as seeded/C<NN>-m16 / -m17 and run the quick tier of the owning check against each in a private worktree.
NN=$1; k=16
for m in m1 m2; do
  S=/tmp/seedout8_c$NN/$m
  if [ -f $S/patch.diff ] && [ -f $S/demo.py ] && [ -f $S/meta.json ]; then
    /verif/tools/verify_seed.sh $S C$NN-m$k 2>&1 | tail -2
    [ -d /verif/seeded/C$NN-m$k ] && VERIF_PROCS=6 /verif/tools/try_seed_wt.sh /verif/seeded/C$NN-m$k quick
  else echo "C$NN $m: incomplete deliverable"; fi
  k=$((k+1))
done
