"""C20 part: soundscripts (``Sound.export`` -> ``Keyvalues.parse`` -> ``Sound.parse``).

Sounds built through ``Sound(...)`` -> exported into one text -> parsed -> compared field by field by an own walker
-> exported again, text must be identical.
"""
from __future__ import annotations

import io

from hypothesis import strategies as st

from vlib.core import Sub
from vlib import gens
from checks.c20parts._walkguard import guard

ASSUMPTIONS = [
    'sound names and wave paths contain no double quote, backslash, CR or LF (the writer emits them verbatim inside '
    'quotes and the format defines no escapes); sound names in one file are distinct case-insensitively (Sound.parse '
    'returns a dict keyed by the casefolded name)',
    'operator stacks are Keyvalues blocks whose children are arbitrary KeyValues1 trees over the C01 alphabet (names '
    'without CR/LF); the name of the stack block itself is not part of the value (the reader names them '
    'start_stack/update_stack/stop_stack), a stack that is None and an empty stack are the same value',
    'volume/pitch/level are an enum member, a finite float or a (lo, hi) pair of those (the declared type; the reader '
    'only ever returns floats, so an int is not a value of the format - it would be spelled "0" once and "0.0" after '
    're-reading); numbers are compared exactly (the writer uses repr precision)',
    'Pitch members are floats: a pitch is compared numerically, and enum identity is required only where the writer '
    'has a spelling for it (lo != hi, or lo == hi != 100); pitch (100, 100) is the elided default and is read back as '
    'the plain number 100.0, which equals PITCH_NORM',
    'each of stack_start/stack_update/stack_stop is given to the constructor as None (omitted), an empty block or a '
    'non-empty block, in all 27 combinations (enumerated as fixed inputs, and generated); the stack properties are '
    'read in several orders and must give the same answer each time; export() runs on Sounds whose properties '
    'nobody has read yet',
    'force_v2 is compared as "the sound is version 2" = force_v2 or any non-empty stack (stacks imply version 2)',
    'channel is a Channel member or an int (CHAN_USER_BASE+n spellings are not modelled by the class)',
    'no soundscript sample exists under /repo/tests (only two .wav files for wav_is_looped); fixed inputs are the '
    'sounds of tests/test_sndscript.py::test_parse rebuilt through the constructor plus a v2 example',
]

CHANNELS = ['DEFAULT', 'GUNFIRE', 'VOICE', 'TF2_ANNOUNCER', 'ITEMS', 'BODY', 'STREAMING', 'CON_CMD', 'BACKGROUND',
            'PLAYER_VOICE']
LEVELS = ['SNDLVL_NONE', 'SNDLVL_20dB', 'SNDLVL_25dB', 'SNDLVL_30dB', 'SNDLVL_35dB', 'SNDLVL_40dB', 'SNDLVL_45dB',
          'SNDLVL_50dB', 'SNDLVL_55dB', 'SNDLVL_IDLE', 'SNDLVL_65dB', 'SNDLVL_STATIC', 'SNDLVL_70dB', 'SNDLVL_NORM',
          'SNDLVL_80dB', 'SNDLVL_TALKING', 'SNDLVL_85dB', 'SNDLVL_90dB', 'SNDLVL_95dB', 'SNDLVL_100dB',
          'SNDLVL_105dB', 'SNDLVL_110dB', 'SNDLVL_120dB', 'SNDLVL_125dB', 'SNDLVL_130dB', 'SNDLVL_GUNFIRE',
          'SNDLVL_140dB', 'SNDLVL_145dB', 'SNDLVL_150dB', 'SNDLVL_180dB']
PITCHES = ['PITCH_NORM', 'PITCH_LOW', 'PITCH_HIGH']
VOLUMES = ['VOL_NORM']

_EXCL = '"\\\r\n'


def _name_text(max_size=10):
    return st.text(gens.text_alphabet(exclude=_EXCL), max_size=max_size)


def _sound_name():
    return st.one_of(
        st.tuples(gens.ident(), gens.ident()).map(lambda t: t[0] + '.' + t[1]),
        _name_text(),
    )


def _wave():
    chars = st.text(st.sampled_from('*@#<>^)}$!?(&~`+%'), max_size=3)
    path = st.lists(gens.ident(), min_size=1, max_size=3).map('/'.join)
    return st.one_of(
        st.tuples(chars, path, st.sampled_from(['.wav', '.mp3', ''])).map(''.join),
        _name_text(12),
    )


def _number(lo: float, hi: float):
    return st.one_of(
        st.floats(lo, hi, allow_nan=False, allow_infinity=False),
        st.floats(lo, hi, allow_nan=False, allow_infinity=False).map(lambda x: round(x, 2)),
        st.integers(int(lo), int(hi)).map(float),
        st.sampled_from([1.0, 100.0, 95.0, 120.0, 0.0, 75.0, 0.8]),
        st.floats(-1e30, 1e30, allow_nan=False, allow_infinity=False),
    )


def _scalar(names, lo, hi):
    # .map() keeps one_of() from flattening the number alternatives, so enum members are half of the draws.
    return st.one_of(st.sampled_from(names).map(lambda n: {'e': n}), _number(lo, hi).map(lambda x: x))


def _spec(names, lo, hi):
    """None = argument omitted; {'single': v} = scalar argument; {'pair': [a, b]} = tuple argument."""
    sc = _scalar(names, lo, hi)
    return st.one_of(
        st.none(),
        sc.map(lambda v: {'single': v}),
        st.tuples(sc, sc).map(lambda t: {'pair': list(t)}),
        st.tuples(sc, sc).map(lambda t: {'pair': list(t)}),
    )


def _tree():
    name, value = gens.kv_name(), gens.kv_value()
    leaf = st.tuples(name, value).map(list)
    return st.recursive(leaf, lambda ch: st.tuples(name, st.lists(ch, max_size=4)).map(list), max_leaves=8)


def _stack():
    """None (argument omitted), an empty stack, or a non-empty one - three distinct constructor inputs."""
    return st.one_of(st.none(), st.just([]), st.lists(_tree(), min_size=1, max_size=3))


def _sound():
    return st.fixed_dictionaries({
        'name': _sound_name(),
        'waves': st.one_of(st.lists(_wave(), min_size=1, max_size=1), st.lists(_wave(), max_size=4)),
        'channel': st.one_of(st.none(), st.sampled_from(CHANNELS).map(lambda n: {'e': n}),
                             st.integers(-8, 200), st.integers(-10**12, 10**12)),
        'level': _spec(LEVELS, 0.0, 180.0),
        'pitch': _spec(PITCHES, 0.0, 255.0),
        'volume': _spec(VOLUMES, 0.0, 1.0),
        'start': _stack(), 'update': _stack(), 'stop': _stack(),
        'stack_names': st.sampled_from([['', '', ''], ['start_stack', 'update_stack', 'stop_stack'], ['x', 'Y', '"']]),
        'force_v2': st.booleans(),
    })


def strategy(tier: str):
    return st.fixed_dictionaries({
        'sounds': st.lists(_sound(), min_size=1, max_size=3, unique_by=lambda s: s['name'].casefold()),
    })


def fixed(tier: str):
    yield {'sounds': [
        {'name': 'some.Sound', 'waves': [')util/some_sound.wav'], 'channel': {'e': 'VOICE'},
         'level': {'pair': [{'e': 'SNDLVL_85dB'}, 0.4]}, 'pitch': None, 'volume': {'pair': [0.85, 0.95]},
         'start': None, 'update': None, 'stop': None, 'stack_names': ['', '', ''], 'force_v2': False},
        {'name': 'World.V2Sound', 'waves': ['*music/a.mp3', '#music/b.mp3'], 'channel': {'e': 'BACKGROUND'},
         'level': {'single': {'e': 'SNDLVL_NONE'}}, 'pitch': {'pair': [{'e': 'PITCH_LOW'}, {'e': 'PITCH_HIGH'}]},
         'volume': {'single': {'e': 'VOL_NORM'}},
         'start': [['import_stack', 'CS_update_music_stereo']],
         'update': [['import_stack', 'update_music'],
                    ['volume_fade_out', [['input_max', '0.5'], ['enabled', [['x', '1']]]]]],
         'stop': None, 'stack_names': ['', '', ''], 'force_v2': True},
    ]}
    # every combination of {start, update, stop} x {None, empty, non-empty} given to the constructor
    shapes = {'N': None, 'E': [], 'F': None}
    n = 0
    for a in 'NEF':
        for b in 'NEF':
            for c in 'NEF':
                n += 1
                stacks = {}
                for key, code in (('start', a), ('update', b), ('stop', c)):
                    stacks[key] = ([['import_stack', 'CS_' + key + '_default'],
                                    [key + '_mixer', [['operator', 'sys_output'], ['nested', [['output', 'volume']]]]]]
                                   if code == 'F' else shapes[code])
                yield {'sounds': [dict(
                    name='Stacks.' + a + b + c, waves=['common/null.wav'], channel=None, level=None, pitch=None,
                    volume=None, stack_names=['', '', ''], force_v2=bool(n % 2), **stacks)]}


# ---- building ------------------------------------------------------------------------------------------------

def _enum_of(kind: str):
    from srctools import sndscript as S
    return {'level': S.Level, 'pitch': S.Pitch, 'volume': S.VOLUME}[kind]


def _val(kind, v):
    if isinstance(v, dict):
        return _enum_of(kind)[v['e']]
    return v


def _build_kv(node):
    from srctools.keyvalues import Keyvalues
    name, value = node
    if isinstance(value, list):
        return Keyvalues(name, [_build_kv(c) for c in value])
    return Keyvalues(name, value)


def build(d):
    from srctools import sndscript as S
    from srctools.keyvalues import Keyvalues
    kwargs = {}
    for kind in ('level', 'pitch', 'volume'):
        spec = d[kind]
        if spec is None:
            continue
        if 'single' in spec:
            kwargs[kind] = _val(kind, spec['single'])
        else:
            kwargs[kind] = (_val(kind, spec['pair'][0]), _val(kind, spec['pair'][1]))
    ch = d['channel']
    if ch is not None:
        kwargs['channel'] = S.Channel[ch['e']] if isinstance(ch, dict) else ch
    for key, sname in zip(('start', 'update', 'stop'), d['stack_names']):
        if d[key] is not None:
            kwargs['stack_' + key] = Keyvalues(sname, [_build_kv(n) for n in d[key]])
    return S.Sound(d['name'], list(d['waves']), force_v2=d['force_v2'], **kwargs)


# ---- the expected value, from the descriptor alone -------------------------------------------------------------

DEFAULTS = {'level': {'e': 'SNDLVL_NORM'}, 'pitch': {'e': 'PITCH_NORM'}, 'volume': {'e': 'VOL_NORM'}}
PITCH_VALUES = {'PITCH_NORM': 100.0, 'PITCH_LOW': 95.0, 'PITCH_HIGH': 120.0}


def _want_pair(kind, spec):
    if spec is None:
        a = b = DEFAULTS[kind]
    elif 'single' in spec:
        a = b = spec['single']
    else:
        a, b = spec['pair']
    return [_canon_scalar(a), _canon_scalar(b)]


def _canon_scalar(v):
    if isinstance(v, dict):
        return ['enum', v['e']]
    return ['num', float(v)]


def _num_of(kind, c):
    """Numeric value of a canonical scalar where the enum is numeric (Pitch)."""
    if c[0] == 'num':
        return c[1]
    if kind == 'pitch':
        return PITCH_VALUES[c[1]]
    return None


def want_from_desc(d):
    stacks = {}
    for key in ('start', 'update', 'stop'):
        stacks[key] = [_shape_desc(n) for n in (d[key] or [])]
    ch = d['channel']
    return {
        'name': d['name'],
        'waves': list(d['waves']),
        'channel': ['enum', 'DEFAULT'] if ch is None else (['enum', ch['e']] if isinstance(ch, dict) else ['int', ch]),
        'level': _want_pair('level', d['level']),
        'pitch': _want_pair('pitch', d['pitch']),
        'volume': _want_pair('volume', d['volume']),
        'stacks': stacks,
        'v2': bool(d['force_v2'] or any(stacks.values())),
    }


def _shape_desc(node):
    name, value = node
    if isinstance(value, list):
        return [name, [_shape_desc(c) for c in value]]
    return [name, value]


# ---- walking a Sound -------------------------------------------------------------------------------------------

def _is_kv(obj) -> bool:
    from srctools.keyvalues import Keyvalues
    return isinstance(obj, Keyvalues)


def _shape(kv):
    """Plain-data form of a Keyvalues; anything else (the object under test handed out a wrong type) is kept as a
    marker so that it shows up as a difference instead of an exception inside the walker."""
    if not _is_kv(kv):
        return ['<not a Keyvalues>', repr(kv)]
    if kv.has_children():
        return [kv.real_name, [_shape(c) for c in kv]]
    return [kv.real_name, kv.value]


def _stack_shape(snd, key):
    st_kv = getattr(snd, 'stack_' + key)
    if not _is_kv(st_kv) or not st_kv.has_children():
        return ['<stack_' + key + ' is not a Keyvalues block>', repr(st_kv)]
    return [_shape(c) for c in st_kv]


def _walk_scalar(v):
    import enum
    if isinstance(v, enum.Enum):
        return ['enum', v.name]
    if isinstance(v, bool) or not isinstance(v, (int, float)):
        return ['other', repr(v)]
    return ['num', float(v)]


def walk(snd, stack_order=('stop', 'update', 'start')):
    import enum
    res = {
        'name': snd.name,
        'waves': list(snd.sounds) if isinstance(snd.sounds, (list, tuple)) else ['<not a list>', repr(snd.sounds)],
        'channel': (['enum', snd.channel.name] if isinstance(snd.channel, enum.Enum)
                    else [type(snd.channel).__name__, snd.channel]),
        'stacks': {},
    }
    for kind in ('level', 'pitch', 'volume'):
        pair = getattr(snd, kind)
        if isinstance(pair, tuple) and len(pair) == 2:
            res[kind] = [_walk_scalar(x) for x in pair]
        else:
            res[kind] = ['not a 2-tuple', repr(pair)]
    # The three stack properties create their block on first access; reading one must not disturb another.  Read them
    # in two different orders (the second pass in reverse) and require the same answer every time.
    first = {key: _stack_shape(snd, key) for key in stack_order}
    second = {key: _stack_shape(snd, key) for key in reversed(stack_order)}
    any_stack = False
    for key in ('start', 'update', 'stop'):
        if first[key] != second[key]:
            res['stacks'][key] = ['<unstable: reading the stack properties in another order gives a different value>',
                                  first[key], second[key]]
        else:
            res['stacks'][key] = first[key]
        any_stack = any_stack or bool(res['stacks'][key])
    res['v2'] = bool(snd.force_v2 or any_stack)
    return res


def _pair_equal(kind, want, got):
    """want/got: [scalar, scalar] canonical.  Exact, except the numeric-enum leniency described in ASSUMPTIONS."""
    if want == got:
        return True
    if kind != 'pitch' or len(got) != 2 or any(c[0] not in ('enum', 'num') for c in got):
        return False
    wn = [_num_of(kind, c) for c in want]
    gn = [_num_of(kind, c) for c in got]
    if wn != gn:
        return False
    if wn[0] != wn[1]:
        return False   # the writer spells both ends: identity must survive (want == got was required)
    if wn[0] == 100.0:
        return True    # elided default: any spelling of 100 is the same value
    # lo == hi: the writer spells the low end once; both ends come back in that spelling.
    return got[0] == want[0] and got[1] == want[0]


def diff(want, got):
    """List of (field, want, got) differences."""
    out = []
    for k in ('name', 'waves', 'channel', 'stacks', 'v2'):
        if want[k] != got[k]:
            out.append((k, want[k], got[k]))
    for kind in ('level', 'pitch', 'volume'):
        if not _pair_equal(kind, want[kind], got[kind]):
            out.append((kind, want[kind], got[kind]))
    return out


def classify(d, ctx) -> bool:
    nt = False
    for kind in ('level', 'pitch', 'volume'):
        spec = d[kind]
        if spec is None:
            ctx.label(kind + ':default')
            continue
        nt = True
        if 'single' in spec:
            ctx.label(kind + ':single_' + ('enum' if isinstance(spec['single'], dict) else 'num'))
        else:
            a, b = (_canon_scalar(x) for x in spec['pair'])
            kinds = {a[0], b[0]}
            if a == b:
                ctx.label(kind + ':pair_same')
            else:
                ctx.label(kind + ':range', kind + ':range_' + ('mixed' if len(kinds) == 2 else kinds.pop()))
    ch = d['channel']
    if ch is None:
        ctx.label('channel:default')
    elif isinstance(ch, dict):
        ctx.label('channel:enum')
        nt = nt or ch['e'] != 'DEFAULT'
    else:
        ctx.label('channel:int', 'channel:int_negative' if ch < 0 else 'channel:int_nonneg')
        nt = True
    n = len(d['waves'])
    ctx.label('waves:' + ('0' if n == 0 else '1' if n == 1 else 'many'))
    nt = nt or n != 1
    stacks = [d[k] for k in ('start', 'update', 'stop')]
    ctx.label('stack_args:' + ''.join('N' if x is None else 'F' if x else 'E' for x in stacks))
    if any(stacks):
        ctx.label('stacks')
        nt = True
        if sum(1 for s in stacks if s) == 3:
            ctx.label('stacks_all_three')
        if any(isinstance(n[1], list) for s in stacks if s for n in s):
            ctx.label('stack_nested_block')
    elif d['force_v2']:
        ctx.label('force_v2_no_stacks')
        nt = True
    if any(s == [] for s in stacks):
        ctx.label('stack_empty_block')
    if any(ord(c) > 127 for c in d['name'] + ''.join(d['waves'])):
        ctx.label('unicode')
    return nt


def execute(desc, ctx):
    from srctools.keyvalues import Keyvalues
    from srctools.sndscript import Sound
    sounds = desc['sounds']
    nt = False
    for d in sounds:
        nt = classify(d, ctx) or nt
    ctx.nontrivial(nt)
    ctx.label('sounds_in_file:' + str(len(sounds)))
    wants = [want_from_desc(d) for d in sounds]
    # A separate set of objects is walked for the constructor check: walking touches the lazily created stack
    # properties, and export() must be exercised on Sounds nobody has looked at yet.
    for w, d in zip(wants, sounds):
        probe = guard(ctx, 'constructors', walk, build(d), ('stop', 'update', 'start'))
        if probe is None:
            return
        dd = diff(w, probe)
        ctx.check(not dd, 'constructors', f'constructed Sound differs from the request: {dd!r}')
    built = [build(d) for d in sounds]

    buf = io.StringIO()
    for snd in built:
        snd.export(buf)
    text = buf.getvalue()
    for w, b in zip(wants, built):
        after = guard(ctx, 'no_mutation', walk, b, ('update', 'start', 'stop'))
        if after is None:
            return
        dd = diff(w, after)
        ctx.check(not dd, 'no_mutation', f'export() changed the Sound: {dd!r}\n text:\n{text}')

    parsed = Sound.parse(Keyvalues.parse(text))
    if not ctx.check(isinstance(parsed, dict), 'roundtrip', f'Sound.parse returned {type(parsed).__name__}, not a dict'):
        return
    ctx.check(list(parsed) == [w['name'].casefold() for w in wants], 'keys',
              f'Sound.parse keys {list(parsed)!r}, expected casefolded names of {[w["name"] for w in wants]!r}\n{text}')
    for w in wants:
        got = parsed.get(w['name'].casefold())
        if got is None:
            continue
        got_w = guard(ctx, 'roundtrip', walk, got)
        if got_w is None:
            return
        dd = diff(w, got_w)
        fields = sorted({f for f, _, _ in dd})
        if not ctx.check(not dd, 'roundtrip',
                         f'Sound.parse(Keyvalues.parse(export)) differs in {fields}:\n'
                         + '\n'.join(f'  {f}: want {a!r} got {b!r}' for f, a, b in dd) + f'\n text:\n{text}',
                         fields=fields):
            return
    # second generation from freshly parsed (un-walked) objects
    buf2 = io.StringIO()
    for snd in Sound.parse(Keyvalues.parse(text)).values():
        snd.export(buf2)
    text2 = buf2.getvalue()
    ctx.check(text2 == text, 'second_export_identical',
              f'second-generation text differs:\n--- first\n{text}\n--- second\n{text2}')


SUBS = [
    Sub('sndscript_roundtrip', execute, strategy=strategy, fixed=fixed, quick=1000, thorough=15000, floor=150, quick_shards=8,
        must_hit=('level:range', 'pitch:range', 'volume:range', 'level:range_mixed', 'pitch:single_enum',
                  'level:single_num', 'volume:single_num', 'channel:enum', 'channel:int', 'channel:int_negative',
                  'waves:0', 'waves:1', 'waves:many', 'stacks', 'stack_nested_block', 'force_v2_no_stacks',
                  'stack_empty_block', 'pitch:pair_same', 'unicode')
        + tuple('stack_args:' + a + b + c for a in 'NEF' for b in 'NEF' for c in 'NEF')),
]
MATCHERS = {}
