#!/bin/sh
# Usage: quiet.sh "<ids>" "<seeds>"  -- run quick tiers at several seeds on the unchanged tree; every run must exit 0.
IDS=${1:-"C01"}; SEEDS=${2:-"1 2 3 4 5"}
cd /verif; mkdir -p .scratch
for id in $IDS; do for s in $SEEDS; do
  VERIF_SEED=$s /venv/bin/python run.py $id --tier quick > .scratch/quiet_${id}_$s.out 2>&1; rc=$?
  echo "$id seed=$s rc=$rc $(tail -1 .scratch/quiet_${id}_$s.out | cut -c1-120)"
  [ $rc -ne 0 ] && grep -h "VIOLATION\|HARNESS" .scratch/quiet_${id}_$s.out | head -5
done; done
