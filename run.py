#!/venv/bin/python
"""Runner: ``run.py <ID> --tier quick|thorough [--replay FILE]``  (see DESIGN.md section 1).

Exit status 0: property held on everything explored (listed known findings are printed as
``KNOWN-FINDING:`` lines); 1: ``VIOLATION property=<id> replay=<path>``; 2: harness error.
"""
from __future__ import annotations

import argparse
import glob
import importlib
import json
import os
import sys
import time

VERIF_DIR = os.path.dirname(os.path.abspath(__file__))
REPO_DIR = os.environ.get('VERIF_REPO', '/repo')
PY = '/venv/bin/python'


def _reexec_if_needed() -> None:
    """Every check runs in a /venv interpreter that imports srctools from the working tree."""
    want_path = os.pathsep.join([os.path.join(REPO_DIR, 'src'), os.path.join(VERIF_DIR, 'shims'), VERIF_DIR])
    ok = (
        os.environ.get('_VERIF_CHILD') == '1'
        and os.environ.get('PYTHONHASHSEED') == '0'
        and os.path.realpath(sys.executable) == os.path.realpath(PY)
    )
    if ok:
        return
    env = dict(os.environ)
    env.update({
        '_VERIF_CHILD': '1', 'PYTHONHASHSEED': '0', 'PYTHONDONTWRITEBYTECODE': '1',
        'PYTHONPATH': want_path, 'SRCTOOLS_VERIF': '1',
    })
    os.execve(PY, [PY, os.path.abspath(__file__)] + sys.argv[1:], env)


def find_module(prop: str):
    hits = glob.glob(os.path.join(VERIF_DIR, 'checks', prop.lower() + '_*.py'))
    if len(hits) != 1:
        print(f'HARNESS-ERROR: no unique check module for {prop}: {hits}')
        sys.exit(2)
    name = os.path.splitext(os.path.basename(hits[0]))[0]
    return importlib.import_module('checks.' + name)


def _shard_entry(args):
    from vlib import core
    modname, sub_index, tier, seed, shard, nshards, cap_at = args
    module = sys.modules[modname]
    return core.run_shard(module, sub_index, tier, seed, shard, nshards, cap_at)


def main() -> int:
    _reexec_if_needed()
    ap = argparse.ArgumentParser()
    ap.add_argument('prop')
    ap.add_argument('--tier', default=os.environ.get('VERIF_TIER') or 'quick', choices=['quick', 'thorough'])
    ap.add_argument('--replay')
    ap.add_argument('--only', help='run only this subcheck')
    ap.add_argument('--no-replays', action='store_true', help='skip the curated regression replays (sensitivity runs)')
    ap.add_argument('--procs', type=int, default=int(os.environ.get('VERIF_PROCS', '16')))
    ap.add_argument('--scale', type=float, default=float(os.environ.get('VERIF_SCALE', '1')),
                    help='multiply case counts (development aid)')
    ns = ap.parse_args()
    prop = ns.prop.upper()
    try:
        seed = int(os.environ.get('VERIF_SEED', '1') or '1')
    except ValueError:
        seed = 1
    t0 = time.time()

    import srctools
    src_root = os.path.join(os.path.realpath(REPO_DIR), 'src') + os.sep
    if not os.path.realpath(srctools.__file__).startswith(src_root):
        print(f'HARNESS-ERROR: srctools imported from {srctools.__file__}, not {src_root}')
        return 2

    from vlib import core
    module = find_module(prop)
    assert module.PROPERTY == prop
    known = core.load_known(prop)
    for kf in known:
        if kf.status == 'open' and kf.match not in getattr(module, 'MATCHERS', {}):
            print(f'HARNESS-ERROR: KNOWN_FINDINGS.txt names unknown matcher {kf.match!r} for {prop}')
            return 2

    # ---- replay of one file
    if ns.replay:
        with open(ns.replay, encoding='utf8') as f:
            rep = json.load(f)
        res = core.execute_replay(module, rep)
        for k, n in res['known_hits'].items():
            for kf in known:
                if kf.match == k:
                    print(f'KNOWN-FINDING: property={prop} {kf.text}')
        if res['failing'] is not None:
            print(res['failing']['message'])
            print(f'VIOLATION property={prop} replay={ns.replay}')
            return 1
        print('replay passed')
        return 0

    quick_cap, thorough_cap = getattr(module, 'CAPS', (300, 2400))
    cap_at = t0 + (quick_cap if ns.tier == 'quick' else thorough_cap)

    known_hits: dict[str, int] = {}
    violations: list[dict] = []
    harness_errors: list[str] = []

    # ---- curated regression replays (seconds-long tier): replays/<ID>/*.json
    n_replays = 0
    for path in ([] if ns.no_replays else sorted(glob.glob(os.path.join(VERIF_DIR, 'replays', prop, '*.json')))):
        with open(path, encoding='utf8') as f:
            rep = json.load(f)
        if ns.only and rep.get('subcheck') != ns.only:
            continue
        try:
            res = core.execute_replay(module, rep)
        except Exception as exc:  # harness problem
            import traceback
            harness_errors.append(f'replay {path}: ' + ''.join(traceback.format_exception(type(exc), exc, exc.__traceback__)))
            continue
        n_replays += 1
        for k, n in res['known_hits'].items():
            known_hits[k] = known_hits.get(k, 0) + n
        if res['failing'] is not None:
            fl = dict(res['failing'])
            fl['replay_path'] = path
            violations.append(fl)

    # ---- generated search
    subs = module.SUBCHECKS
    tasks = []
    for i, sub in enumerate(subs):
        if ns.only and sub.name != ns.only:
            continue
        nsh = sub.quick_shards if ns.tier == 'quick' else sub.thorough_shards
        nsh = max(1, min(nsh, ns.procs * 4))
        if ns.scale != 1:
            sub.quick = max(1, int(sub.quick * ns.scale))
            sub.thorough = max(1, int(sub.thorough * ns.scale))
        for sh in range(nsh):
            tasks.append((module.__name__, i, ns.tier, seed, sh, nsh, cap_at))

    # interleave the shards of the sub-checks, so a wall-clock cap starves none of them
    tasks.sort(key=lambda t: (t[4], t[1]))
    results = []
    if not violations:
        if hasattr(module, 'prepare'):
            module.prepare(ns.tier)
        if ns.procs <= 1 or len(tasks) == 1:
            results = [_shard_entry(t) for t in tasks]
        else:
            import multiprocessing as mp
            ctx = mp.get_context('fork')
            with ctx.Pool(min(ns.procs, len(tasks))) as pool:
                results = pool.map(_shard_entry, tasks, chunksize=1)

    per_sub: dict[str, dict] = {}
    for r in results:
        d = per_sub.setdefault(r['sub'], {
            'evaluations': 0, 'inner': 0, 'shard_s': 0.0, 'hashes': set(), 'count': 0, 'classes': {}, 'samples': [], 'skipped_budget': 0,
        })
        d['evaluations'] += r['evaluations']
        d['inner'] += r.get('extra_evals', 0)
        d['shard_s'] += r.get('cpu_wall_s', 0.0)
        d['hashes'] |= r['nontrivial_hashes']
        d['count'] += r['nontrivial_count']
        d['skipped_budget'] += r['skipped_budget']
        for k, n in r['classes'].items():
            d['classes'][k] = d['classes'].get(k, 0) + n
        for k, n in r['known_hits'].items():
            known_hits[k] = known_hits.get(k, 0) + n
        if len(d['samples']) < 3:
            d['samples'].extend(r['samples'][:3 - len(d['samples'])])
        if r['failing'] is not None:
            violations.append(r['failing'])
        if r['harness_error']:
            harness_errors.append(f"{r['sub']}: {r['harness_error']}")

    # ---- vacuity guards
    vacuity_warnings: list[str] = []
    sub_by_name = {s.name: s for s in subs}
    if not violations and not harness_errors:
        for name, d in per_sub.items():
            sub = sub_by_name[name]
            nt = len(d['hashes']) + d['count']
            if d['skipped_budget'] == 0:
                if d['evaluations'] == 0 and not (ns.only and name != ns.only):
                    harness_errors.append(f'{name}: no case was executed at all')
                # Thin coverage of one class at one seed is reported, not turned into a failing exit status: a run that
                # explored less than hoped has still "held on everything explored" (the counts are in the evidence).
                if nt < sub.floor:
                    vacuity_warnings.append(f'{name}: only {nt} distinct non-trivial cases (floor {sub.floor})')
                for cls in sub.must_hit:
                    if not d['classes'].get(cls):
                        vacuity_warnings.append(f'{name}: generator did not produce class {cls!r} in this run')

    # ---- report
    def trunc(x, lim=1500):
        s = json.dumps(x, ensure_ascii=True)
        return x if len(s) <= lim else {'truncated_json': s[:lim] + '...'}

    evaluations = sum(d['evaluations'] + d['inner'] for d in per_sub.values()) + n_replays
    distinct_nt = sum(len(d['hashes']) + d['count'] for d in per_sub.values())
    samples = []
    for name, d in per_sub.items():
        for s in d['samples'][:2]:
            samples.append({'subcheck': name, 'case': trunc(s)})
    wall = time.time() - t0
    status = 0
    seen_keys = set()
    out_lines = []
    for kf in known:
        if kf.status == 'open' and known_hits.get(kf.match):
            out_lines.append(f'KNOWN-FINDING: property={prop} {kf.text} [hits={known_hits[kf.match]}]')
    uniq_viol = []
    for v in violations:
        key = (v['subcheck'], v['clause'])
        if key in seen_keys:
            continue
        seen_keys.add(key)
        uniq_viol.append(v)
    for v in uniq_viol:
        path = v.get('replay_path')
        if path is None:
            d = os.path.join(VERIF_DIR, 'replays', prop, 'found')
            os.makedirs(d, exist_ok=True)
            h = core.desc_hash(v['desc'])
            path = os.path.join(d, f"{v['subcheck']}-{h:016x}.json")
            with open(path, 'w', encoding='utf8') as f:
                json.dump(v, f, indent=1, ensure_ascii=True)
        out_lines.append(f"--- {prop}.{v['subcheck']} clause={v['clause']}\n{v['message']}")
        out_lines.append(f'VIOLATION property={prop} replay={os.path.relpath(path, VERIF_DIR)}')
        status = 1
    if harness_errors and status == 0:
        status = 2
    for e in harness_errors:
        out_lines.append('HARNESS-ERROR: ' + e)
    for w in vacuity_warnings:
        out_lines.append('COVERAGE-WARNING: ' + w)

    evidence = {
        'property_id': prop,
        'tier': ns.tier,
        'seed': seed,
        'level': getattr(module, 'LEVEL', 'exploration'),
        'coverage': {
            'evaluations': max(evaluations, 0),
            'distinct_nontrivial': distinct_nt,
            'rule': module.RULE,
            'samples': samples or [{'note': 'no non-trivial sample recorded'}],
            'replays_executed': n_replays,
            'budget_exhausted': any(d['skipped_budget'] for d in per_sub.values()),
            'subchecks': {
                name: {
                    'evaluations': d['evaluations'],
                    'inner_executions': d['inner'],
                    'shard_seconds_total': round(d['shard_s'], 1),
                    'distinct_nontrivial': len(d['hashes']) + d['count'],
                    'classes': dict(sorted(d['classes'].items())),
                    'skipped_after_budget': d['skipped_budget'],
                } for name, d in per_sub.items()
            },
            'known_findings_hit': known_hits,
            'vacuity_warnings': vacuity_warnings,
            'srctools_path': os.path.dirname(srctools.__file__),
        },
        'assumptions': list(getattr(module, 'ASSUMPTIONS', [])),
        'wall_s': round(wall, 2),
        'violations': len(uniq_viol),
    }
    if hasattr(module, 'extra_evidence'):
        evidence['coverage'].update(module.extra_evidence())
    # Evidence describes runs against /repo itself; sensitivity runs against a scratch worktree (VERIF_REPO) write elsewhere.
    ev_dir = os.path.join(VERIF_DIR, 'evidence') if os.path.realpath(REPO_DIR) == '/repo' else os.path.join(VERIF_DIR, '.scratch', 'evidence_alt')
    os.makedirs(ev_dir, exist_ok=True)
    with open(os.path.join(ev_dir, prop + '.json'), 'w', encoding='utf8') as f:
        json.dump(evidence, f, indent=1, ensure_ascii=True, sort_keys=True)
        f.write('\n')

    for line in out_lines:
        print(line)
    print(f'{prop} tier={ns.tier} seed={seed} evaluations={evaluations} distinct_nontrivial={distinct_nt} '
          f'violations={len(uniq_viol)} wall={wall:.1f}s exit={status}')
    return status


if __name__ == '__main__':
    sys.exit(main())
