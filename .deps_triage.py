"""Dev helper: run N generated cases of one sub-check without shrinking, group failures."""
import sys, time, importlib, traceback, collections, json
from hypothesis import given, settings, HealthCheck, seed, Phase
from vlib import core
modname, subname, n, sd = sys.argv[1], sys.argv[2], int(sys.argv[3]), int(sys.argv[4]) if len(sys.argv) > 4 else 1
mod = importlib.import_module('checks.' + modname)
sub = {s.name: s for s in mod.SUBCHECKS}[subname]
class S:
    tier='quick'; open_known=[]; matchers={}
S.sub = sub
groups = collections.OrderedDict()
labels = collections.Counter()
cnt = [0, 0]
def run(d):
    ctx = core.Ctx(S(), d)
    cnt[0] += 1
    try:
        sub.execute(d, ctx)
    except core.Violation as v:
        key = (v.clause, str(v.facts.get('view') or v.facts.get('lump') or ''))
        groups.setdefault(key, []).append((v.message, d))
    except core.HarnessError as e:
        groups.setdefault(('HARNESS', str(e)[:80]), []).append((str(e), d))
    except Exception as e:
        tb = traceback.extract_tb(e.__traceback__)
        where = [f for f in tb if f.filename.startswith(core.REPO_SRC)]
        key = ('exception:' + type(e).__name__, f'{where[-1].name}:{where[-1].lineno}' if where else 'HARNESS ' + f'{tb[-1].filename}:{tb[-1].lineno}')
        groups.setdefault(key, []).append((''.join(traceback.format_exception(e)[-5:]), d))
    labels.update(ctx.labels)
    cnt[1] += ctx.is_nontrivial
t0 = time.time()
if sub.fixed:
    for d in sub.fixed('quick'): run(d)
if sub.enumerate:
    for d in sub.enumerate('quick'): run(d)
if sub.strategy:
    @seed(sd)
    @settings(max_examples=n, database=None, deadline=None, suppress_health_check=list(HealthCheck), phases=[Phase.generate])
    @given(sub.strategy('quick'))
    def t(d): run(d)
    t()
print(f'{cnt[0]} cases, {cnt[1]} nontrivial, {time.time()-t0:.1f}s')
for key, items in groups.items():
    msg, d = min(items, key=lambda it: len(json.dumps(it[1])))
    print('==', key, len(items)); print('   ', msg[:1500])
if '-l' in sys.argv:
    for k, v in sorted(labels.items()): print(f'  {k}: {v}')
