import io, os, sys, tempfile, contextlib, traceback
from vlib import bspgen as G
from srctools.bsp import BSP
for lay in G.LAYOUTS:
    w = G.skeleton(lay)
    blob = G.build_bsp(w)
    with tempfile.TemporaryDirectory() as td:
        p = os.path.join(td, 'a.bsp'); open(p,'wb').write(blob)
        try:
            b = BSP(p)
            for v in G.VIEW_ORDER: getattr(b, v)
            with contextlib.redirect_stdout(io.StringIO()):
                b.save(os.path.join(td,'b.bsp'))
            b2 = BSP(os.path.join(td,'b.bsp'))
            c1 = G.canon([getattr(b2, v) for v in G.VIEW_ORDER])
            a = BSP(p)
            c0 = G.canon([getattr(a, v) for v in G.VIEW_ORDER])
            print(lay, b.version, b.game_ver, b.static_prop_version, 'equal' if c0==c1 else G.first_diff(c0,c1))
            r = G.read_container(open(os.path.join(td,'b.bsp'),'rb').read(), G.LAYOUTS[lay].l4d2)
            print('  ', r['magic'], r['version'], r['revision'], [ (g['id'],g['flags'],g['version'],len(g['data'])) for g in r['game_lumps']])
        except Exception:
            traceback.print_exc()
