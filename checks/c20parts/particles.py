"""C20 part: PCF particle systems (srctools.particles over DMX) - DESIGN.md section 2, C20.

descriptor -> Particle objects (public constructors) -> Particle.export(driver(particles)) -> DMX element graph
  -> export_binary v5 / export_kv2 -> Element.parse -> Particle.parse -> walked and compared with the *expected shape*
  computed from the descriptor alone; exporting the parsed systems again must give the same DMX graph (own canonical
  walk of the element graph: per element type / name / ordered attributes with value types; element identity by
  first-visit number, UUIDs ignored because every export creates new ones).
The exported graph is also compared directly with the PCF layout (definition list, six operator categories,
functionName, children arrays pointing at the definition elements), so a writer and reader that agree on a wrong
attribute name are still noticed.
"""
from __future__ import annotations

import io
import os

from hypothesis import strategies as st

from vlib.core import Sub, REPO_DIR

ASSUMPTIONS = [
    'system names are unique case-insensitively and children name systems of the same export (Particle.parse keys '
    'systems by folded name; Particle.export looks children up by folded name); the child graph is acyclic',
    'option values stay inside the DMX subset that both encodings carry exactly, so that this check judges particles.py '
    'and not dmx.py (C14): floats are k/64 (float32 and <= 6 decimals), times k/16, angles k/64 in [0, 360), ints int32, '
    'strings printable ASCII plus \\n \\t, attribute names are letters/digits/_/space (KV2 writes names unescaped), '
    'no scalar MATRIX (binary defect, C14), no ELEMENT-typed options, no empty-named attributes',
    'option names are unique case-insensitively inside one system / operator and are none of the names the PCF layout '
    'reserves: name, functionName (operators); name, children and the six category names (systems); options dicts are '
    'keyed by the folded attribute name, as Particle.parse produces them',
    'PCF format versions 1 and 2; DMX encodings binary v5 and keyvalues2',
]

CATEGORIES = ['renderers', 'operators', 'initializers', 'emitters', 'forces', 'constraints']
SYS_RESERVED = {'name', 'children', *CATEGORIES}
OP_RESERVED = {'name', 'functionname'}
NAME_ALPHA = 'abcdXYZ_ 019'
STR_ALPHA = 'abcXYZ 019_.-/\\"\'{}[]:;,=+%$#!?\n\t'
SCALAR_TYPES = ['int', 'float', 'bool', 'string', 'binary', 'time', 'color', 'vec2', 'vec3', 'vec4', 'angle', 'quaternion']
ARRAY_TYPES = SCALAR_TYPES + ['matrix']
VT_NAME = {  # descriptor type -> ValueType member name
    'int': 'INT', 'float': 'FLOAT', 'bool': 'BOOL', 'string': 'STRING', 'binary': 'BINARY', 'time': 'TIME',
    'color': 'COLOR', 'vec2': 'VEC2', 'vec3': 'VEC3', 'vec4': 'VEC4', 'angle': 'ANGLE', 'quaternion': 'QUATERNION',
    'matrix': 'MATRIX',
}
SAMPLE = os.path.join(REPO_DIR, 'tests', 'test_particles', 'sample.pcf')


# ------------------------------------------------------------------------------------------------ strategies

def _q64(lo=-64 * 50, hi=64 * 50):
    return st.integers(lo, hi).map(lambda k: k / 64.0)


def _vec(n):
    return st.lists(_q64(), min_size=n, max_size=n)


ITEM = {
    'int': st.one_of(st.integers(-5, 300), st.integers(-2 ** 31, 2 ** 31 - 1)),
    'float': _q64(),
    'bool': st.booleans(),
    'string': st.text(STR_ALPHA, max_size=8),
    'binary': st.binary(max_size=6).map(bytes.hex),
    'time': st.integers(-16 * 100, 16 * 1000).map(lambda k: k / 16.0),
    'color': st.lists(st.integers(0, 255), min_size=4, max_size=4),
    'vec2': _vec(2), 'vec3': _vec(3), 'vec4': _vec(4), 'quaternion': _vec(4),
    'angle': st.lists(st.integers(0, 360 * 64 - 1).map(lambda k: k / 64.0), min_size=3, max_size=3),
    'matrix': _vec(9),
}


def s_option(reserved):
    def fix_name(n):
        return 'x' + n if n.casefold() in reserved else n
    name = st.text(NAME_ALPHA, min_size=1, max_size=8).map(fix_name)

    def typed(t):
        scalar = st.fixed_dictionaries({'name': name, 'type': st.just(t), 'array': st.just(False), 'value': ITEM[t]})
        arr = st.fixed_dictionaries({'name': name, 'type': st.just(t), 'array': st.just(True),
                                     'value': st.lists(ITEM[t], max_size=3)})
        if t == 'matrix':
            return arr
        return st.one_of(scalar, scalar, arr)
    return st.sampled_from(ARRAY_TYPES).flatmap(typed)


def s_options(reserved, max_size=3):
    return st.lists(s_option(reserved), max_size=max_size, unique_by=lambda o: o['name'].casefold())


def s_operator():
    return st.fixed_dictionaries({
        'name': st.text('abcXYZ_ 01', max_size=6),
        'function': st.text('abcXYZ_ 01', max_size=6),
        'options': s_options(OP_RESERVED),
    })


def strategy(tier):
    cats = {c: st.one_of(st.just([]), st.lists(s_operator(), max_size=2)) for c in CATEGORIES}
    system = st.fixed_dictionaries({
        'name': st.text('abcXYZ_019 ./-', max_size=6),
        'options': s_options(SYS_RESERVED),
        'children': st.lists(st.integers(0, 7), max_size=3),
        **cats,
    })
    return st.fixed_dictionaries({
        'systems': st.lists(system, max_size=4, unique_by=lambda s: s['name'].casefold()),
        'drive': st.sampled_from(['list', 'values', 'gen']),
        'forward': st.booleans(),      # children point at later (True) or earlier (False) systems of the list
        'fmt_ver': st.sampled_from([1, 2]),
        'direct_io': st.booleans(),    # Particle.parse(file) instead of Element.parse + Particle.parse(root, version)
        # object SHARING in the built input: the same Operator instance listed again (another system, another category,
        # or twice in one list) [src system, src category, src index, dst system, dst category, position]; the same
        # Child instance in a second system [src system, child index, dst system]; the same options dict on two operators
        'share_ops': st.one_of(st.just([]), st.lists(st.lists(st.integers(0, 7), min_size=6, max_size=6), max_size=3)),
        'share_children': st.one_of(st.just([]), st.lists(st.lists(st.integers(0, 7), min_size=3, max_size=3), max_size=2)),
        'share_options': st.booleans(),
        # about 1 case in 8: one string-carrying field (system / operator / function name, option name, string option
        # value or string array item) replaced by a string of a boundary length built by repeating a short unit
        'long': st.tuples(st.integers(0, 7), st.fixed_dictionaries({
            'unit': st.text('abXY01_', min_size=1, max_size=3), 'len': st.sampled_from(LONG_LENGTHS),
            'slot': st.integers(0, 60),
        })).map(lambda t: t[1] if t[0] == 7 else None),
    })


# String-length boundaries: block sizes a reader might use (128, 256, 1024, 4096) +-1, and one beyond 16 bits.
LONG_LENGTHS = [127, 128, 129, 255, 256, 257, 1023, 1024, 1025, 4095, 4096, 4097, 65537, 70001]


def strlen_class(n):
    for lo, hi in ((127, 129), (255, 257), (1023, 1025), (4095, 4097)):
        if lo <= n <= hi:
            return f'strlen:{lo}-{hi}'
    return 'strlen:>65536' if n > 65536 else 'strlen:other'


def apply_long(desc):
    """(descriptor without 'long', label of the field that was lengthened or None)."""
    import json
    long = desc.get('long')
    d = {k: v for k, v in desc.items() if k != 'long'}
    if not long:
        return d, None
    d = json.loads(json.dumps(d))
    slots = []

    def opts(lst, where):
        for o in lst:
            slots.append((o, 'name', where + ':option_name'))
            if o['type'] == 'string':
                if o['array']:
                    slots.extend((o['value'], i, where + ':string_array_item') for i in range(len(o['value'])))
                else:
                    slots.append((o, 'value', where + ':string_value'))
    for sy in d['systems']:
        slots.append((sy, 'name', 'system:name'))
        opts(sy['options'], 'system')
        for c in CATEGORIES:
            for op in sy[c]:
                slots.append((op, 'name', 'operator:name'))
                slots.append((op, 'function', 'operator:function'))
                opts(op['options'], 'operator')
    if not slots:
        return d, None
    box, key, what = slots[long['slot'] % len(slots)]
    unit = long['unit']
    box[key] = (unit * (long['len'] // len(unit) + 1))[:long['len']]
    return d, what


def share_plan(desc):
    """Resolve the sharing operations against the descriptor.

    Returns (expanded descriptor, operator inserts, child appends): the expanded descriptor lists an equal copy wherever
    the built input lists the same object again - the written file cannot tell the difference, so that is the expected
    value after reading (what the unchanged writer does: one element per listing).
    """
    import copy
    import json
    # through JSON: no two lists of the copy are one object (st.just([]) hands out the same list every time)
    d = json.loads(json.dumps({k: v for k, v in desc.items() if not k.startswith('share_')}))
    systems = d['systems']
    n = len(systems)
    d['child_names'] = [child_names(desc, i) for i in range(n)]
    op_inserts, child_appends = [], []
    if n == 0:
        return d, op_inserts, child_appends
    for si, ci, k, sj, cj, pos in desc.get('share_ops', []):
        filled = [(i, c) for i in range(n) for c in CATEGORIES if systems[i][c]]     # source: any non-empty list
        if not filled:
            break
        si, cat_i = filled[(si * 8 + ci) % len(filled)]
        src = systems[si][cat_i]
        if cj >= 6:          # destination: the source list itself (the same operator twice in one list)
            sj, cat_j = si, cat_i
        else:
            sj, cat_j = sj % n, CATEGORIES[cj]
        dst = systems[sj][cat_j]
        k %= len(src)
        pos %= len(dst) + 1
        op_inserts.append((si, cat_i, k, sj, cat_j, pos))
        dst.insert(pos, copy.deepcopy(src[k]))
    for si, k, sj in desc.get('share_children', []):
        names = d['child_names'][si % n]
        if not names:
            continue
        name = names[k % len(names)]
        target = [s['name'] for s in systems].index(name)
        j = sj % n
        if (target > j) if desc['forward'] else (target < j):      # keep the child graph acyclic
            child_appends.append((si % n, k % len(names), j))
            d['child_names'][j] = d['child_names'][j] + [name]
    return d, op_inserts, child_appends


def child_names(desc, i):
    """Resolve the child indices of system i (acyclic: only later / only earlier systems)."""
    if 'child_names' in desc:      # expanded descriptor (share_plan)
        return desc['child_names'][i]
    systems = desc['systems']
    n = len(systems)
    pool = list(range(i + 1, n)) if desc['forward'] else list(range(0, i))
    if not pool:
        return []
    return [systems[pool[c % len(pool)]]['name'] for c in systems[i]['children']]


# ------------------------------------------------------------------------------------------------ build / expected

def b_attr(opt):
    from srctools.dmx import Attribute, ValueType
    from srctools.math import Matrix
    t, name, value = opt['type'], opt['name'], opt['value']

    def item(v):
        if t == 'binary':
            return bytes.fromhex(v)
        if t == 'matrix':
            mat = Matrix()
            for r in range(3):
                for c in range(3):
                    mat[r, c] = v[r * 3 + c]
            return mat.freeze()
        return v
    if opt['array']:
        return Attribute.array(name, getattr(ValueType, VT_NAME[t]), [item(v) for v in value])
    if t in ('int', 'float', 'bool', 'string', 'time'):
        return getattr(Attribute, t)(name, value)
    if t == 'binary':
        return Attribute.binary(name, bytes.fromhex(value))
    return getattr(Attribute, t)(name, *value)


def b_options(opts):
    return {o['name'].casefold(): b_attr(o) for o in opts}


def b_systems(desc):
    from srctools.particles import Child, Operator, Particle
    out = []
    for i, s in enumerate(desc['systems']):
        cats = {c: [Operator(o['name'], o['function'], b_options(o['options'])) for o in s[c]] for c in CATEGORIES}
        out.append(Particle(s['name'], b_options(s['options']), children=[Child(n) for n in child_names(desc, i)], **cats))
    return out


def b_shared(desc, op_inserts, child_appends):
    """Build from the ORIGINAL descriptor, then list the very same Operator / Child objects again."""
    parts = b_systems({k: v for k, v in desc.items() if k != 'child_names'})
    for si, ci, k, sj, cj, pos in op_inserts:
        getattr(parts[sj], cj).insert(pos, getattr(parts[si], ci)[k])
    for si, k, sj in child_appends:
        parts[sj].children.append(parts[si].children[k])
    if desc.get('share_options'):
        ops = [o for p in parts for c in CATEGORIES for o in getattr(p, c)]
        seen = {}
        for o in ops:     # operators whose options are equal share ONE options dict (and its Attribute objects)
            key = repr(sorted((k, repr(a)) for k, a in o.options.items()))
            o.options = seen.setdefault(key, o.options)
    return parts


def x_opt(o):
    return [o['name'], o['type'], o['array'], o['value']]


def x_options(opts):
    return {o['name'].casefold(): x_opt(o) for o in opts}


def x_systems(desc):
    out = {}
    for i, s in enumerate(desc['systems']):
        out[s['name'].casefold()] = {
            'name': s['name'], 'options': x_options(s['options']), 'children': child_names(desc, i),
            **{c: [[o['name'], o['function'], x_options(o['options'])] for o in s[c]] for c in CATEGORIES},
        }
    return out


# ------------------------------------------------------------------------------------------------ walkers

def w_attr_value(attr):
    """Value of a non-element attribute through the public typed accessors -> JSON-able."""
    from srctools.dmx import ValueType
    conv = {
        ValueType.INT: ('int', 'int', lambda x: x),
        ValueType.FLOAT: ('float', 'float', lambda x: x),
        ValueType.BOOL: ('bool', 'bool', lambda x: x),
        ValueType.STRING: ('string', 'str', lambda x: x),
        ValueType.BINARY: ('binary', 'bytes', lambda x: x.hex()),
        ValueType.TIME: ('time', 'time', lambda x: x.value),
        ValueType.COLOR: ('color', 'color', lambda c: [c.r, c.g, c.b, c.a]),
        ValueType.VEC2: ('vec2', 'vec2', lambda v: [v.x, v.y]),
        ValueType.VEC3: ('vec3', 'vec3', lambda v: [v.x, v.y, v.z]),
        ValueType.VEC4: ('vec4', 'vec4', lambda v: [v.x, v.y, v.z, v.w]),
        ValueType.ANGLE: ('angle', 'ang', lambda a: [a.pitch, a.yaw, a.roll]),
        ValueType.QUATERNION: ('quaternion', 'quat', lambda q: [q.x, q.y, q.z, q.w]),
        ValueType.MATRIX: ('matrix', 'mat', lambda m: [m[r, c] for r in range(3) for c in range(3)]),
    }
    if attr.type not in conv:
        return 'element', None
    tname, suffix, fn = conv[attr.type]
    if attr.is_array:
        return tname, [fn(x) for x in getattr(attr, 'iter_' + suffix)()]
    return tname, fn(getattr(attr, 'val_' + suffix))


def w_options(options):
    out = {}
    for key, attr in options.items():
        tname, value = w_attr_value(attr)
        out[key] = [attr.name, tname, attr.is_array, value]
    return out


def w_systems(systems):
    """dict[str, Particle] (as returned by Particle.parse) or list of Particle -> shape keyed like Particle.parse."""
    if not isinstance(systems, dict):
        systems = {p.name.casefold(): p for p in systems}
    out = {}
    for key, p in systems.items():
        out[key] = {
            'name': p.name, 'options': w_options(p.options), 'children': [c.particle for c in p.children],
            **{c: [[o.name, o.function, w_options(o.options)] for o in getattr(p, c)] for c in CATEGORIES},
        }
    return out


def fold_names(shape):
    """The same shape with attribute names folded (the library treats attribute names case-insensitively)."""
    def opts(d):
        return {k: [v[0].casefold()] + v[1:] for k, v in d.items()}
    return {k: dict(s, options=opts(s['options']), **{c: [[o[0], o[1], opts(o[2])] for o in s[c]] for c in CATEGORIES})
            for k, s in shape.items()}


def typed_equal(a, b):
    """== that also separates bool / int / float (True != 1, 1 != 1.0)."""
    if type(a) is not type(b):
        return False
    if isinstance(a, dict):
        return list(a) == list(b) and all(typed_equal(a[k], b[k]) for k in a)
    if isinstance(a, list):
        return len(a) == len(b) and all(typed_equal(x, y) for x, y in zip(a, b))
    return a == b


def shape_diff(want, got, path='systems'):
    if isinstance(want, dict) and isinstance(got, dict):
        if list(want) != list(got):
            return f'{path}: keys want {list(want)!r} got {list(got)!r}'
        for k in want:
            d = shape_diff(want[k], got[k], f'{path}[{k!r}]')
            if d:
                return d
        return None
    if isinstance(want, list) and isinstance(got, list):
        if len(want) != len(got):
            return f'{path}: length want {len(want)} got {len(got)}: want {want!r} got {got!r}'[:500]
        for i, (a, b) in enumerate(zip(want, got)):
            d = shape_diff(a, b, f'{path}[{i}]')
            if d:
                return d
        return None
    if not typed_equal(want, got):
        return f'{path}: want {want!r} ({type(want).__name__}) got {got!r} ({type(got).__name__})'
    return None


def canon_graph(root):
    """Own canonical walk of a DMX element graph (breadth first, attribute order, UUID-free)."""
    from srctools.dmx import Element, ValueType
    number = {id(root): 0}
    order = [root]

    def ref(child):
        if not isinstance(child, Element):
            return ['not-an-element', repr(child)]
        if child.is_null or child.is_stub:
            return ['stub', child.uuid.hex]
        if id(child) not in number:
            number[id(child)] = len(order)
            order.append(child)
        return ['elem', number[id(child)]]

    nodes = []
    pos = 0
    while pos < len(order):
        elem = order[pos]
        pos += 1
        attrs = []
        for key, attr in elem.items():
            if key == 'name':
                continue
            if attr.type is ValueType.ELEMENT:
                val = [ref(c) for c in attr.iter_elem()] if attr.is_array else ref(attr.val_elem)
                attrs.append([key, attr.name, 'element', attr.is_array, val])
            else:
                tname, val = w_attr_value(attr)
                attrs.append([key, attr.name, tname, attr.is_array, val])
        nodes.append([elem.type, elem.name, attrs])
    return nodes


def graph_diff(a, b):
    if len(a) != len(b):
        return f'{len(a)} elements vs {len(b)}'
    for i, (x, y) in enumerate(zip(a, b)):
        if x[0] != y[0] or x[1] != y[1]:
            return f'element {i}: {x[0]!r}({x[1]!r}) vs {y[0]!r}({y[1]!r})'
        if len(x[2]) != len(y[2]):
            return f'element {i} {x[0]}({x[1]!r}): attributes {[t[1] for t in x[2]]} vs {[t[1] for t in y[2]]}'
        for p, q in zip(x[2], y[2]):
            if not typed_equal(p, q):
                return f'element {i} {x[0]}({x[1]!r}): attribute {p!r} vs {q!r}'
    return None


# ------------------------------------------------------------------------------------------------ the PCF layout, stated directly

def check_layout(ctx, root, desc):
    """The exported graph against the PCF layout (independent of Particle.parse)."""
    from srctools.dmx import ValueType
    systems = desc['systems']

    def arr(elem, key, what):
        if key not in elem:
            ctx.fail('layout', f'{what}: attribute {key!r} missing (has {list(elem.keys())})')
            return None
        attr = elem[key]
        if not ctx.check(attr.type is ValueType.ELEMENT and attr.is_array, 'layout',
                         f'{what}: {key!r} is {attr.type.name}{" array" if attr.is_array else ""}, not an element array'):
            return None
        return list(attr.iter_elem())

    defs = arr(root, 'particleSystemDefinitions', 'root')
    if defs is None:
        return
    ctx.check(root['particleSystemDefinitions'].name == 'particleSystemDefinitions', 'layout', 'definition list name changed case')
    if not ctx.check([(e.type, e.name) for e in defs] == [('DmeParticleSystemDefinition', s['name']) for s in systems],
                     'layout', f'definitions {[(e.type, e.name) for e in defs]} for systems {[s["name"] for s in systems]}'):
        return
    by_name = {s['name'].casefold(): e for s, e in zip(systems, defs)}
    for i, (s, elem) in enumerate(zip(systems, defs)):
        what = f'system {s["name"]!r}'
        for cat in CATEGORIES:
            ops = arr(elem, cat, what)
            if ops is None:
                continue
            want = [('DmeParticleOperator', o['name'], o['function']) for o in s[cat]]
            got = [(e.type, e.name, e['functionName'].val_str if 'functionName' in e else None) for e in ops]
            ctx.check(got == want, 'layout_operators', f'{what}.{cat}: operators {got!r}, want {want!r}', category=cat)
            for o, e in zip(s[cat], ops):
                want_o = x_options(o['options'])
                got_o = {k: v for k, v in w_options({k: e[k] for k in e.keys()}).items() if k not in OP_RESERVED}
                d = shape_diff(fold_names(_wrap(want_o)), fold_names(_wrap(got_o)))
                ctx.check(d is None, 'layout_options', f'{what}.{cat}.{o["name"]!r}: exported attributes differ: {d}')
        kids = arr(elem, 'children', what)
        if kids is not None:
            want_k = [by_name[n.casefold()] for n in child_names(desc, i)]
            ctx.check(len(kids) == len(want_k) and all(a is b for a, b in zip(kids, want_k)), 'layout_children',
                      f'{what}: children array holds {[k.name for k in kids]!r}, want the definition elements of '
                      f'{child_names(desc, i)!r}', drive=desc['drive'])
        want_o = x_options(s['options'])
        got_o = {k: v for k, v in w_options({k: elem[k] for k in elem.keys() if k not in SYS_RESERVED}).items()}
        d = shape_diff(fold_names(_wrap(want_o)), fold_names(_wrap(got_o)))
        ctx.check(d is None, 'layout_options', f'{what}: exported attributes differ: {d}')


def _wrap(opts):
    """An options shape dressed as a one-system shape so that fold_names()/shape_diff() apply."""
    return {'_': {'name': '', 'options': opts, 'children': [], **{c: [] for c in CATEGORIES}}}


# ------------------------------------------------------------------------------------------------ execute

def drive(kind, parts):
    if kind == 'list':
        return list(parts)
    if kind == 'values':
        return {i: p for i, p in enumerate(parts)}.values()
    return (p for p in parts)


def encode(root, enc, fmt_ver):
    buf = io.BytesIO()
    if enc == 'binary':
        root.export_binary(buf, version=5, fmt_name='pcf', fmt_ver=fmt_ver)
    else:
        root.export_kv2(buf, fmt_name='pcf', fmt_ver=fmt_ver)
    return buf.getvalue()


def classify(desc, ctx):
    labs = {'drive:' + desc['drive'], f'fmt:{desc["fmt_ver"]}', 'systems:' + str(min(len(desc['systems']), 3))}
    for i, s in enumerate(desc['systems']):
        kids = child_names(desc, i)
        if kids:
            labs.add('children')
            if len(set(kids)) < len(kids):
                labs.add('children:repeated')
        for c in CATEGORIES:
            if s[c]:
                labs.add('cat:' + c)
        for o in s['options'] + [o for c in CATEGORIES for op in s[c] for o in op['options']]:
            labs.add('type:' + o['type'])
            if o['array']:
                labs.add('array')
            if o['name'] != o['name'].casefold():
                labs.add('name:mixed_case')
        if s['options']:
            labs.add('system_options')
    ctx.label(*sorted(labs))
    ctx.nontrivial(any(s['options'] or any(s[c] for c in CATEGORIES) or child_names(desc, i)
                       for i, s in enumerate(desc['systems'])))


def execute(desc, ctx):
    if 'file' in desc:
        return execute_file(desc, ctx)
    from srctools.dmx import Element
    from srctools.particles import Particle
    orig, lengthened = apply_long(desc)
    if lengthened:
        ctx.label(strlen_class(desc['long']['len']), 'strlen:' + lengthened)
    desc, op_inserts, child_appends = share_plan(orig)
    classify(desc, ctx)
    if op_inserts:
        ctx.label('shared:operator')
        if any(si == sj and ci == cj for si, ci, k, sj, cj, pos in op_inserts):
            ctx.label('shared:operator_twice_in_one_list')
        if any(si != sj for si, ci, k, sj, cj, pos in op_inserts):
            ctx.label('shared:operator_across_systems')
    if child_appends:
        ctx.label('shared:child')
    parts = b_shared(orig, op_inserts, child_appends)
    want = x_systems(desc)
    d = shape_diff(want, w_systems(parts))
    ctx.check(d is None, 'constructed_value', f'constructed systems differ from the descriptor: {d}')

    root = Particle.export(drive(desc['drive'], parts))
    d = shape_diff(want, w_systems(parts))
    ctx.check(d is None, 'no_mutation', f'Particle.export changed its input: {d}')
    check_layout(ctx, root, desc)
    graph1 = canon_graph(root)

    for enc in ('binary', 'kv2'):
        data = encode(root, enc, desc['fmt_ver'])
        if desc['direct_io']:
            parsed = Particle.parse(io.BytesIO(data))
        else:
            root_b, fmt_name, fmt_ver = Element.parse(io.BytesIO(data))
            ctx.check((fmt_name, fmt_ver) == ('pcf', desc['fmt_ver']), 'format_header', f'{enc}: header says {fmt_name} {fmt_ver}')
            gd = graph_diff(graph1, canon_graph(root_b))
            ctx.check(gd is None, 'dmx_layer', f'{enc}: the DMX encoding itself changed the graph (a C14 matter): {gd}')
            parsed = Particle.parse(root_b, fmt_ver)
        got = w_systems(parsed)
        # names of attributes compared case-insensitively first (as Attribute.__eq__ does), exactly second
        d = shape_diff(fold_names(want), fold_names(got))
        if d is not None:
            extra = _extra_name_keys(want, got)
            if extra:
                ctx.fail('options_name_leak', f'{enc}: parsed options contain the element\'s own "name" attribute: {extra}; {d}')
            else:
                ctx.fail('field_equal', f'{enc}: Particle.parse(export(systems)) differs: {d}', drive=desc['drive'], diff=d)
            return
        d = shape_diff(want, got)
        ctx.check(d is None, 'option_name_case', f'{enc}: attribute name changed case on the way through export/parse: {d}')

        # second generation: same DMX graph
        root2 = Particle.export(list(parsed.values()))
        gd = graph_diff(graph1, canon_graph(root2))
        ctx.check(gd is None, 'second_export_graph', f'{enc}: exporting the parsed systems gives another graph: {gd}')
        if enc == 'kv2':
            # text second generation apart from the element ids
            ctx.check(_strip_ids(encode(root2, 'kv2', desc['fmt_ver'])) == _strip_ids(data), 'second_export_text',
                      'kv2: second-generation text differs beyond element ids')


def _extra_name_keys(want, got):
    out = []
    for key, s in got.items():
        w = want.get(key)
        if w is None:
            continue
        if 'name' in s['options'] and 'name' not in w['options']:
            out.append(f'system {s["name"]!r}')
        for c in CATEGORIES:
            for wo, go in zip(w[c], s[c]):
                if 'name' in go[2] and 'name' not in wo[2]:
                    out.append(f'{s["name"]!r}.{c}.{go[0]!r}')
    return out


def _strip_ids(data):
    import re
    return re.sub(rb'[0-9a-f]{8}-[0-9a-f]{4}-[0-9a-f]{4}-[0-9a-f]{4}-[0-9a-f]{12}', b'<id>', data)


def execute_file(desc, ctx):
    """sample.pcf: parse -> export -> both encodings -> parse gives the same systems; second export same graph."""
    from srctools.dmx import Element
    from srctools.particles import Particle
    ctx.label('file:sample.pcf')
    ctx.nontrivial(True)
    with open(SAMPLE, 'rb') as f:
        root0, fmt_name, fmt_ver = Element.parse(f)
    # what the file holds, read straight from the DMX tree (not through Particle.parse)
    want = {}
    for elem in root0['particleSystemDefinitions'].iter_elem():
        want[elem.name.casefold()] = {
            'name': elem.name,
            'options': w_options({k: elem[k] for k in elem.keys() if k not in SYS_RESERVED}),
            'children': [c.name for c in elem['children'].iter_elem()],
            **{c: [[o.name, o['functionName'].val_str, w_options({k: o[k] for k in o.keys() if k not in OP_RESERVED})]
                   for o in elem[c].iter_elem()] for c in CATEGORIES},
        }
    ctx.check(list(want) == ['test_part'] and len(want['test_part']['renderers']) == 2, 'sample_content', f'sample holds {list(want)}')
    with open(SAMPLE, 'rb') as f:
        parts = Particle.parse(f)
    got = w_systems(parts)
    d = shape_diff(fold_names(want), fold_names(got))
    if d is not None:
        extra = _extra_name_keys(want, got)
        ctx.fail('options_name_leak' if extra else 'field_equal', f'sample.pcf: Particle.parse differs from the DMX tree: {extra} {d}')
        return
    root = Particle.export(drive(desc['drive'], list(parts.values())))
    graph1 = canon_graph(root)
    for enc in ('binary', 'kv2'):
        data = encode(root, enc, fmt_ver)
        back = Particle.parse(io.BytesIO(data))
        got = w_systems(back)
        d = shape_diff(fold_names(want), fold_names(got))
        if not ctx.check(d is None, 'field_equal', f'sample.pcf via {enc}: {d}', drive=desc['drive'], diff=d):
            return
        d = shape_diff(want, got)
        ctx.check(d is None, 'option_name_case', f'sample.pcf via {enc}: attribute name changed case: {d}')
        gd = graph_diff(graph1, canon_graph(Particle.export(back.values())))
        ctx.check(gd is None, 'second_export_graph', f'sample.pcf via {enc}: second export differs: {gd}')


def fixed(tier):
    for kind in ('list', 'values', 'gen'):
        yield {'file': 'sample.pcf', 'drive': kind}
    # every value type, scalar and array, at system and operator level, with mixed-case names and a shared child
    opts = []
    for i, t in enumerate(ARRAY_TYPES):
        sample = {
            'int': -7, 'float': 0.75, 'bool': True, 'string': 'models\\x "q"', 'binary': '00ff10', 'time': 1.5,
            'color': [1, 2, 3, 255], 'vec2': [0.5, -1.0], 'vec3': [0.0, 0.25, -3.0], 'vec4': [1.0, 2.0, 3.0, 4.0],
            'angle': [10.0, 270.5, 0.0], 'quaternion': [0.0, 0.0, 0.5, 0.5], 'matrix': [1.0, 0.0, 0.0, 0.0, 0.5, 0.0, 0.0, 0.0, 2.0],
        }[t]
        if t != 'matrix':
            opts.append({'name': f'Opt {t}', 'type': t, 'array': False, 'value': sample})
        opts.append({'name': f'arr_{t}', 'type': t, 'array': True, 'value': [sample, sample]})
    op = {'name': 'An Op', 'function': 'Do Thing', 'options': opts}
    for kind in ('list', 'values', 'gen'):
        yield {
            'systems': [
                {'name': 'Parent', 'options': opts, 'children': [0, 1, 1], **{c: [op] for c in CATEGORIES}},
                {'name': 'mid', 'options': [], 'children': [0], **{c: [] for c in CATEGORIES}},
                {'name': 'LEAF', 'options': opts[:3], 'children': [], **{c: ([op, op] if c == 'forces' else []) for c in CATEGORIES}},
            ],
            'drive': kind, 'forward': True, 'fmt_ver': 2, 'direct_io': kind == 'values',
            # the same Operator object again in another system, twice in one list; the same Child in a second system
            'share_ops': [[0, 0, 0, 2, 0, 0], [0, 1, 0, 0, 1, 0], [2, 4, 1, 1, 5, 0]],
            'share_children': [[0, 1, 1]], 'share_options': kind != 'gen',
        }


def fixed_long(tier):
    cats = {c: [] for c in CATEGORIES}
    for i, length in enumerate(LONG_LENGTHS):
        op = {'name': 'op', 'function': 'fn', 'options': [
            {'name': 'path', 'type': 'string', 'array': False, 'value': 'x'},
            {'name': 'paths', 'type': 'string', 'array': True, 'value': ['a', 'b']},
        ]}
        # slots: 0 system name, 1 operator name, 2 function, 3 option name, 4 string value, 5 option name, 6/7 array items
        for slot in ((i % 3), 3 + (i % 2) * 2, 4, 6 + i % 2):
            yield {
                'systems': [{'name': 'sys', 'options': [], 'children': [], **{**cats, 'operators': [op]}},
                            {'name': 'kid', 'options': [], 'children': [0], **cats}],
                'drive': 'list', 'forward': False, 'fmt_ver': 1 + i % 2, 'direct_io': slot % 2 == 0,
                'long': {'unit': 'aB_', 'len': length, 'slot': slot},
            }


def fixed_all(tier):
    yield from fixed(tier)
    yield from fixed_long(tier)


SUBS = [
    Sub('particles_roundtrip', execute, strategy=strategy, fixed=fixed_all, quick=480, thorough=8000, floor=100, quick_shards=16,
        must_hit=('strlen:127-129', 'strlen:255-257', 'strlen:1023-1025', 'strlen:4095-4097', 'strlen:>65536',
                  'strlen:system:name', 'strlen:operator:name', 'strlen:operator:function', 'strlen:operator:option_name',
                  'strlen:operator:string_value', 'strlen:operator:string_array_item',
                  'drive:list', 'drive:values', 'drive:gen', 'children', 'shared:operator', 'shared:operator_twice_in_one_list',
                  'shared:operator_across_systems', 'shared:child', 'array', 'name:mixed_case', 'system_options',
                  'file:sample.pcf', 'fmt:1', 'fmt:2')
        + tuple('cat:' + c for c in CATEGORIES) + tuple('type:' + t for t in ARRAY_TYPES)),
]

MATCHERS = {}
