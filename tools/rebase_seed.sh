#!/bin/sh
# Usage: rebase_seed.sh <seed name under /verif/seeded>  -- re-create patch.diff against /repo HEAD when a fix moved the context.
S=/verif/seeded/$1; WT=/tmp/wt_rebase_$$
git -C /repo worktree add -q --detach $WT HEAD || exit 2
cd $WT
if git apply $S/patch.diff 2>/dev/null; then echo "$1: applies cleanly already"; cd /; git -C /repo worktree remove --force $WT; exit 0; fi
if ! git apply --3way $S/patch.diff >/tmp/rb_$$.log 2>&1 || grep -q "with conflicts" /tmp/rb_$$.log || git diff --name-only --diff-filter=U | grep -q .; then
  echo "$1: CONFLICT - manual rebase needed"; cd /; git -C /repo worktree remove --force $WT; exit 1; fi
git reset -q; git diff > /tmp/rb_$$.diff; cd /
git -C /repo worktree remove --force $WT
cp $S/patch.diff $S/patch.orig.diff 2>/dev/null
mkdir -p /tmp/rb_$$ && cp /tmp/rb_$$.diff /tmp/rb_$$/patch.diff && cp $S/demo.py $S/meta.json /tmp/rb_$$/
/verif/tools/verify_seed.sh /tmp/rb_$$ $1 | tail -2
rm -rf /tmp/rb_$$ /tmp/rb_$$.diff /tmp/rb_$$.log
