"""C12 - Atomic file replacement: old or new contents, never a mixture (DESIGN.md section 2, C12).

Fault enumeration.  A harness-side `FaultFS` wraps ``io.open``/``builtins.open``/``os.open``/``os.replace``/
``os.rename``/``os.unlink``/``os.remove``/``os.mkdir`` for paths below the current scratch directory only and hands
out a delegating proxy for every file opened for writing, so that every open/write/flush/seek/truncate/close/
rename/unlink/mkdir is an *operation boundary* (a write of n units is two real writes with a boundary between
them).  For a scenario the un-faulted trace T of boundaries is recorded first; then **every** boundary of T is used
as a crash point (in-place inspection, a sample re-validated by a really killed forked child), every operation of
T as a fault point (one injected OSError per run) and every write as a body-exception point.  Two-writer
schedules run two writers on two threads under a token-passing scheduler that switches only at boundaries.
"""
from __future__ import annotations

import builtins
import errno
import hashlib
import io
import itertools
import os
import shutil
import tempfile
import threading

from hypothesis import strategies as st

from vlib.core import HarnessError, REPO_DIR, Sub, Violation

PROPERTY = 'C12'
LEVEL = 'fault_enumeration'
RULE = (
    'Hypothesis generates scenario descriptors (destination present with old contents or absent; 1-3 consecutive '
    'uses of one AtomicWriter, the non-final ones complete or abandoned (entered - once or twice in a row - and written '
    'to, never exited); body = writes/flushes/seeks/truncates in bytes or text mode with sizes 0..200 KiB '
    'around the buffer size; 0-2 directory levels to create; stale tmp_N files; str/Path/relative target); os-level '
    'metadata calls on scratch paths (stat/lstat/access/chmod/chown/utime/link/symlink) are boundaries too; inside '
    'one evaluation EVERY boundary of the recorded trace is a crash point, EVERY operation x errno a fault point, '
    'every write (before/half-way) and every body position a body-exception point (classes "pt:*" in the histogram '
    'count these points; "evaluations" counts scenarios/schedules).  BSP.save of tests/test_vec/rot_main.bsp over '
    'an older file is enumerated the same way (points partitioned over slices).  After every handled failure a complete use of ANOTHER '
    'writer object on another file must write exactly its own data; bsp_history: [failing save of synthesised map A at '
    'every stride-th boundary] then complete saves of a different map B (other game-lump ids/sizes; expected bytes '
    'from plain saves made before any failure).  Two-writer schedules: each job is 1-2 '
    'consecutive uses of one AtomicWriter object; the two destination names are unrelated (a.bin/b.bin) or RELATED '
    '(same stem + other extension, one a prefix of the other, extension-less, case-only difference); all merges of the two boundary traces for the minimal single-use '
    'writers, all two-block merges against a twice-used writer, Hypothesis-drawn (bit or run-length) schedules for '
    'larger ones.  Non-trivial '
    '= old != new and the trace has a point strictly between the first write and the rename (single/bsp), the two '
    'writers really overlap (two_*); distinct = sha1 of the descriptor JSON (enumerated schedules: each valid merge '
    'string is a distinct interleaving).'
)
ASSUMPTIONS = [
    'destination names are ordinary file names, never tmp_<n> (the writer reserves tmp_<n> in the target directory)',
    'a kill loses Python-level buffers and keeps everything the OS was given (SIGKILL model); power loss / fsync '
    'ordering is outside the statement and not modelled',
    'one injected OSError per run (statement: "every single injected OSError"); a failing close() still releases the '
    'descriptor (POSIX); body exception and injected OSError are not combined, so a fault in the cleanup unlink '
    'itself (which nothing could repair) is never demanded to leave no temp file',
    'an abandoned use (no __exit__) is not a handled failure: its temp file may exist until the same writer object '
    'is used again, which removes it (make_tempfile); so every scenario ends with a complete use, after which no temp '
    'may remain; a single fault at or before that removal may leave the abandoned temp (nothing else could remove it); '
    'faults/body exceptions are enumerated in complete uses only, kill points everywhere',
    'after a handled failure only *files* are compared with the initial listing: directories created by '
    'parent.mkdir(parents=True) are not temporary files',
    'expected new contents come from an independent byte/str model of the body (BSP.save: a plain un-instrumented '
    'save of the same object to another directory; serialisation itself is C10/C11)',
    'two writers always target different file names in the same directory (the names may share stem/prefix; '
    'case-only differences are different files); Linux (no newline translation)',
    'pure-Python srctools from $VERIF_REPO/src',
]
CAPS = (300, 2400)

# ----------------------------------------------------------------------------------------------------------------
# unwrapped originals (captured at import, before anything is ever patched) - the harness only uses these
_R_OPEN = io.open
_R_OS_OPEN = os.open
_R_REPLACE = os.replace
_R_RENAME = os.rename
_R_UNLINK = os.unlink
_R_REMOVE = os.remove
_R_MKDIR = os.mkdir
_R_FSYNC = os.fsync
_R_FDATASYNC = getattr(os, 'fdatasync', None)

_WRITE_FLAGS = os.O_WRONLY | os.O_RDWR | os.O_CREAT | os.O_TRUNC | os.O_APPEND

ERRS = {
    'open': ['EACCES', 'ENOSPC', 'EIO'],
    'os_open': ['EACCES', 'ENOSPC', 'EIO'],
    'write': ['ENOSPC', 'EIO', 'partial'],
    'flush': ['ENOSPC', 'EIO'],
    'seek': ['ENOSPC', 'EIO'],
    'truncate': ['ENOSPC', 'EIO'],
    'close': ['ENOSPC', 'EIO'],
    'replace': ['EXDEV', 'EACCES', 'EIO', 'ENOSPC'],
    'rename': ['EXDEV', 'EACCES', 'EIO', 'ENOSPC'],
    'unlink': ['EACCES', 'EIO'],
    'mkdir': ['EACCES', 'ENOSPC', 'EIO'],
    'fsync': ['EIO', 'ENOSPC'],
    # metadata calls on paths below the scratch directory (single-writer runs only, see FaultFS.meta)
    'stat': ['EACCES', 'EIO'],
    'lstat': ['EACCES', 'EIO'],
    'access': ['EIO'],
    'chmod': ['EPERM', 'EIO'],
    'lchmod': ['EPERM', 'EIO'],
    'chown': ['EPERM', 'EIO'],
    'utime': ['EPERM', 'EIO'],
    'link': ['EPERM', 'EXDEV', 'EIO'],
    'symlink': ['EPERM', 'EIO'],
}

# os-level metadata entry points: name -> indices of the positional arguments that are paths to classify.  Whatever
# the writer asks the file system besides open/rename/unlink (does the folder exist, what mode has the file being
# replaced, ...) is an operation that can fail or after which the process can be killed, like any other.
META_CALLS = {'stat': (0,), 'lstat': (0,), 'access': (0,), 'chmod': (0,), 'lchmod': (0,), 'chown': (0,),
              'utime': (0,), 'link': (0, 1), 'symlink': (1,)}
_R_META = {name: getattr(os, name) for name in META_CALLS if hasattr(os, name)}


class BodyError(Exception):
    """The caller's body fails (deliberately not an OSError)."""


class BodyAbort(BaseException):
    """The caller's body is left through something that is not an Exception (like KeyboardInterrupt is)."""


# the ways a with-body can be left exceptionally; everything but the first is NOT an Exception subclass
EXC_KINDS = ['Exception', 'KeyboardInterrupt', 'SystemExit', 'GeneratorExit', 'BaseException']
_EXC_TYPES = {'Exception': BodyError, 'KeyboardInterrupt': KeyboardInterrupt, 'SystemExit': SystemExit,
              'GeneratorExit': GeneratorExit, 'BaseException': BodyAbort}


def make_body_exc(kind, msg: str) -> BaseException:
    return _EXC_TYPES[kind or 'Exception'](msg)


def body_kinds(desc, i: int) -> list:
    """Exception types used for the body-exception point i: all of them, or Exception + one rotating other."""
    sel = desc.get('exc') or {}
    if sel.get('all'):
        return list(EXC_KINDS)
    if 'off' not in sel:
        return ['Exception']
    return ['Exception', EXC_KINDS[1 + (i // sel.get('div', 1) + sel['off']) % (len(EXC_KINDS) - 1)]]


def make_oserror(name: str, path: str) -> OSError:
    code = getattr(errno, name)
    return OSError(code, os.strerror(code) + ' [injected]', path)


# ----------------------------------------------------------------------------------------------------------------
class FaultFile:
    """Delegating proxy for a file opened for writing: write/flush/seek/truncate/close are boundaries."""

    def __init__(self, fs: 'FaultFS', real, rel: str) -> None:
        self.__dict__['_fs'] = fs
        self.__dict__['_real'] = real
        self.__dict__['_rel'] = rel

    def __getattr__(self, name):
        return getattr(self.__dict__['_real'], name)

    def __setattr__(self, name, value):
        setattr(self.__dict__['_real'], name, value)

    def __enter__(self):
        self._real.__enter__()   # ValueError when closed, as the real object does
        return self

    def __exit__(self, *args):
        self.close()

    def __iter__(self):
        return iter(self._real)

    def write(self, data):
        real = self._real
        if real.closed:
            return real.write(data)
        n = len(data)
        h = n // 2
        b = self._fs.boundary('write', 'pre', self._rel, {'n': n})
        if b.get('partial'):
            real.write(data[:h])
            raise b['exc']
        real.write(data[:h])
        self._fs.boundary('write', 'mid', self._rel, {'n': n})
        real.write(data[h:])
        return n

    def writelines(self, lines):
        for line in lines:
            self.write(line)

    def flush(self):
        if not self._real.closed:
            self._fs.boundary('flush', 'pre', self._rel, {})
        return self._real.flush()

    def seek(self, pos, whence=0):
        if not self._real.closed:
            self._fs.boundary('seek', 'pre', self._rel, {'pos': pos, 'whence': whence})
        return self._real.seek(pos, whence)

    def truncate(self, size=None):
        if not self._real.closed:
            self._fs.boundary('truncate', 'pre', self._rel, {'size': size})
        return self._real.truncate(size)

    def close(self):
        real = self._real
        if real.closed:
            return
        try:
            self._fs.boundary('close', 'pre', self._rel, {})
        except OSError:
            # POSIX: the descriptor is released even when close()/the final flush reports an error.
            real.close()
            raise
        real.close()


class FaultFS:
    """Wraps the file-system entry points for paths below `root`; every wrapped call is a boundary.

    ``hook(b)`` is called at every boundary with the boundary record (a dict) and returns None, an exception
    instance to raise instead of performing the operation, or ('partial', exc) for a half-done write.
    """
    _installed = None
    _NAMES = [(io, 'open'), (builtins, 'open'), (os, 'open'), (os, 'replace'), (os, 'rename'),
              (os, 'unlink'), (os, 'remove'), (os, 'mkdir'), (os, 'fsync')] + (
                  [(os, 'fdatasync')] if _R_FDATASYNC else [])

    def __init__(self, root: str, hook, meta: bool = False) -> None:
        self.root = os.path.realpath(root)
        self.prefix = self.root + os.sep
        self.hook = hook
        self.meta = meta            # are os.stat/chmod/... boundaries too (single-threaded runs only)
        self.in_hook = False
        self.proxies: list[FaultFile] = []
        self.saved: list = []

    # -- path classification
    def rel(self, path):
        """Path relative to the root, or None when the path is not below the scratch directory."""
        if isinstance(path, int):
            return None
        try:
            p = os.fspath(path)
        except TypeError:
            return None
        if isinstance(p, bytes):
            p = os.fsdecode(p)
        p = os.path.abspath(p)
        if p.startswith(self.prefix):
            return p[len(self.prefix):]
        return None

    def boundary(self, op: str, at: str, rel: str, info: dict) -> dict:
        b = {'op': op, 'at': at, 'path': rel}
        b.update(info)
        self.in_hook = True         # metadata calls made by the harness's own inspection are not boundaries
        try:
            act = self.hook(b)
        finally:
            self.in_hook = False
        if act is None:
            return b
        if isinstance(act, tuple):      # ('partial', exc)
            b['partial'] = True
            b['exc'] = act[1]
            return b
        raise act

    # -- wrapped entry points
    def _open(self, file, mode='r', buffering=-1, encoding=None, errors=None, newline=None, closefd=True, opener=None):
        rel = self.rel(file)
        if rel is None or not isinstance(mode, str) or not any(c in mode for c in 'wxa+'):
            return _R_OPEN(file, mode, buffering, encoding, errors, newline, closefd, opener)
        b = self.boundary('open', 'pre', rel, {'mode': mode})
        try:
            real = _R_OPEN(file, mode, buffering, encoding, errors, newline, closefd, opener)
        except OSError as exc:
            b['res'] = type(exc).__name__
            raise
        proxy = FaultFile(self, real, rel)
        self.proxies.append(proxy)
        return proxy

    def _os_open(self, path, flags, mode=0o777, *, dir_fd=None):
        rel = self.rel(path) if dir_fd is None else None
        if rel is None or not (flags & _WRITE_FLAGS):
            return _R_OS_OPEN(path, flags, mode, dir_fd=dir_fd)
        b = self.boundary('os_open', 'pre', rel, {'flags': flags})
        try:
            return _R_OS_OPEN(path, flags, mode, dir_fd=dir_fd)
        except OSError as exc:
            b['res'] = type(exc).__name__
            raise

    def _two(self, op, real):
        def wrapped(src, dst, *, src_dir_fd=None, dst_dir_fd=None):
            rs = self.rel(src) if src_dir_fd is None else None
            rd = self.rel(dst) if dst_dir_fd is None else None
            if rs is None and rd is None:
                return real(src, dst, src_dir_fd=src_dir_fd, dst_dir_fd=dst_dir_fd)
            b = self.boundary(op, 'pre', rs if rs is not None else str(src), {'dst': rd if rd is not None else str(dst)})
            try:
                return real(src, dst, src_dir_fd=src_dir_fd, dst_dir_fd=dst_dir_fd)
            except OSError as exc:
                b['res'] = type(exc).__name__
                raise
        return wrapped

    def _one(self, op, real):
        def wrapped(path, *args, dir_fd=None, **kw):
            rel = self.rel(path) if dir_fd is None else None
            if rel is None:
                return real(path, *args, dir_fd=dir_fd, **kw)
            b = self.boundary(op, 'pre', rel, {})
            try:
                return real(path, *args, dir_fd=dir_fd, **kw)
            except OSError as exc:
                b['res'] = type(exc).__name__
                raise
        return wrapped

    def _meta(self, op, real, idxs):
        def wrapped(*args, **kw):
            if self.in_hook or any(k.endswith('dir_fd') and v is not None for k, v in kw.items()) \
                    or len(args) <= max(idxs):
                return real(*args, **kw)
            rels = [self.rel(args[i]) for i in idxs]
            if all(r is None for r in rels):
                return real(*args, **kw)
            info = {}
            if len(idxs) > 1:
                info['dst'] = rels[1] if rels[1] is not None else str(args[idxs[1]])
            b = self.boundary(op, 'pre', rels[0] if rels[0] is not None else str(args[idxs[0]]), info)
            try:
                return real(*args, **kw)
            except OSError as exc:
                b['res'] = type(exc).__name__
                raise
        return wrapped

    def _sync(self, real):
        """fsync/fdatasync of a descriptor that refers to a file or directory below the scratch directory."""
        def wrapped(fd):
            rel = None
            try:
                num = fd if isinstance(fd, int) else fd.fileno()
                target = os.readlink(f'/proc/self/fd/{num}')
                if target == self.root:
                    rel = '.'
                elif target.startswith(self.prefix):
                    rel = target[len(self.prefix):]
            except (OSError, AttributeError, ValueError):
                rel = None
            if rel is None:
                return real(fd)
            b = self.boundary('fsync', 'pre', rel, {})
            try:
                return real(fd)
            except OSError as exc:
                b['res'] = type(exc).__name__
                raise
        return wrapped

    def install(self) -> None:
        if FaultFS._installed is not None:
            raise HarnessError('FaultFS installed twice')
        if io.open is not _R_OPEN or os.replace is not _R_REPLACE or os.unlink is not _R_UNLINK:
            raise HarnessError('file-system entry points are already patched by somebody else')
        repl = {
            (io, 'open'): self._open, (builtins, 'open'): self._open, (os, 'open'): self._os_open,
            (os, 'replace'): self._two('replace', _R_REPLACE), (os, 'rename'): self._two('rename', _R_RENAME),
            (os, 'unlink'): self._one('unlink', _R_UNLINK), (os, 'remove'): self._one('unlink', _R_REMOVE),
            (os, 'mkdir'): self._one('mkdir', _R_MKDIR), (os, 'fsync'): self._sync(_R_FSYNC),
        }
        if _R_FDATASYNC:
            repl[(os, 'fdatasync')] = self._sync(_R_FDATASYNC)
        names = list(self._NAMES)
        if self.meta:
            for name, real in _R_META.items():
                if getattr(os, name) is not real:
                    raise HarnessError(f'os.{name} is already patched by somebody else')
                repl[(os, name)] = self._meta(name, real, META_CALLS[name])
                names.append((os, name))
        self.saved = [(mod, name, getattr(mod, name)) for mod, name in names]
        FaultFS._installed = self
        for (mod, name), fn in repl.items():
            setattr(mod, name, fn)

    def uninstall(self) -> None:
        for mod, name, orig in self.saved:
            setattr(mod, name, orig)
        self.saved = []
        if FaultFS._installed is self:
            FaultFS._installed = None
        for p in self.proxies:          # never leak descriptors, whatever the writer did
            try:
                real = p.__dict__['_real']
                if not real.closed:
                    real.close()
            except Exception:
                pass
        self.proxies = []


# ----------------------------------------------------------------------------------------------------------------
# deterministic contents
_TT = bytes(b'abcdefghijklmnopqrstuvwxyz ABCDEFGH\n0123456789_-'[i % 48] for i in range(256))


def blob(seed: int, n: int) -> bytes:
    if n <= 0:
        return b''
    pat = (hashlib.sha256(b'c12:%d' % seed).digest() * 8)[:251]
    return (pat * (n // 251 + 1))[:n]


def text_blob(seed: int, n: int) -> str:
    s = blob(seed, n).translate(_TT).decode('ascii')
    return s.replace('q', '\xe9').replace('z', '€').replace('x', '\U0001d11e')


def walk_files(root: str) -> list:
    out = []
    for dirpath, dirnames, filenames in os.walk(root):
        dirnames.sort()
        for fn in sorted(filenames):
            full = os.path.join(dirpath, fn)
            out.append((os.path.relpath(full, root), full))
    out.sort()
    return out


def read_file(full: str):
    try:
        with _R_OPEN(full, 'rb') as f:
            return f.read()
    except FileNotFoundError:
        return None


def snapshot(root: str) -> dict:
    return {rel: read_file(full) for rel, full in walk_files(root)}


def digest(snap: dict) -> dict:
    return {rel: [len(data), hashlib.sha1(data).hexdigest()] for rel, data in snap.items()}


def short(data) -> str:
    if data is None:
        return '<absent>'
    return f'{len(data)} bytes sha1={hashlib.sha1(data).hexdigest()[:10]} head={data[:24]!r}'


def which(data, names: dict) -> str:
    for k, v in names.items():
        if data == v:
            return k
    return short(data)


# ----------------------------------------------------------------------------------------------------------------
class Plan:
    """Everything derived from a scenario descriptor (pure function of it)."""

    def __init__(self, desc: dict) -> None:
        self.desc = desc
        self.kind = desc.get('kind', 'writer')
        self.initial: dict = {}
        if self.kind == 'bsp':
            self._init_bsp(desc)
        else:
            self._init_writer(desc)

    def _init_writer(self, d: dict) -> None:
        seed = d['seed']
        self.text = bool(d['text'])
        self.enc = d.get('enc', 'utf8')
        nested = d['nested']
        self.dirs = ['d']                       # directories existing before the run
        parent = 'd' + ''.join(f'/n{i + 1}' for i in range(nested))
        self.dest = parent + '/' + d['name']
        self.style = d['path_style']
        self.base = 'd'
        self.initial['d/keep.dat'] = blob(seed + 7, 37)
        if nested == 0:
            for k in sorted(set(d['stale'])):
                self.initial[f'd/tmp_{k}'] = blob(seed + 100 + k, d['stale_size'])
        old = None
        if d['old'] is not None and nested == 0:
            old = blob(seed + 1, d['old'])
            self.initial[self.dest] = old
        self.contents = [old]
        self.calls = []
        # 'with': a complete use; 'abandon': __enter__ + the calls, __exit__ never runs; 'abandon2': __enter__ is
        # called twice in a row first.  An abandoned use commits nothing.  The last use is always complete.
        modes = list(d.get('modes') or [])
        self.modes = [(modes[ph] if ph < len(modes) else 'with') for ph in range(len(d['bodies']))]
        if self.modes:
            self.modes[-1] = 'with'
        for ph, body in enumerate(d['bodies']):
            calls, new = self._model(body, seed + 1000 * (ph + 1))
            self.calls.append(calls)
            self.contents.append(new if self.modes[ph] == 'with' else self.contents[-1])

    def _model(self, body, seed):
        """Independent model of the body: the calls to make and the bytes the file must end up with."""
        calls = []
        if self.text:
            parts = []
            for k, op in enumerate(body):
                if op[0] == 'w':
                    s = text_blob(seed + k, op[1])
                    parts.append(s)
                    calls.append(('w', s))
                elif op[0] == 'f':
                    calls.append(('f',))
            # a TextIOWrapper emits the utf-16 BOM with the first write() call, even of ''
            new = ''.join(parts).encode(self.enc) if parts else b''
            return calls, new
        buf = bytearray()
        pos = 0
        for k, op in enumerate(body):
            if op[0] == 'w':
                data = blob(seed + k, op[1])
                if data and pos > len(buf):      # a zero-length write beyond EOF does not extend the file
                    buf.extend(bytes(pos - len(buf)))
                buf[pos:pos + len(data)] = data
                pos += len(data)
                calls.append(('w', data))
            elif op[0] == 'f':
                calls.append(('f',))
            elif op[0] == 's':
                pos = len(buf) * op[1] // 1000
                calls.append(('s', pos))
            elif op[0] == 't':
                size = len(buf) * op[1] // 1000
                del buf[size:]
                calls.append(('t', size))
        return calls, bytes(buf)

    def _init_bsp(self, d: dict) -> None:
        self.text = False
        self.dirs = ['d']
        self.dest = 'd/' + d['name']
        self.style = d.get('path_style', 'str')
        self.base = 'd'
        src = os.path.join(REPO_DIR, 'tests', 'test_vec', d['bsp'])
        old = read_file(src)
        if old is None:
            raise HarnessError(f'sample BSP missing: {src}')
        self.bsp_src = src
        self.initial['d/keep.dat'] = blob(5, 37)
        self.initial[self.dest] = old
        self.contents = [old, None]      # new is filled in by load_bsp()
        self.calls = [None]
        self.modes = ['with']

    def load_bsp(self, case_dir: str):
        """Load the sample, modify it, and obtain the reference output by a plain save elsewhere."""
        from srctools.bsp import BSP
        bsp = BSP(self.bsp_src)
        bsp.map_revision += self.desc.get('bump', 1)
        ref_dir = os.path.join(case_dir, 'ref')
        _R_MKDIR(ref_dir)
        ref = os.path.join(ref_dir, 'ref.bsp')
        bsp.save(ref)
        new = read_file(ref)
        bsp.save(ref)
        if read_file(ref) != new:
            raise HarnessError('BSP.save is not repeatable on the same object; reference contents are ambiguous')
        if sorted(os.listdir(ref_dir)) != ['ref.bsp']:
            raise HarnessError(f'plain BSP.save left {sorted(os.listdir(ref_dir))} behind')
        shutil.rmtree(ref_dir)
        self.contents[1] = new
        self.bsp = bsp

    def populate(self, root: str) -> None:
        for dname in self.dirs:
            os.makedirs(os.path.join(root, dname), exist_ok=True)
        for rel, data in self.initial.items():
            full = os.path.join(root, rel)
            with _R_OPEN(full, 'wb') as f:
                f.write(data)

    def expected_after(self, committed: int) -> dict:
        """File listing when `committed` phases have been committed and nothing else is left behind."""
        exp = dict(self.initial)
        if self.contents[committed] is not None:
            exp[self.dest] = self.contents[committed]
        return exp

    def names(self) -> dict:
        d = {}
        for i, c in enumerate(self.contents):
            if c is not None:
                d['old' if i == 0 else f'new{i}'] = c
        return d


class Recorder:
    """The FaultFS hook of a single-threaded run: records the trace, inspects, fires the planned action once."""

    def __init__(self, action=None, inspect=None) -> None:
        self.trace: list = []
        self.action = action        # None | {'at': idx, 'act': 'kill' | 'body' | 'partial' | errno name}
        self.inspect = inspect
        self.exc = None
        self.fired = False
        self.phase = 0

    def __call__(self, b: dict):
        idx = len(self.trace)
        b['phase'] = self.phase
        self.trace.append(b)
        if self.inspect is not None:
            self.inspect(idx, b)
        a = self.action
        if a is None or self.fired or a['at'] != idx:
            return None
        self.fired = True
        act = a['act']
        if act == 'kill':
            os._exit(137)
        if act == 'body':
            self.exc = make_body_exc(a.get('exc'), f'body fails at boundary {idx}')
            return self.exc
        if act == 'partial':
            self.exc = make_oserror('ENOSPC', b['path'])
            return ('partial', self.exc)
        self.exc = make_oserror(act, b['path'])
        return self.exc

    def is_mine(self, exc) -> bool:
        if isinstance(exc, (Violation, HarnessError)) or self.exc is None:
            return False        # the harness's own control flow is never swallowed
        seen = 0
        while exc is not None and seen < 20:
            if exc is self.exc:
                return True
            exc = exc.__cause__ or exc.__context__
            seen += 1
        return False


def sig(b: dict) -> tuple:
    return (b['op'], b['at'], b['path'], b.get('dst'), b.get('n'), b.get('mode'), b.get('phase'))


# spellings of the destination path.  cwd is restored by the caller (try/finally); shards are separate processes.
CWD_IN_ROOT = ('rel', 'rel_dot')
CWD_IN_BASE = ('bare', 'bare_path', 'dot', 'updir')      # cwd = the existing directory the file (or n1/..) is in
PATH_STYLES = ['str', 'path', 'abs_dot', 'abs_dotdot', 'rel', 'rel_dot', 'bare', 'bare_path', 'dot', 'updir']


def spell_target(style: str, root: str, base: str, dest: str):
    """Change directory as the spelling needs and return the destination as the caller would write it."""
    import pathlib
    full = os.path.join(root, dest)
    inner = dest[len(base) + 1:]                    # relative to the existing base directory: 'a.bin', 'n1/a.bin'
    if style == 'str':
        return full
    if style == 'path':
        return pathlib.Path(full)
    if style == 'abs_dot':
        return os.path.join(root, base, '.', inner)
    if style == 'abs_dotdot':
        return os.path.join(root, base, '..', base, inner)
    if style in CWD_IN_ROOT:
        os.chdir(root)
        return dest if style == 'rel' else './' + dest
    if style in CWD_IN_BASE:
        os.chdir(os.path.join(root, base))
        if style == 'bare':
            return inner                            # bare file name when nothing has to be created
        if style == 'bare_path':
            return pathlib.Path(inner)
        if style == 'dot':
            return './' + inner
        return '../' + base + '/' + inner
    raise HarnessError(f'unknown path style {style!r}')


AFTER_REL = 'd/after.bin'
AFTER_DATA = blob(4242, 9000)


def follow_up(root: str) -> None:
    """After a handled failure: a complete use of ANOTHER writer object on another file in the same directory.
    Nothing of the failed use may influence it (checked by check_listing: the file holds exactly AFTER_DATA)."""
    from srctools import AtomicWriter
    with AtomicWriter(os.path.join(root, AFTER_REL), is_bytes=True) as f:
        f.write(AFTER_DATA[:100])
        f.write(AFTER_DATA[100:])


def run_once(plan: Plan, root: str, rec: Recorder, harness_raise=None, exc_kind=None) -> dict:
    """Populate `root`, run the scenario under FaultFS with `rec` as hook.  Returns the outcome.

    harness_raise = (phase, j): the body itself raises BodyError before its j-th call (j == len: after the last).
    Only the injected exception (or one chained to it) is caught; anything else propagates to the runner.
    """
    os.mkdir(root)
    plan.populate(root)
    fs = FaultFS(root, rec, meta=True)
    out = {'failed_phase': None, 'exc': None, 'committed': 0}
    cwd = os.getcwd()
    fs.install()
    try:
        target = spell_target(plan.style, fs.root, plan.base, plan.dest)
        if plan.kind == 'bsp':
            try:
                if plan.style in CWD_IN_BASE:
                    # the map was loaded by that name in its own folder and is saved in place
                    plan.bsp.filename = target
                    plan.bsp.save()
                else:
                    plan.bsp.save(target)
            except BaseException as exc:
                if not rec.is_mine(exc):
                    raise
                out['failed_phase'] = 0
                out['exc'] = exc
            else:
                out['committed'] = 1
                fs.boundary('end', 'pre', plan.dest, {})
            if out['exc'] is not None:
                follow_up(fs.root)
            return out
        from srctools import AtomicWriter
        if plan.text:
            writer = AtomicWriter(target, is_bytes=False, encoding=plan.enc)
        else:
            writer = AtomicWriter(target, is_bytes=True)
        def do(f, call):
            if call[0] == 'w':
                f.write(call[1])
            elif call[0] == 'f':
                f.flush()
            elif call[0] == 's':
                f.seek(call[1])
            elif call[0] == 't':
                f.truncate(call[1])

        for ph, calls in enumerate(plan.calls):
            rec.phase = ph
            if plan.modes[ph] != 'with':
                # abandoned use: entered, written to, never exited (no fault is ever planned inside it)
                f = writer.__enter__()
                if plan.modes[ph] == 'abandon2':
                    f = writer.__enter__()
                for call in calls:
                    do(f, call)
                del f
                out['committed'] = ph + 1
                fs.boundary('end', 'pre', plan.dest, {})
                continue
            try:
                with writer as f:
                    for j, call in enumerate(calls):
                        if harness_raise == (ph, j):
                            rec.exc = make_body_exc(exc_kind, f'body fails before call {j}')
                            raise rec.exc
                        do(f, call)
                    if harness_raise == (ph, len(calls)):
                        rec.exc = make_body_exc(exc_kind, 'body fails after its last call')
                        raise rec.exc
            except BaseException as exc:
                if not rec.is_mine(exc):
                    raise
                out['failed_phase'] = ph
                out['exc'] = exc
                break
            out['committed'] = ph + 1
            fs.boundary('end', 'pre', plan.dest, {})
        if out['exc'] is not None:
            follow_up(fs.root)
        return out
    finally:
        fs.uninstall()
        if os.getcwd() != cwd:
            os.chdir(cwd)


def window_points(trace: list) -> set:
    """Indices strictly between the first write and the rename of the same phase."""
    res = set()
    first = {}
    for i, b in enumerate(trace):
        ph = b.get('phase', 0)
        if b['op'] == 'write' and ph not in first:
            first[ph] = i
        elif b['op'] in ('replace', 'rename') and ph in first:
            res.update(range(first[ph] + 1, i + 1))   # "before the rename" is still inside the window
            first[ph] = 1 << 60
    return res


def abandoned_allowed(plan: Plan, trace: list, i: int) -> set:
    """Temp files of abandoned uses that may still exist after a handled failure caused by a fault at boundary i.

    An abandoned temp file legitimately exists until the writer object is used again; the unchanged design removes
    it at the start of the next use (close + unlink in make_tempfile).  A single fault at or before that unlink
    hits the removal itself (nothing else could remove the file), so the file may then remain; after it, not.
    """
    res = set()
    for q, mode in enumerate(plan.modes):
        if mode == 'with':
            continue
        temp = None
        for b in trace:
            if b['phase'] == q and b['op'] == 'open' and 'res' not in b:
                temp = b['path']
        if temp is None:
            continue
        gone = None
        for k, b in enumerate(trace):
            if b['phase'] > q and b['op'] == 'unlink' and b['path'] == temp:
                gone = k
                break
        if gone is not None and i <= gone:
            res.add(temp)
    return res


def check_listing(ctx, plan: Plan, root: str, committed: int, prefix: str, what: str, allow=(), **facts) -> None:
    """After the `with` statement is over: the files are exactly the initial ones plus the committed destination
    (`allow`: paths that may, but need not, exist in addition)."""
    exp = plan.expected_after(committed)
    if prefix != 'normal':
        exp[AFTER_REL] = AFTER_DATA        # written by follow_up() after the handled failure
    got = snapshot(root)
    for rel in allow:
        if rel not in exp:
            got.pop(rel, None)
    names = plan.names()
    gd, ed = got.get(plan.dest), exp.get(plan.dest)
    if gd != ed:
        ctx.fail(prefix + ('_dest_not_new' if prefix == 'normal' else '_dest_not_old'),
                 f'{what}: destination {plan.dest} holds {which(gd, names)}, expected {which(ed, names)}', **facts)
    extra = sorted(set(got) - set(exp))
    if extra:
        ctx.fail(prefix + '_temp_left',
                 f'{what}: file(s) left behind: {extra} (initial listing {sorted(plan.initial)}, destination {plan.dest})',
                 extra=extra, **facts)
    for rel in sorted(exp):
        if rel == AFTER_REL and got.get(rel) != exp[rel]:
            ctx.fail('later_writer_polluted',
                     f'{what}; then a complete use of another AtomicWriter on {rel}: it holds {short(got.get(rel))}, '
                     f'expected exactly what was written: {short(exp[rel])}', **facts)
        elif rel != plan.dest and got.get(rel) != exp[rel]:
            ctx.fail(prefix + '_other_file_changed',
                     f'{what}: pre-existing file {rel} changed: {short(got.get(rel))}, was {short(exp[rel])}',
                     changed=rel, **facts)


def crash_inspector(ctx, plan: Plan, root_box: list, store: dict, want, sel):
    """In-place inspection of what a SIGKILL at this boundary leaves on disk."""
    names = plan.names()

    def inspect(idx: int, b: dict) -> None:
        if not sel(idx):
            return
        root = root_box[0]
        ph = b['phase']
        allowed = (plan.contents[ph], plan.contents[ph + 1])
        full = os.path.join(root, plan.dest)
        got = read_file(full)
        ctx.label('pt:crash')
        ctx.count()      # one enumerated (scenario, point, kind) execution
        if got != allowed[0] and got != allowed[1]:
            ctx.fail('crash_old_or_new',
                     f'kill at boundary {idx} ({b["at"]} {b["op"]} {b["path"]}, phase {ph}): destination {plan.dest} '
                     f'holds {which(got, names)}; allowed: {which(allowed[0], names)} or {which(allowed[1], names)}',
                     op=b['op'], at=b['at'], boundary=idx)
        for rel, data in plan.initial.items():
            if rel == plan.dest:
                continue
            cur = read_file(os.path.join(root, rel))
            if cur != data:
                ctx.fail('crash_other_file_changed',
                         f'kill at boundary {idx} ({b["at"]} {b["op"]} {b["path"]}): pre-existing file {rel} is now '
                         f'{short(cur)}, was {short(data)}', op=b['op'], boundary=idx, changed=rel)
        if want(idx):
            store[idx] = digest(snapshot(root))
    return inspect


def faulted_run_inspector(ctx, plan: Plan, root: str, what: str):
    """Kill points inside a run that handles an injected error: the destination is still old or new."""
    if plan.kind == 'bsp':
        return None        # 480 boundaries x 800 KiB per faulted run: covered by the small scenarios instead
    names = plan.names()
    full = os.path.join(root, plan.dest)

    def inspect(idx: int, b: dict) -> None:
        ph = b['phase']
        got = read_file(full)
        ctx.label('pt:crash_in_faulted_run')
        if got != plan.contents[ph] and got != plan.contents[ph + 1]:
            ctx.fail('crash_old_or_new',
                     f'run with {what}: kill at its boundary {idx} ({b["at"]} {b["op"]} {b["path"]}, phase {ph}): '
                     f'destination {plan.dest} holds {which(got, names)}; allowed: '
                     f'{which(plan.contents[ph], names)} or {which(plan.contents[ph + 1], names)}',
                     op=b['op'], at=b['at'], boundary=idx, faulted=what)
    return inspect


def fork_kill(plan: Plan, root: str, idx: int) -> dict:
    """Really run the scenario in a forked child that dies at boundary idx; return the directory digest."""
    pid = os.fork()
    if pid == 0:
        code = 96
        try:
            run_once(plan, root, Recorder({'at': idx, 'act': 'kill'}))
        except BaseException:
            code = 98
        finally:
            os._exit(code)
    _, status = os.waitpid(pid, 0)
    if not os.WIFEXITED(status) or os.WEXITSTATUS(status) != 137:
        raise HarnessError(f'fork-kill child for boundary {idx} ended with status {status:#x} instead of exit 137')
    return digest(snapshot(root))


def only_ok(desc, kind, at=None, act=None, op=None) -> bool:
    """desc['only'] = {'kind', 'at'?, 'act'?, 'ops'?} restricts a replay to some points (generated cases: None)."""
    o = desc.get('only')
    if not o:
        return True
    if o.get('kind') != kind:
        return False
    if op is not None and o.get('ops') is not None and op not in o['ops']:
        return False
    if at is not None and o.get('at') is not None and o['at'] != at:
        return False
    if act is not None and o.get('act') is not None and o['act'] != act:
        return False
    return True


def classify(desc, plan: Plan, trace: list, ctx) -> None:
    if plan.kind == 'bsp':
        ctx.label('bsp')
        ctx.label('path:' + plan.style)
        if plan.style in ('bare', 'bare_path'):
            ctx.label('bare_name')
    else:
        ctx.label('text' if plan.text else 'bytes')
        ctx.label('old_present' if plan.contents[0] is not None else 'old_absent')
        if desc['nested']:
            ctx.label('nested')
        if any(r.startswith('d/tmp_') for r in plan.initial):
            ctx.label('stale')
        if len(plan.calls) > 1:
            ctx.label('repeat')
        if any(m != 'with' for m in plan.modes):
            ctx.label('abandoned_then_reused')
        if 'abandon2' in plan.modes:
            ctx.label('double_enter')
        if desc['path_style'] in CWD_IN_ROOT + CWD_IN_BASE:
            ctx.label('relative')
        if desc['path_style'] in ('bare', 'bare_path') and not desc['nested']:
            ctx.label('bare_name')
        ctx.label('path:' + desc['path_style'])
        if any(b['op'] == 'write' and b['n'] >= 65536 for b in trace):
            ctx.label('big_write')
        if any(b['op'] == 'seek' for b in trace):
            ctx.label('seek')
    win = window_points(trace)
    distinct = all(plan.contents[i] != plan.contents[i + 1] for i in range(len(plan.contents) - 1)
                   if plan.modes[i] == 'with')
    ctx.nontrivial(bool(win) and distinct)


# tmpfs when there is one: the journalling file system behind /tmp costs 4x the wall time under load; rename/
# unlink/exclusive-create semantics (all that matters here) are those of the VFS either way.
_SCRATCH_BASE = '/dev/shm' if os.path.isdir('/dev/shm') and os.access('/dev/shm', os.W_OK | os.X_OK) else None


class CaseDir:
    """Scratch directory of one case: always removed."""

    def __enter__(self):
        self.path = os.path.realpath(tempfile.mkdtemp(prefix='c12_', dir=_SCRATCH_BASE))
        self.n = 0
        return self

    def fresh(self) -> str:
        self.n += 1
        return os.path.join(self.path, f'r{self.n}')

    def drop(self, root: str) -> None:
        shutil.rmtree(root, ignore_errors=True)

    def __exit__(self, *exc):
        if FaultFS._installed is not None:       # cannot happen (run_once uninstalls in finally); belt and braces
            FaultFS._installed.uninstall()
        shutil.rmtree(self.path, ignore_errors=True)
        if os.path.exists(self.path):
            raise HarnessError(f'scratch directory {self.path} could not be removed')
        return False


def record_trace(plan: Plan, cd: CaseDir, inspect=None, root_box=None):
    root = cd.fresh()
    if root_box is not None:
        root_box[0] = root
    rec = Recorder(None, inspect)
    out = run_once(plan, root, rec)
    if out['exc'] is not None or out['committed'] != len(plan.calls):
        raise HarnessError('un-faulted run did not complete')
    return rec.trace, root


def same_prefix(trace: list, got: list, upto: int, what: str) -> None:
    a = [sig(b) for b in trace[:upto + 1]]
    b = [sig(b) for b in got[:upto + 1]]
    if a != b:
        raise HarnessError(f'{what}: trace is not deterministic up to boundary {upto}: {a} != {b}')


def slice_ok(desc, i: int) -> bool:
    sl = desc.get('slice')
    return not sl or i % sl[1] == sl[0]


# ----------------------------------------------------------------------------------------------------------------
def execute_crash(desc, ctx) -> None:
    plan = Plan(desc)
    with CaseDir() as cd:
        if plan.kind == 'bsp':
            plan.load_bsp(cd.path)
        stride, offset = desc.get('fork', [0, 0])
        store: dict = {}
        box = [None]

        def want(i: int) -> bool:
            return bool(stride) and i % stride == offset and slice_ok(desc, i) and only_ok(desc, 'fork', i)

        insp = crash_inspector(ctx, plan, box, store, want,
                               lambda i: slice_ok(desc, i) and only_ok(desc, 'crash', i))
        trace, root = record_trace(plan, cd, insp, box)
        classify(desc, plan, trace, ctx)
        for i in window_points(trace):
            if slice_ok(desc, i):
                ctx.label('pt:crash_window')
        if plan.kind == 'bsp':
            bad = [f'{i}:{b["op"]}' for i, b in enumerate(trace)
                   if b['op'] in ('open', 'os_open') and b['path'] == plan.dest]
            ctx.check(not bad, 'bsp_opens_dest',
                      f'BSP.save opened the destination {plan.dest} itself for writing at boundaries {bad}')
            if not any(b['op'] in ('replace', 'rename') and b.get('dst') == plan.dest for b in trace):
                ctx.fail('bsp_opens_dest', f'BSP.save never renamed a temporary file onto {plan.dest}: '
                         f'{[sig(b)[:4] for b in trace if b["op"] != "write"][:20]}')
        check_listing(ctx, plan, root, len(plan.calls), 'normal', 'after a normal return')
        cd.drop(root)
        # a sample (thorough: all) of the crash points re-done by a really killed child
        for i in sorted(store):
            root = cd.fresh()
            got = fork_kill(plan, root, i)
            ctx.label('pt:fork_kill')
            ctx.count()      # one enumerated (scenario, point, kind) execution
            if got != store[i]:
                diff = sorted(k for k in set(got) | set(store[i]) if got.get(k) != store[i].get(k))
                raise HarnessError(
                    f'snapshot model differs from a real kill at boundary {i} ({sig(trace[i])}): files {diff}: '
                    f'real={ {k: got.get(k) for k in diff} } model={ {k: store[i].get(k) for k in diff} }')
            cd.drop(root)


def execute_fault(desc, ctx) -> None:
    plan = Plan(desc)
    with CaseDir() as cd:
        if plan.kind == 'bsp':
            plan.load_bsp(cd.path)
        trace, root = record_trace(plan, cd)
        cd.drop(root)
        classify(desc, plan, trace, ctx)
        win = window_points(trace)
        errsel = desc.get('errs')
        for i, b in enumerate(trace):
            if b['at'] != 'pre' or b['op'] == 'end' or not slice_ok(desc, i):
                continue
            if plan.modes[b['phase']] != 'with':
                continue        # nobody handles an error inside a use that is abandoned anyway; kill points only
            for err in ERRS[b['op']]:
                if errsel and err not in errsel:
                    continue
                if not only_ok(desc, 'fault', i, err, b['op']):
                    continue
                root = cd.fresh()
                rec = Recorder({'at': i, 'act': err}, faulted_run_inspector(ctx, plan, root, f'{err}@{i}'))
                out = run_once(plan, root, rec)
                if not rec.fired:
                    raise HarnessError(f'fault at boundary {i} never fired')
                same_prefix(trace, rec.trace, i, f'fault {err}@{i}')
                ctx.label(f'pt:fault:{b["op"]}:{err}')
                ctx.count()      # one enumerated (scenario, point, kind) execution
                if i in win:
                    ctx.label('pt:fault_window')
                what = (f'{err} injected at boundary {i} ({b["op"]} {b["path"]}'
                        f'{" -> " + b["dst"] if b.get("dst") else ""}, phase {b["phase"]})')
                facts = dict(op=b['op'], err=err, boundary=i, natural=b.get('res'))
                if out['exc'] is None:
                    ctx.label('pt:fault_swallowed')
                    check_listing(ctx, plan, root, len(plan.calls), 'normal',
                                  what + ' was swallowed and the with-statement returned normally', **facts)
                else:
                    check_listing(ctx, plan, root, out['failed_phase'], 'fault',
                                  what + f' propagated as {type(out["exc"]).__name__}',
                                  allow=abandoned_allowed(plan, trace, i), **facts)
                cd.drop(root)


def execute_body(desc, ctx) -> None:
    plan = Plan(desc)
    with CaseDir() as cd:
        if plan.kind == 'bsp':
            plan.load_bsp(cd.path)
        trace, root = record_trace(plan, cd)
        cd.drop(root)
        classify(desc, plan, trace, ctx)
        # (1) raised through a write (before any of it / after half of it)
        for i, b in enumerate(trace):
            if b['op'] != 'write' or not slice_ok(desc, i) or not only_ok(desc, 'body', i):
                continue
            if plan.modes[b['phase']] != 'with':
                continue
            for kind in body_kinds(desc, i):
                root = cd.fresh()
                rec = Recorder({'at': i, 'act': 'body', 'exc': kind},
                               faulted_run_inspector(ctx, plan, root, f'body@{i}:{kind}'))
                out = run_once(plan, root, rec)
                if not rec.fired or out['exc'] is None:
                    ctx.fail('body_exception_swallowed',
                             f'{kind} raised by the body at boundary {i} ({b["at"]} write to {b["path"]}) did not '
                             f'propagate out of the with-statement', at=b['at'], boundary=i, exc_kind=kind)
                    cd.drop(root)
                    continue
                same_prefix(trace, rec.trace, i, f'body@{i}')
                ctx.label('pt:body:' + b['at'])
                ctx.label('exc:' + kind)
                ctx.count()      # one enumerated (scenario, point, kind) execution
                check_listing(ctx, plan, root, out['failed_phase'], 'body',
                              f'body left through {type(out["exc"]).__name__} at boundary {i} ({b["at"]} write of '
                              f'{b["n"]} to {b["path"]}, phase {b["phase"]})', at=b['at'], boundary=i, exc_kind=kind)
                cd.drop(root)
        # (2) raised by the body itself before its j-th call / after the last one
        if plan.kind != 'bsp':
            for ph, calls in enumerate(plan.calls):
                if plan.modes[ph] != 'with':
                    continue
                for j in range(len(calls) + 1):
                    if not only_ok(desc, 'body_h', ph * 1000 + j):
                        continue
                    for kind in body_kinds(desc, ph + j):
                        root = cd.fresh()
                        rec = Recorder(None)
                        out = run_once(plan, root, rec, harness_raise=(ph, j), exc_kind=kind)
                        if out['exc'] is None:
                            ctx.fail('body_exception_swallowed',
                                     f'{kind} raised by the body before call {j} of {len(calls)} in phase {ph} did not '
                                     f'propagate out of the with-statement', at='call', boundary=j, exc_kind=kind)
                            cd.drop(root)
                            continue
                        ctx.label('pt:body:call')
                        ctx.label('exc:' + kind)
                        ctx.count()      # one enumerated (scenario, point, kind) execution
                        check_listing(ctx, plan, root, out['failed_phase'], 'body',
                                      f'body left through {type(out["exc"]).__name__} before call {j} of {len(calls)} '
                                      f'in phase {ph}', at='call', boundary=j, exc_kind=kind)
                        cd.drop(root)


# ----------------------------------------------------------------------------------------------------------------
# two writers

class Sched:
    """Token-passing scheduler: exactly one writer thread runs between two boundaries.

    schedule[k] names the thread that executes the k-th boundary-to-boundary segment.  Entries of finished
    threads are skipped; when the schedule is exhausted the live threads alternate.
    """

    def __init__(self, schedule, n: int) -> None:
        self.cv = threading.Condition()
        self.schedule = list(schedule)
        self.pos = 0
        self.n = n
        self.done = [False] * n
        self.cur = None
        self.last = n - 1
        self.skipped = 0
        self.fallback = 0
        self.order: list = []
        self.stalled = False

    def _runner(self):
        while self.pos < len(self.schedule) and self.done[self.schedule[self.pos]]:
            self.pos += 1
            self.skipped += 1
        if self.pos < len(self.schedule):
            return self.schedule[self.pos]
        for k in range(1, self.n + 1):
            t = (self.last + k) % self.n
            if not self.done[t]:
                return t
        return None

    def _wait(self, pred) -> None:
        while not pred():
            if not self.cv.wait(120):
                self.stalled = True
                self.cv.notify_all()
                raise HarnessError('scheduler stalled')
            if self.stalled:
                raise HarnessError('scheduler stalled')

    def begin(self, t: int) -> None:
        with self.cv:
            self._wait(lambda: self.cur is None)
            self.cur = t

    def boundary(self, t: int) -> None:
        with self.cv:
            if self.cur == t:
                self.cur = None
                self.cv.notify_all()
            self._wait(lambda: self.cur is None and self._runner() == t)
            if self.pos < len(self.schedule):
                self.pos += 1
            else:
                self.fallback += 1
            self.last = t
            self.cur = t
            self.order.append(t)

    def finish(self, t: int) -> None:
        with self.cv:
            self.done[t] = True
            if self.cur == t:
                self.cur = None
            self.cv.notify_all()


# Destination names of the two writers: different files, but the names may be RELATED - same stem and another
# extension (a map and its lump patch), one name a prefix of the other, extension-less, differing in case only,
# several dots.  All are ordinary names (never tmp_<n>); whatever the writer derives its temporary name from, two
# different destinations must never end up sharing a temporary.
NAME_PAIRS = [
    ('a.bin', 'b.bin'),
    ('level.bsp', 'level.lmp'),
    ('map.bsp', 'map.bsp.bak'),
    ('data', 'data.bin'),
    ('Level.bsp', 'level.bsp'),
    ('pack.v1.dat', 'pack.v2.dat'),
    ('out.txt', 'out'),
    ('.cfg', '.cfg.old'),
]


def _is_reserved(name: str) -> bool:
    return name.startswith('tmp_') and name[4:].isdigit()


class TwoPlan:
    """Two writer jobs; each job is 1-2 consecutive uses of ONE AtomicWriter object (documented as repeatable)."""

    def __init__(self, desc: dict) -> None:
        self.desc = desc
        self.nested = bool(desc.get('nested'))
        self.parent = 'd/sub' if self.nested else 'd'
        self.initial = {'d/keep.dat': blob(3, 20)}
        if not self.nested:
            for k in sorted(set(desc.get('stale', []))):
                self.initial[f'd/tmp_{k}'] = blob(50 + k, 11)
        self.writers = []
        names = list(desc.get('names') or NAME_PAIRS[0])
        if len(names) != 2 or names[0] == names[1] or any(_is_reserved(n) for n in names):
            raise HarnessError(f'two-writer destination names must be two different ordinary file names: {names}')
        self.related = names != list(NAME_PAIRS[0])
        for k, w in enumerate(desc['writers']):
            name = names[k]
            dest = self.parent + '/' + name
            seed = w['seed'] * 2 + k
            old = None
            if w['old'] is not None and not self.nested:
                old = blob(seed + 17, w['old'])
                self.initial[dest] = old
            text = bool(w['text'])
            uses = []
            final = old
            versions = {'own old': old}
            for u, use in enumerate(w['uses']):
                us = seed + 1000 * u
                chunks = [text_blob(us + 31 * (j + 1), n) if text else blob(us + 31 * (j + 1), n)
                          for j, n in enumerate(use['chunks'])]
                new = ''.join(chunks).encode('utf8') if text else b''.join(chunks)
                fail_at = use.get('fail_at')
                if fail_at is not None:
                    fail_at = min(fail_at, len(chunks))
                else:
                    final = new
                    versions[f'own new (use {u + 1})'] = new
                uses.append({'chunks': chunks, 'new': new, 'fail_at': fail_at, 'fail_kind': use.get('fail_kind')})
            self.writers.append({'dest': dest, 'old': old, 'text': text, 'uses': uses, 'final': final,
                                 'versions': versions})

    def populate(self, root: str) -> None:
        os.makedirs(os.path.join(root, 'd'), exist_ok=True)
        for rel, data in self.initial.items():
            with _R_OPEN(os.path.join(root, rel), 'wb') as f:
                f.write(data)


def run_two(plan: TwoPlan, root: str, schedule, only=None):
    """Run the writer jobs (all, or just job `only`) on threads under the scheduler.

    Returns (sched, traces, problems, events); events = global order of (writer, boundary record).
    """
    os.mkdir(root)
    plan.populate(root)
    n = len(plan.writers)
    sched = Sched(schedule, n)
    traces = [[] for _ in range(n)]
    events: list = []
    problems: list = []
    errors = [None] * n
    local = threading.local()
    # per writer: what is committed, and what the use in progress would commit (None: nothing / a failing use).
    # Only the owning thread updates its entry, between two of its own boundaries, i.e. while it holds the token.
    state = [{'committed': w['old'], 'cand': None, 'has_cand': False} for w in plan.writers]

    def hook(b):
        t = getattr(local, 'wid', None)
        if t is None:
            raise HarnessError(f'boundary {b} on a thread that is not a writer')
        sched.boundary(t)
        b['use'] = local.use
        traces[t].append(b)
        events.append((t, b))
        # inspection while holding the token: nobody else is running
        for k, w in enumerate(plan.writers):
            got = read_file(os.path.join(root, w['dest']))
            stt = state[k]
            ok = got == stt['committed'] or (stt['has_cand'] and got == stt['cand'])
            if not ok and not problems:
                names = dict(w['versions'])
                for kk, vv in plan.writers[1 - k]['versions'].items():
                    names['the other writer\'s ' + kk[4:]] = vv
                problems.append((
                    'two_boundary_old_or_new',
                    f'at boundary #{len(sched.order)} (writer {t} use {local.use + 1}: {b["at"]} {b["op"]} {b["path"]}) '
                    f'destination {w["dest"]} holds {which(got, names)}; allowed: {which(stt["committed"], names)}'
                    + (f' or {which(stt["cand"], names)}' if stt['has_cand'] else '')
                    + f'; order so far {"".join(map(str, sched.order))}'))
        for rel, data in plan.initial.items():
            if rel.startswith('d/tmp_') or rel == 'd/keep.dat':
                if read_file(os.path.join(root, rel)) != data and not problems:
                    problems.append(('two_other_file_changed', f'pre-existing file {rel} changed'))
        return None

    fs = FaultFS(root, hook)
    bare = plan.desc.get('path_style') == 'bare'

    def work(t: int) -> None:
        local.wid = t
        local.use = 0
        w = plan.writers[t]
        try:
            sched.begin(t)
            from srctools import AtomicWriter
            full = os.path.join(fs.root, w['dest'])
            if bare:
                full = w['dest'][2:]              # relative to the directory 'd' both writers work in (cwd)
            writer = AtomicWriter(full, is_bytes=False) if w['text'] else AtomicWriter(full, is_bytes=True)
            for u, use in enumerate(w['uses']):
                local.use = u
                mine = make_body_exc(use['fail_kind'], f'writer {t} fails in use {u + 1}')
                fails = use['fail_at'] is not None
                state[t]['cand'] = None if fails else use['new']
                state[t]['has_cand'] = not fails
                try:
                    with writer as f:
                        for j, chunk in enumerate(use['chunks']):
                            if use['fail_at'] == j:
                                raise mine
                            f.write(chunk)
                        if use['fail_at'] == len(use['chunks']):
                            raise mine
                except BaseException as exc:
                    if exc is not mine:
                        raise
                else:
                    state[t]['committed'] = use['new']
                state[t]['has_cand'] = False
        except BaseException as exc:
            errors[t] = exc
        finally:
            sched.finish(t)

    threads = [threading.Thread(target=work, args=(t,), name=f'c12-writer-{t}') for t in range(n)
               if only is None or t == only]
    if only is not None:
        for t in range(n):
            if t != only:
                sched.done[t] = True
    cwd = os.getcwd()
    fs.install()
    try:
        if bare:
            os.chdir(os.path.join(fs.root, 'd'))    # before the threads start; process-wide, restored below
        for th in threads:
            th.start()
        for th in threads:
            th.join()
    finally:
        fs.uninstall()
        if os.getcwd() != cwd:
            os.chdir(cwd)
    for e in errors:
        if isinstance(e, HarnessError):
            raise e
    if problems:
        # the state on disk is the primary evidence; an exception that follows from it is reported second
        return sched, traces, problems, events
    for e in errors:
        if e is not None:
            raise e
    return sched, traces, problems, events


def reuse_classes(events: list) -> set:
    """Did a writer start its second use while the other one was inside its with-statement (held a temp file)?

    'two:reuse_interleaved': yes; 'two:reuse_released_name': and the other's temp has the name the first use freed.
    """
    res = set()
    holds = {}            # writer -> temp path currently open/owned
    used = {}             # writer -> temp names its earlier uses had
    seen_use = {}
    for t, b in events:
        if b['use'] >= 1 and seen_use.get(t, 0) < b['use']:
            seen_use[t] = b['use']
            other = 1 - t
            if holds.get(other):
                res.add('two:reuse_interleaved')
                if holds[other] in used.get(t, ()):
                    res.add('two:reuse_released_name')
        if b['op'] == 'open' and 'res' not in b:
            holds[t] = b['path']
            used.setdefault(t, set()).add(b['path'])
        elif b['op'] in ('replace', 'rename', 'unlink') and b['path'] == holds.get(t):
            holds[t] = None
    return res


def execute_two(desc, ctx) -> None:
    plan = TwoPlan(desc)
    with CaseDir() as cd:
        root = cd.fresh()
        sched, traces, problems, events = run_two(plan, root, desc['schedule'])
        order = sched.order
        switches = sum(1 for a, b in zip(order, order[1:]) if a != b)
        strict = desc.get('strict')
        first = {t: order.index(t) for t in set(order)}
        last = {t: len(order) - 1 - order[::-1].index(t) for t in set(order)}
        overlap = len(first) == 2 and first[0] < last[1] and first[1] < last[0]
        if strict:
            valid = sched.skipped == 0 and sched.fallback == 0 and sched.pos == len(sched.schedule)
            ctx.label('schedule_valid' if valid else 'schedule_duplicate')
            ctx.nontrivial(valid)
        else:
            ctx.nontrivial(overlap and switches >= 2)
        ctx.label('overlap' if overlap else 'sequential')
        for _ in order:
            ctx.label('pt:two_boundary')
        if any(b['op'] == 'open' and b.get('res') == 'FileExistsError' and not b['path'] in plan.initial
               for tr in traces for b in tr):
            ctx.label('temp_name_contention')
        if any(u['fail_at'] is not None for w in plan.writers for u in w['uses']):
            ctx.label('one_writer_fails')
        if any(len(w['uses']) > 1 for w in plan.writers):
            ctx.label('two:reuse')
        if desc.get('path_style') == 'bare':
            ctx.label('bare_name' if not plan.nested else 'relative')
        for w in plan.writers:
            for u in w['uses']:
                if u['fail_at'] is not None and u['fail_kind'] not in (None, 'Exception'):
                    ctx.label('exc:non_Exception')
        for lab in sorted(reuse_classes(events)):
            ctx.label(lab)
        if plan.nested:
            ctx.label('nested')
        if plan.related:
            ctx.label('two:related_names')
            if overlap:
                ctx.label('two:related_names_overlap')
        if problems:
            ctx.fail(problems[0][0], problems[0][1] + f' schedule={"".join(map(str, desc["schedule"]))}')
        got = snapshot(root)
        exp = dict(plan.initial)
        for k, w in enumerate(plan.writers):
            if w['final'] is not None:
                exp[w['dest']] = w['final']
            names = dict(w['versions'])
            for kk, vv in plan.writers[1 - k]['versions'].items():
                names['the other writer\'s ' + kk[4:]] = vv
            if got.get(w['dest']) != w['final']:
                ctx.fail('two_final',
                         f'after both writers finished (order {"".join(map(str, order))}) {w["dest"]} holds '
                         f'{which(got.get(w["dest"]), names)}, expected {which(w["final"], names)}')
        extra = sorted(set(got) - set(exp))
        if extra:
            ctx.fail('two_temp_left', f'after both writers finished (order {"".join(map(str, order))}) files left: {extra}')
        for rel, data in exp.items():
            if got.get(rel) != data:
                ctx.fail('two_other_file_changed', f'file {rel} changed: {short(got.get(rel))}')


# ----------------------------------------------------------------------------------------------------------------
# BSP.save histories over DIFFERENT BSP objects/files in one process: [failing save of map A] [save of map B] ...

HIST_IDS = [b'aaaa', b'bbbb', b'cccc', b'dddd', b'eeee']
HIST_LUMPS = ['ENTITIES', 'PLANES', 'VERTEXES', 'VISIBILITY', 'TEXDATA_STRING_DATA', 'LIGHTING', 'PAKFILE']


def minimal_bsp(rev: int) -> bytes:
    """An empty version-20 BSP: header, 64 empty lumps (the game lump holds an empty table), the map revision."""
    import struct
    header = 8 + 64 * 16 + 4
    lumps = b''.join(struct.pack('<iiii', header, 4, 0, 0) if i == 35 else bytes(16) for i in range(64))
    return b'VBSP' + struct.pack('<i', 20) + lumps + struct.pack('<i', rev) + struct.pack('<i', 0)


def build_map(case_dir: str, k: int, m: dict):
    """A BSP object made from the descriptor, and what a plain save of it writes (computed before any failure)."""
    from srctools.bsp import BSP, BSP_LUMPS, GameLump
    seed_path = os.path.join(case_dir, f'seed{k}.bsp')
    with _R_OPEN(seed_path, 'wb') as f:
        f.write(minimal_bsp(m['rev']))
    bsp = BSP(seed_path)
    _R_UNLINK(seed_path)
    for j, (li, size) in enumerate(m['lumps']):
        bsp.lumps[BSP_LUMPS[HIST_LUMPS[li % len(HIST_LUMPS)]]].data = blob(m['rev'] * 50 + j, 5 + size)
    for j, (gi, ver, size) in enumerate(m['game']):
        gid = HIST_IDS[gi % len(HIST_IDS)]
        bsp.game_lumps[gid] = GameLump(gid, 0, ver, blob(m['rev'] * 70 + j, 5 + size))
    ref_dir = os.path.join(case_dir, f'ref{k}')
    _R_MKDIR(ref_dir)
    ref = os.path.join(ref_dir, 'ref.bsp')
    bsp.save(ref)
    new = read_file(ref)
    bsp.save(ref)
    if read_file(ref) != new:
        raise HarnessError('BSP.save is not repeatable on the same object; reference contents are ambiguous')
    shutil.rmtree(ref_dir)
    return bsp, new


def hist_action(desc, trace: list, i: int):
    """The failure used at boundary i of map A's save (None: not selected)."""
    stride, offset = desc['stride']
    b = trace[i]
    if i % stride != offset or b['op'] == 'end':
        return None
    r = i // stride + desc['rot']
    if b['at'] == 'mid':
        return {'at': i, 'act': 'body', 'exc': EXC_KINDS[r % len(EXC_KINDS)]}
    acts = list(ERRS[b['op']])
    if b['op'] == 'write':
        acts += ['body:' + k for k in EXC_KINDS]
    act = acts[r % len(acts)]
    if act.startswith('body:'):
        return {'at': i, 'act': 'body', 'exc': act[5:]}
    return {'at': i, 'act': act}


def execute_hist(desc, ctx) -> None:
    with CaseDir() as cd:
        built = [build_map(cd.path, k, m) for k, m in enumerate(desc['maps'])]
        bsps = [b for b, _ in built]
        news = [n for _, n in built]
        dests = ['d/a.bsp', 'd/b.bsp']
        olds = [minimal_bsp(900 + k) + blob(k, 33 * k) for k in range(2)]
        initial = {'d/keep.dat': blob(8, 21), dests[0]: olds[0], dests[1]: olds[1]}
        ids = [set(b.game_lumps) for b in bsps]
        ctx.label('hist:A_has_id_B_lacks' if ids[0] - ids[1] else 'hist:ids_subset')

        def populate(root: str) -> None:
            os.mkdir(root)
            os.mkdir(os.path.join(root, 'd'))
            for rel, data in initial.items():
                with _R_OPEN(os.path.join(root, rel), 'wb') as f:
                    f.write(data)

        def save(k: int, root: str, rec: Recorder):
            """One BSP.save under FaultFS; returns the injected exception it propagated, or None."""
            fs = FaultFS(root, rec, meta=True)
            fs.install()
            try:
                bsps[k].save(os.path.join(fs.root, dests[k]))
            except BaseException as exc:
                if not rec.is_mine(exc):
                    raise
                return exc
            finally:
                fs.uninstall()
            return None

        def expect(root: str, state: list, what: str, **facts) -> None:
            exp = dict(initial)
            for k in range(2):
                exp[dests[k]] = state[k]
            got = snapshot(root)
            for k in range(2):
                if got.get(dests[k]) != state[k]:
                    names = {'old': olds[k], 'complete new': news[k]}
                    ctx.fail('hist_dest', f'{what}: {dests[k]} holds {which(got.get(dests[k]), names)}, expected '
                             f'{which(state[k], names)}' + diff_note(got.get(dests[k]), state[k]), which=k, **facts)
            extra = sorted(set(got) - set(exp))
            if extra:
                ctx.fail('hist_temp_left', f'{what}: file(s) left behind: {extra}', **facts)
            if got.get('d/keep.dat') != initial['d/keep.dat']:
                ctx.fail('hist_other_file_changed', f'{what}: d/keep.dat changed', **facts)

        # trace of map A's save (un-faulted), to enumerate its points
        root = cd.fresh()
        populate(root)
        rec = Recorder()
        if save(0, root, rec) is not None:
            raise HarnessError('un-faulted save failed')
        trace = rec.trace
        expect(root, [news[0], olds[1]], 'after a plain save of map A')
        cd.drop(root)
        fours = [i for i, b in enumerate(trace) if b['op'] == 'write' and b['at'] == 'pre' and b['n'] == 4]
        gl_start = fours[1] if len(fours) > 1 else len(trace)      # revision, then the game-lump count
        hit_late = False
        for i in range(len(trace)):
            act = hist_action(desc, trace, i)
            if act is None:
                continue
            root = cd.fresh()
            populate(root)
            rec = Recorder(act)
            exc = save(0, root, rec)
            if not rec.fired:
                raise HarnessError(f'history: failure at boundary {i} never fired')
            same_prefix(trace, rec.trace, i, f'hist {act}')
            b = trace[i]
            how = f'save of map A with {act.get("exc") or act["act"]} at boundary {i} ({b["at"]} {b["op"]})'
            ctx.label('pt:hist')
            ctx.count()
            state = [olds[0] if exc is not None else news[0], olds[1]]
            if exc is not None:
                ctx.label('pt:hist_failed_save')
                if i > gl_start:
                    ctx.label('pt:hist_fail_after_gamelump_table')
                    hit_late = True
            expect(root, state, how + (' failed' if exc is not None else ' swallowed the error'), boundary=i)
            for k in desc['then']:
                # a later complete save of a (different) map; nothing of the failed one may leak into it
                if save(k, root, Recorder()) is not None:
                    raise HarnessError('un-faulted save failed')
                state[k] = news[k]
                expect(root, state, how + f'; then a complete save of map {"AB"[k]}', boundary=i, later=k)
            cd.drop(root)
        ctx.nontrivial(bool(ids[0] - ids[1]) and hit_late and news[0] != news[1])


def diff_note(got, want) -> str:
    if got is None or want is None or got == want:
        return ''
    if len(got) != len(want):
        return f' (length {len(got)} vs {len(want)})'
    bad = [j for j in range(len(got)) if got[j] != want[j]]
    return f' ({len(bad)} differing bytes, first at offset {bad[0]})'


def hist_strategy(tier: str):
    gl = st.lists(st.tuples(st.integers(0, 4), st.integers(0, 3), st.integers(0, 300)).map(list),
                  min_size=0, max_size=4, unique_by=lambda t: t[0])
    lumps = st.lists(st.tuples(st.integers(0, 6), st.integers(0, 3000)).map(list), max_size=4,
                     unique_by=lambda t: t[0])
    amap = st.fixed_dictionaries({'rev': st.integers(1, 60), 'lumps': lumps, 'game': gl})
    stride = 9 if tier == 'quick' else 3
    return st.fixed_dictionaries({
        'maps': st.tuples(amap, amap).map(list),
        'stride': st.integers(0, stride - 1).map(lambda o: [stride, o]),
        'rot': st.integers(0, 7),
        'then': st.sampled_from([[1], [1], [1, 0], [1, 1]]),
    })


# ----------------------------------------------------------------------------------------------------------------
# generators

SIZES_SMALL = st.integers(0, 40)
SIZES_EDGE = st.sampled_from([4095, 4096, 4097, 8191, 8192, 8193, 12289, 16384])


def size_strategy(tier: str):
    big = st.integers(20000, 204800)
    return st.one_of(SIZES_SMALL, SIZES_SMALL, SIZES_EDGE, st.integers(41, 20000), big)


def body_strategy(tier: str, text: bool):
    size = size_strategy(tier)
    w = st.tuples(st.just('w'), size).map(list)
    f = st.just(['f'])
    if text:
        op = st.one_of(w, w, w, f)
    else:
        s = st.tuples(st.just('s'), st.integers(0, 1000)).map(list)
        t = st.tuples(st.just('t'), st.integers(0, 1000)).map(list)
        op = st.one_of(w, w, w, w, f, s, t)
    # the number of calls is drawn first so that bodies with several writes are common (lists default to short)
    return st.sampled_from([0, 1, 1, 2, 2, 3, 3, 4, 5, 6]).flatmap(lambda n: st.lists(op, min_size=n, max_size=n))


def scenario_strategy(tier: str):
    @st.composite
    def scn(draw):
        text = draw(st.booleans())
        nested = draw(st.sampled_from([0, 0, 0, 1, 2]))
        nb = draw(st.sampled_from([1, 1, 1, 2, 2, 3]))
        modes = [draw(st.sampled_from(['with', 'with', 'abandon', 'abandon2'])) for _ in range(nb - 1)] + ['with']
        stride = 8 if tier == 'quick' else 1
        return {
            'kind': 'writer',
            'name': draw(st.sampled_from(['a.bin', 'out.txt', 'map.bsp', 'donn\xe9es x.dat', 'tmp'])),
            'path_style': draw(st.sampled_from(PATH_STYLES + ['bare', 'bare_path'])),
            'exc': {'all': tier != 'quick', 'off': draw(st.integers(0, 3))},
            'nested': nested,
            'stale': draw(st.lists(st.integers(1, 4), max_size=3)) if nested == 0 else [],
            'stale_size': draw(st.integers(0, 30)),
            'old': draw(st.one_of(st.none(), size_strategy(tier), size_strategy(tier))),
            'text': text,
            'enc': draw(st.sampled_from(['utf8', 'utf16'])) if text else 'utf8',
            'bodies': [draw(body_strategy(tier, text)) for _ in range(nb)],
            'modes': modes,
            'seed': draw(st.integers(0, 999)),
            'fork': [stride, draw(st.integers(0, stride - 1))],
            'only': None,
        }
    return scn()


BSP_STYLES = ['bare', 'str', 'dot', 'path', 'bare_path', 'rel', 'updir', 'abs_dot']


def bsp_cases(n_slices: int, fork_stride: int, errs=None):
    def gen(tier):
        for m in range(n_slices):
            d = {'kind': 'bsp', 'bsp': 'rot_main.bsp', 'name': 'rot_main.bsp', 'bump': 1,
                 'slice': [m, n_slices], 'fork': [fork_stride, m % max(fork_stride, 1)] if fork_stride else [0, 0],
                 # the spelling of the file name rotates over the slices (every slice records a full trace)
                 'path_style': BSP_STYLES[m % len(BSP_STYLES)],
                 'exc': {'all': tier != 'quick', 'off': m, 'div': n_slices},
                 'only': None}
            if errs:
                d['errs'] = errs
            yield d
    return gen


def bsp_enum(tier: str):
    if tier == 'quick':
        return bsp_cases(8, 16)(tier)
    return bsp_cases(16, 1)(tier)


def _use(chunks, fail_at=None):
    return {'chunks': list(chunks), 'fail_at': fail_at}


MINI_OK = {'old': 5, 'text': False, 'seed': 1, 'uses': [_use([9])]}
MINI_FAIL = {'old': 5, 'text': False, 'seed': 2, 'uses': [_use([9], 0)]}
MINI_OK_OK = {'old': 5, 'text': False, 'seed': 3, 'uses': [_use([9]), _use([7])]}
MINI_FAIL_OK = {'old': 5, 'text': False, 'seed': 4, 'uses': [_use([9], 0), _use([7])]}


def solo_len(two_desc: dict, k: int) -> int:
    """Number of boundaries writer job k of the descriptor produces when it runs alone."""
    plan = TwoPlan(two_desc)
    with CaseDir() as cd:
        _, traces, _, _ = run_two(plan, cd.fresh(), [], only=k)
    return len(traces[k])


def block_merges(a: int, b: int) -> list:
    """Merges of a zeros and b ones in which the ones form at most two blocks: writer 1 starts at any boundary
    of writer 0, is pre-empted at any of its own boundaries, and resumes at any later boundary of writer 0."""
    out = set()
    for p in range(b + 1):
        for i in range(a + 1):
            for j in range(i, a + 1):
                out.add((0,) * i + (1,) * p + (0,) * (j - i) + (1,) * (b - p) + (0,) * (a - j))
    return sorted(out)


def two_enum(tier: str):
    """(1) ALL merges of the two boundary traces of the minimal single-use writers; (2) for a writer object that is
    used twice (12 boundaries; all merges would be 18 564 > 5 000) all merges in which the other writer runs in
    at most two blocks - it may start at any boundary of the first, including between its two uses.

    Contention for tmp_1 gives the later opener one extra boundary (the failed exclusive open), so merges are
    generated for (n0, n1), (n0+1, n1) and (n0, n1+1); a string that is not consumed exactly is a duplicate of
    another one and is counted as such ('schedule_duplicate', trivial).
    """
    for g, (pair, full) in enumerate((([MINI_OK, MINI_OK], True), ([MINI_FAIL, MINI_OK], True),
                                      ([MINI_OK_OK, MINI_OK], False), ([MINI_FAIL_OK, MINI_OK], False))):
        base = {'writers': [dict(pair[0]), dict(pair[1], seed=pair[1]['seed'] + 10)], 'nested': False, 'stale': [],
                'strict': True}
        if g:       # the destination names of groups 1-3 are related (same stem / prefix / no extension)
            base['names'] = list(NAME_PAIRS[g])
        n0 = solo_len(dict(base, schedule=[]), 0)
        n1 = solo_len(dict(base, schedule=[]), 1)
        for a, b in ((n0, n1), (n0 + 1, n1), (n0, n1 + 1)):
            if full:
                for zeros in itertools.combinations(range(a + b), a):
                    sch = [1] * (a + b)
                    for z in zeros:
                        sch[z] = 0
                    yield dict(base, schedule=sch)
            else:
                for sch in block_merges(a, b):
                    yield dict(base, schedule=list(sch))


def _expand_runs(runs) -> list:
    out: list = []
    for t, n in runs:
        out.extend([t] * n)
    return out[:60]


def two_strategy(tier: str):
    use = st.fixed_dictionaries({
        'chunks': st.lists(st.one_of(st.integers(0, 30), st.integers(0, 30000)), min_size=0, max_size=3),
        'fail_at': st.one_of(st.none(), st.none(), st.none(), st.integers(0, 3)),
        'fail_kind': st.sampled_from(EXC_KINDS),
    })

    def writer():
        return st.fixed_dictionaries({
            'old': st.one_of(st.none(), st.integers(0, 9000)),
            'text': st.booleans(),
            'uses': st.lists(use, min_size=1, max_size=2),
            'seed': st.integers(0, 99),
        })
    # bit strings switch all the time; run-length schedules let one writer finish a whole use (or two) before the
    # other one moves, which is what it takes to interleave with a re-used writer object
    bits = st.lists(st.integers(0, 1), min_size=0, max_size=40)
    runs = st.lists(st.tuples(st.integers(0, 1), st.integers(1, 9)), min_size=0, max_size=10).map(_expand_runs)
    return st.fixed_dictionaries({
        'writers': st.tuples(writer(), writer()).map(list),
        'nested': st.sampled_from([False, False, True]),
        'stale': st.lists(st.integers(1, 3), max_size=2),
        'schedule': st.one_of(bits, runs, runs),
        'path_style': st.sampled_from(['abs', 'abs', 'bare']),
        'names': st.sampled_from([NAME_PAIRS[0]] + NAME_PAIRS).map(list),
        'strict': st.just(False),
    })


def extra_evidence() -> dict:
    return {
        'point_counting': (
            'each evaluation of crash/fault/body/bsp_* is one scenario (or BSP slice) inside which every boundary / '
            'operation x errno / write of the recorded trace is run; the histogram classes pt:crash, pt:fork_kill, '
            'pt:fault:<op>:<errno>, pt:body:<pre|mid|call>, pt:two_boundary count these distinct (scenario, point, '
            'kind) runs'),
    }


SUBCHECKS = [
    Sub('crash', execute_crash, strategy=scenario_strategy, quick=640, thorough=12000, floor=100, quick_shards=8,
        must_hit=('text', 'bytes', 'old_present', 'old_absent', 'nested', 'stale', 'repeat', 'abandoned_then_reused',
                  'double_enter', 'relative', 'big_write', 'bare_name', 'path:bare_path', 'path:dot', 'path:updir',
                  'path:abs_dotdot', 'path:rel_dot',
                  'seek', 'pt:crash', 'pt:crash_window', 'pt:fork_kill')),
    Sub('fault', execute_fault, strategy=scenario_strategy, quick=480, thorough=16000, floor=80, quick_shards=8,
        must_hit=('text', 'bytes', 'old_present', 'old_absent', 'nested', 'stale', 'repeat', 'abandoned_then_reused',
                  'double_enter', 'bare_name', 'path:bare_path', 'path:dot', 'path:updir',
                  'pt:fault:open:ENOSPC', 'pt:fault:write:partial', 'pt:fault:write:EIO', 'pt:fault:close:ENOSPC',
                  'pt:fault:close:EIO', 'pt:fault:replace:EXDEV', 'pt:fault:replace:EACCES', 'pt:fault:mkdir:EACCES',
                  'pt:fault:flush:ENOSPC', 'pt:fault:seek:EIO', 'pt:fault:stat:EIO', 'pt:fault_window')),
    Sub('body', execute_body, strategy=scenario_strategy, quick=640, thorough=16000, floor=100, quick_shards=8,
        must_hit=('text', 'bytes', 'old_present', 'old_absent', 'nested', 'stale', 'repeat', 'abandoned_then_reused',
                  'double_enter', 'bare_name', 'exc:Exception', 'exc:KeyboardInterrupt', 'exc:SystemExit',
                  'exc:GeneratorExit', 'exc:BaseException',
                  'pt:body:pre', 'pt:body:mid', 'pt:body:call')),
    Sub('bsp_crash', execute_crash, enumerate=bsp_enum, floor=1, enum_counts_distinct=True,
        quick_shards=8, must_hit=('bsp', 'bare_name', 'path:dot', 'pt:crash', 'pt:crash_window', 'pt:fork_kill')),
    Sub('bsp_fault', execute_fault, enumerate=bsp_enum, floor=1, quick_shards=8,
        must_hit=('bsp', 'pt:fault:close:ENOSPC', 'pt:fault:replace:EXDEV', 'pt:fault:write:partial', 'pt:fault:seek:EIO')),
    Sub('bsp_body', execute_body, enumerate=bsp_enum, floor=1, quick_shards=8,
        must_hit=('bsp', 'bare_name', 'pt:body:pre', 'pt:body:mid', 'exc:KeyboardInterrupt', 'exc:SystemExit',
                  'exc:GeneratorExit', 'exc:BaseException')),
    Sub('bsp_history', execute_hist, strategy=hist_strategy, quick=64, thorough=2000, floor=10, quick_shards=8,
        must_hit=('hist:A_has_id_B_lacks', 'pt:hist_failed_save', 'pt:hist_fail_after_gamelump_table')),
    Sub('two_enum', execute_two, enumerate=two_enum, floor=1500, quick_shards=8,
        must_hit=('schedule_valid', 'temp_name_contention', 'one_writer_fails', 'two:reuse_interleaved',
                  'two:reuse_released_name', 'two:related_names_overlap')),
    Sub('two_random', execute_two, strategy=two_strategy, quick=3200, thorough=50000, floor=500, quick_shards=8,
        must_hit=('overlap', 'temp_name_contention', 'one_writer_fails', 'nested', 'two:reuse_interleaved',
                  'two:reuse_released_name', 'bare_name', 'exc:non_Exception', 'two:related_names_overlap')),
]

MATCHERS = {}

LEVEL_TEXT = (
    'Fault enumeration: for every generated scenario (and for BSP.save of the sample map) every file-system '
    'operation boundary of the recorded trace is used as a kill point (on-disk state inspected in place; a sample - '
    'thorough: all - re-validated by a forked child that is really killed there), every operation as a fault point '
    'for each applicable errno, every write as a body-exception point; all merges of two minimal writers\' traces '
    'plus Hypothesis-drawn schedules for larger ones.  Exhaustive over the points of each explored trace, '
    'exploratory over scenarios.')
LEVEL_NOTE = (
    'Trusts the harness FaultFS (Python-level proxy over the real buffered file objects; operations = Python-level '
    'open/write/flush/seek/truncate/close and os-level replace/rename/unlink/mkdir/fsync and, in single-writer runs, the metadata calls stat/lstat/access/chmod/chown/utime/link/symlink), the SIGKILL model (validated '
    'against real forked kills), single-fault semantics and Linux file-system behaviour (scratch directories are '
    'tempfile.mkdtemp() per case on /dev/shm when present, else the default temp dir); no power-loss/fsync model.')
TECHNIQUE = ('fault injection with exhaustive crash/fault-point enumeration per trace (Hypothesis-generated scenarios), '
             'fork-kill validation, exhaustive/randomised two-thread schedule enumeration under a token-passing scheduler')
