"""C03 - tokenizing is total, linear and independent of how the input is chunked (DESIGN.md section 2, C03)."""
from __future__ import annotations

import io
import itertools

from hypothesis import strategies as st

from vlib.core import Sub

PROPERTY = 'C03'
LEVEL = 'exploration'
RULE = (
    'enum: every text of length <= 3 (quick; plus length 4 over the core symbols \\ " CR LF / * a [; thorough: <= 4, and <= 6 over the core symbols) over the '
    '21-symbol syntax alphabet; ONE descriptor = one text run under all 2^7 option combinations (core-symbol texts of '
    'length 4-6: the 2^4 combinations of the options those symbols can reach x the other three all-off/all-on; length 6: the '
    'other three at their defaults) and, per '
    'combination, as one str, as every one of the 2^(n-1) chunk lists, as single characters interleaved with empty chunks '
    '(generator), as ("", text, "") and as an io.StringIO line iterator; plus Keyvalues.parse of the same text. '
    'random: Hypothesis texts (<= 400 chars) built from syntax pieces, random option mask, random cut set with extra cuts '
    'drawn from the positions inside CR-LF, backslash escapes, //, /*, */, ** and before a bare-word terminator, each '
    'chunking also with zero-length chunks at every cut point. '
    'kvparse / kvenum: Keyvalues.parse over generated / exhaustively enumerated KeyValues token sequences (flags, '
    'blocks, parse options) delivered as str, chunks, lines, file and as a ready Tokenizer. '
    'non-trivial = the single-string run yields a real token or an error AND a cut falls inside a multi-character '
    'construct; distinct = every enumerated text once / sha1 of the descriptor JSON'
)
ASSUMPTIONS = [
    'chunks are str (bytes / non-str chunks are documented to raise other errors); filename is None for the Tokenizer',
    'file delivery is io.StringIO (no newline translation), so that every delivery carries exactly the same characters',
    'pure-Python Tokenizer only (no Cython build possible in this sandbox)',
    'step bound: character fetches (Tokenizer._next_char calls, counted by a harness subclass) <= 3*len(text)+8 for a run '
    'to the first EOF plus three more calls; token calls before EOF <= len(text)',
    'Keyvalues.parse options are drawn from their documented domains; flags is a str->bool mapping',
]
LEVEL_TEXT = ('Exhaustive over all texts up to length 3 (quick) / 4 and 6 on the core symbols (thorough) x all option '
              'combinations x all chunkings; generated-input search beyond that. Held-on-everything-explored, not a proof.')
LEVEL_NOTE = ('The reference is the implementation\'s own single-string run (metamorphic relation: delivery must not matter); '
              'totality and the step bound are absolute. Pure-Python tokenizer only.')
TECHNIQUE = ('bounded exhaustive enumeration + property-based testing (Hypothesis): metamorphic chunk-independence, totality '
             '(only TokenSyntaxError/KeyValError), counted-step linear bound')
CAPS = (600, 2400)

from srctools.tokenizer import Token, Tokenizer, TokenSyntaxError  # noqa: E402  (run.py guarantees the repo tree)

EOF = Token.EOF

OPTION_NAMES = ['string_bracket', 'string_parens', 'allow_escapes', 'allow_star_comments', 'preserve_comments',
                'colon_operator', 'plus_operator']


def opts_from_mask(mask: int) -> dict:
    return {name: bool(mask >> i & 1) for i, name in enumerate(OPTION_NAMES)}


ALL128 = [(m, opts_from_mask(m)) for m in range(128)]
_OTHER3 = (1 << 1) | (1 << 5) | (1 << 6)       # string_parens, colon_operator, plus_operator
REL32 = [(m, o) for m, o in ALL128 if (m & _OTHER3) in (0, _OTHER3)]
DEFAULT_MASK = (1 << 1) | (1 << 2)              # Tokenizer() defaults: string_parens, allow_escapes
REL16 = [(m, o) for m, o in ALL128 if (m & _OTHER3) == (DEFAULT_MASK & _OTHER3)]     # the other three at their defaults
OPTSETS = {'all128': ALL128, 'rel32': REL32, 'rel16': REL16}

FULL_ALPHABET = ['\\', '"', '\r', '\n', '/', '*', 'a', ' ', '\t', '{', '}', '[', ']', '(', ')', '#', ':', '+', '=', ',', '﻿']
CORE_ALPHABET = ['\\', '"', '\r', '\n', '/', '*', 'a', '[']
assert len(FULL_ALPHABET) == 21 and len(CORE_ALPHABET) == 8

# own copy, not imported: characters that end a bare word / directive
TERMINATORS = frozenset('"\'{};,=[]()\r\n\t :+')


class StepLimit(Exception):
    """Raised by the counting harness when the character-fetch bound is exceeded (turned into a violation)."""


class CountingTokenizer(Tokenizer):
    """The Python Tokenizer with Tokenizer._next_char() counted (DESIGN.md 0.3: the only 'hook', harness side)."""
    def __init__(self, data, limit, opts):
        Tokenizer.__init__(self, data, **opts)
        self.fetches = 0
        self.fetch_limit = limit

    def _next_char(self):
        self.fetches += 1
        if self.fetches > self.fetch_limit:
            raise StepLimit(f'{self.fetches} character fetches, limit {self.fetch_limit}')
        return Tokenizer._next_char(self)


def fetch_limit(n: int) -> int:
    return 3 * n + 8


def run_tokens(tok):
    """[((Token, value), line_num), ...] up to the first EOF and three calls beyond it, or ending with an ERR record."""
    out = []
    try:
        while True:
            t = tok()
            out.append((t, tok.line_num))
            if t[0] is EOF:
                break
        out.append((tok(), tok.line_num))
        out.append((tok(), tok.line_num))
        out.append((tok(), tok.line_num))
    except TokenSyntaxError as exc:
        out.append(('ERR', type(exc).__name__, exc.mess, exc.line_num, exc.file))
    return out


def check_reference(ctx, text, ref, mask):
    """Clauses that are absolute (not relative to another delivery)."""
    n = len(text)
    last = ref[-1]
    if last[0] == 'ERR':
        ctx.check(last[1] == 'TokenSyntaxError' and last[4] is None and type(last[2]) is str,
                  'error_type', f'text={text!r} opts={mask}: error record {last!r}', mask=mask)
        toks = ref[:-1]
    else:
        tail = ref[-4:]
        ok = len(ref) >= 4 and all(t[0] is EOF and t[1] == '' for t, _ in tail) and len({ln for _, ln in tail}) == 1
        ctx.check(ok, 'eof_forever', f'text={text!r} opts={mask}: calls after the first EOF gave {tail!r}', mask=mask)
        toks = ref[:-4]
    for t, ln in toks:
        if not (type(t) is tuple and len(t) == 2 and isinstance(t[0], Token) and t[0] is not EOF and type(t[1]) is str
                and type(ln) is int):
            ctx.fail('token_type', f'text={text!r} opts={mask}: bad token {t!r} line {ln!r}', mask=mask)
    ctx.check(len(toks) <= n, 'linear_bound',
              f'text={text!r} opts={mask}: {len(toks)} tokens before EOF from {n} characters', mask=mask)
    return len(toks), last[0] == 'ERR'


def counted_run(ctx, data, text, opts, mask, how):
    tok = CountingTokenizer(data, fetch_limit(len(text)), opts)
    try:
        return run_tokens(tok)
    except StepLimit as exc:
        ctx.fail('linear_bound', f'text={text!r} opts={mask} delivery={how}: {exc}', mask=mask, delivery=how)
        return None


def compare(ctx, text, mask, how, shown, ref, got):
    if got is not None and got != ref:
        k = next((i for i, (a, b) in enumerate(zip(got, ref)) if a != b), min(len(got), len(ref)))
        ctx.fail('chunk_independence',
                 f'text={text!r} opts={opts_from_mask(mask)} delivery={how} {shown!r}: entry {k} differs\n'
                 f' single string: {ref!r}\n this delivery: {got!r}', mask=mask, delivery=how)


def all_chunkings(text: str):
    n = len(text)
    if n == 0:
        return [[''], []]
    res = []
    for m in range(1 << (n - 1)):
        chunks = []
        last = 0
        for i in range(n - 1):
            if m >> i & 1:
                chunks.append(text[last:i + 1])
                last = i + 1
        chunks.append(text[last:])
        res.append(chunks)
    return res


def hot_positions(text: str):
    """Cut positions p (between text[p-1] and text[p]) that fall inside a multi-character construct, with their class."""
    res = []
    for p in range(1, len(text)):
        a, b = text[p - 1], text[p]
        if a == '\r' and b == '\n':
            cls = 'crlf'
        elif a == '\\':
            cls = 'escape'
        elif a == '/' and b == '/':
            cls = 'slashslash'
        elif a == '/' and b == '*':
            cls = 'slashstar'
        elif a == '*' and b == '/':
            cls = 'starslash'
        elif a == '*' and b == '*':
            cls = 'starstar'
        elif a not in TERMINATORS and b in TERMINATORS:
            cls = 'word_terminator'
        elif a not in TERMINATORS and b not in TERMINATORS:
            cls = 'mid_word'
        else:
            continue
        res.append((p, cls))
    return res


def shape(kv):
    """Independent walk of a parsed tree: [real_name, line_num, value | [children]]."""
    if kv.has_children():
        return [kv.real_name, kv.line_num, [shape(c) for c in kv]]
    return [kv.real_name, kv.line_num, kv.value]


def run_parse(data, popts):
    from srctools.keyvalues import Keyvalues, KeyValError
    try:
        return ['OK', shape(Keyvalues.parse(data, **popts))]
    except KeyValError as exc:
        return ['ERR', type(exc).__name__, exc.mess, exc.line_num, exc.file]
    except TokenSyntaxError as exc:    # contract: KeyValError for Keyvalues.parse
        return ['WRONG-ERR', type(exc).__name__, exc.mess, exc.line_num, exc.file]


def parse_deliveries(ctx, text, popts, deliveries, tag):
    """Same text through Keyvalues.parse by several deliveries: same tree or same KeyValError.

    The reference is the single string inside a ready CountingTokenizer ("file_contents may be an already created
    tokenizer"), built with the options parse() itself uses - run first so that a non-terminating run hits the fetch
    limit instead of hanging; the plain ``parse(str)`` call is then the first delivery compared with it."""
    tok_opts = dict(string_bracket=True, allow_escapes=popts.get('allow_escapes', True))
    limit = fetch_limit(len(text))
    try:
        ref = run_parse(CountingTokenizer(text, limit, tok_opts), popts)
    except StepLimit as exc:
        ctx.fail('linear_bound', f'{tag} text={text!r} popts={popts} delivery=tokenizer(str): {exc}', delivery='tokenizer(str)')
        return ['LIMIT']
    ctx.check(ref[0] != 'WRONG-ERR', 'kv_error_type', f'{tag} text={text!r} popts={popts}: raised {ref!r}, not a KeyValError')
    for how, make in [('str', lambda: text)] + deliveries:
        try:
            got = run_parse(make(), popts)
        except StepLimit as exc:
            ctx.fail('linear_bound', f'{tag} text={text!r} popts={popts} delivery={how}: {exc}', delivery=how)
            continue
        if got != ref:
            ctx.fail('kv_chunk_independence',
                     f'{tag} text={text!r} popts={popts} delivery={how}:\n tokenizer(str): {ref!r}\n this: {got!r}', delivery=how)
    return ref


# ------------------------------------------------------------------ exhaustive over short texts

def enum_cases(tier: str):
    full_max = 3 if tier == 'quick' else 4
    for n in range(full_max + 1):
        for tup in itertools.product(FULL_ALPHABET, repeat=n):
            yield {'text': ''.join(tup), 'optset': 'all128'}
    # core symbols: the shortest closed star comment needs 4 characters, so quick adds length 4 on the core alphabet
    for n in ((4,) if tier == 'quick' else (5, 6)):
        for tup in itertools.product(CORE_ALPHABET, repeat=n):
            yield {'text': ''.join(tup), 'optset': 'rel32' if n < 6 else 'rel16'}


def enum_runs(tier: str) -> int:
    """Number of tokenizer runs the enum sub-check makes (for the evidence: one descriptor is many runs)."""
    total = 0
    full_max = 3 if tier == 'quick' else 4
    for n in range(full_max + 1):
        total += 21 ** n * 128 * (2 + (2 if n == 0 else 2 ** (n - 1)) + 3)
    for n in ((4,) if tier == 'quick' else (5, 6)):
        total += 8 ** n * (32 if n < 6 else 16) * (2 + 2 ** (n - 1) + 3)
    return total


def execute_enum(desc, ctx):
    text = desc['text']
    n = len(text)
    optset = OPTSETS[desc['optset']]
    lists = all_chunkings(text)
    interleaved = ['']
    for ch in text:
        interleaved += [ch, '']
    hots = hot_positions(text)
    for _, cls in hots:
        ctx.label('cut:' + cls)
    ctx.label(f'len{n}')
    saw_token = saw_error = False
    for mask, opts in optset:
        # reference = the single-string run (counted first: a non-terminating run must hit the fetch limit, not hang)
        ref = counted_run(ctx, text, text, opts, mask, 'str')
        if ref is None:
            continue
        ntok, is_err = check_reference(ctx, text, ref, mask)
        if mask == DEFAULT_MASK:
            saw_token, saw_error = ntok > 0, is_err
        compare(ctx, text, mask, 'str/plain-Tokenizer-class', text, ref, run_tokens(Tokenizer(text, **opts)))
        for chunks in lists:
            compare(ctx, text, mask, 'list', chunks, ref, counted_run(ctx, chunks, text, opts, mask, 'list'))
        compare(ctx, text, mask, 'generator+empties', interleaved, ref,
                counted_run(ctx, iter(interleaved), text, opts, mask, 'generator+empties'))
        compare(ctx, text, mask, 'tuple+empties', ('', text, ''), ref,
                counted_run(ctx, ('', text, ''), text, opts, mask, 'tuple+empties'))
        compare(ctx, text, mask, 'StringIO', text, ref, counted_run(ctx, io.StringIO(text), text, opts, mask, 'StringIO'))
    if saw_error:
        ctx.label('default_opts:error')
    elif saw_token:
        ctx.label('default_opts:tokens')
    ctx.nontrivial((saw_token or saw_error) and any(cls != 'mid_word' for _, cls in hots))
    # the same text through Keyvalues.parse
    per_char = list(text)
    for popts in ({}, {'allow_escapes': False}, {'single_line': True, 'newline_keys': True}):
        parse_deliveries(ctx, text, popts, [
            ('chars', lambda: per_char),
            ('StringIO', lambda: io.StringIO(text)),
            ('generator+empties', lambda: iter(interleaved)),
        ], 'enum')


# ------------------------------------------------------------------ random texts

SAFE_PIECES = [
    '\r\n', '\n', '\n', '\r', ' ', '\t', '"a b"', '""', '"x\\ny"', '"q\\"q"', '"b\\\\"', '"l1\nl2"', '"l1\r\nl2"', '"c\rd"',
    '"\\\n"', '"\\\r\n"', '"\\z"', '"\\/\\?\\\'"', 'word', 'Key', 'a', 'a/b', 'a*b', 'a\\b', '#include', '#BASE', '#', '[flag]', '[!x]', '[]',
    '[a b]', '(a b)', '()', '(a\nb)', '(a\r\nb)', '{', '}', '=', ',', ':', '+', 'a:b', 'a+b', '#d:e', '#d+e', '// c\n', '//\n', '// c\r\n',
    '//c', '///\n', '//*\n', 'é', 'ẞ', 'İx', '#İẞ',
]
STAR_PIECES = ['/* c */', '/**/', '/***/', '/* a\nb */', '/* a\r\nb */', '/** d **/', '/*/*/', '/* * / */', '/*\n*/', '/*//*/', '/*"*/']
ROUGH_PIECES = ['/', '*', '*/', '/*', '**/', '"', '\\', '\\"', '\\\\', '\\n', '[', ']', '(', ')', '((', '[[', '[a\n]', "'", ';', '﻿',
                '\x00', ' ', '\x85', '\x0b', '\x0c', '\\\n', '\\\r', '"abc', '/ /', '/\n/']


def text_strategy(max_pieces: int):
    safe = st.sampled_from(SAFE_PIECES)
    star = st.sampled_from(STAR_PIECES)
    rough = st.one_of(st.sampled_from(ROUGH_PIECES), st.sampled_from(FULL_ALPHABET), st.characters(exclude_categories=['Cs']))
    join = ''.join
    return st.one_of(
        st.lists(safe, max_size=max_pieces).map(join),
        st.lists(st.one_of(safe, safe, star), max_size=max_pieces).map(join),
        st.lists(st.one_of(safe, safe, safe, star, rough), max_size=max_pieces).map(join),
        st.lists(st.one_of(safe, star, rough), max_size=max_pieces).map(join),
        st.lists(st.one_of(safe, safe, star), min_size=max_pieces // 2, max_size=max_pieces).map(join),
        st.text(st.sampled_from(FULL_ALPHABET), max_size=30),
    ).map(lambda s: s[:400])


def cuts_strategy():
    return {
        'cuts': st.lists(st.integers(0, 1 << 12), max_size=10),
        'hot': st.lists(st.integers(0, 1 << 12), max_size=10),
        'empties': st.lists(st.integers(0, 1 << 8), max_size=4),
    }


def random_cases(tier: str):
    return st.fixed_dictionaries(dict(
        text=text_strategy(60 if tier == 'quick' else 90),
        mask=st.one_of(st.integers(0, 127), st.sampled_from([DEFAULT_MASK, 127, 0, DEFAULT_MASK | 1, DEFAULT_MASK | 8 | 16])),
        **cuts_strategy(),
    ))


def cut_chunks(text, positions):
    chunks = []
    last = 0
    for p in sorted(set(positions)):
        if 0 < p < len(text):
            chunks.append(text[last:p])
            last = p
    chunks.append(text[last:])
    return chunks


def chosen_cuts(desc, text, hots):
    n = len(text)
    cuts = {c % (n + 1) for c in desc['cuts']}
    hot_used = []
    if hots:
        for h in desc['hot']:
            p, cls = hots[h % len(hots)]
            cuts.add(p)
            hot_used.append(cls)
    chunks = cut_chunks(text, cuts)
    with_empties = list(chunks)
    for e in desc['empties']:
        with_empties.insert(e % (len(with_empties) + 1), '')
    return chunks, with_empties, hot_used


def spaced(chunks):
    """The same chunks with a zero-length chunk at EVERY cut point (two at every third)."""
    res = ['']
    for i, c in enumerate(chunks):
        res += [c, ''] if i % 3 else [c, '', '']
    return res


def reentrant_chunks(chunks):
    """Yield the chunks, but run other tokenizers / parsers to completion before each one."""
    from srctools.keyvalues import Keyvalues
    for chunk in chunks:
        list(Tokenizer('"loaded" [flag] { other words } // c', string_bracket=True))
        try:
            Keyvalues.parse('"manifest"\n{\n"file" "a\\tb"\n}\n')
            list(Tokenizer('unterminated "string'))
        except TokenSyntaxError:
            pass
        yield chunk


def execute_random(desc, ctx):
    text = desc['text']
    mask = desc['mask']
    opts = opts_from_mask(mask)
    hots = hot_positions(text)
    chunks, with_empties, hot_used = chosen_cuts(desc, text, hots)
    for cls in set(hot_used):
        ctx.label('cut:' + cls)
    ref = counted_run(ctx, text, text, opts, mask, 'str')
    if ref is None:
        return
    ntok, is_err = check_reference(ctx, text, ref, mask)
    ctx.label('ref:error' if is_err else 'ref:eof')
    if ntok >= 10:
        ctx.label('ref:>=10_tokens')
    if len(text) > 100:
        ctx.label('len>100')
    kinds = {t[0].name for t, _ in (ref[:-1] if is_err else ref[:-4])}
    for k in kinds:
        ctx.label('tok:' + k)
    ctx.nontrivial((ntok >= 1 or is_err) and any(cls != 'mid_word' for cls in hot_used))
    all_hot = cut_chunks(text, [p for p, cls in hots if cls != 'mid_word'])
    deliveries = [
        ('str/plain-Tokenizer-class', None, text),
        ('list', chunks, chunks),
        ('generator+empties', iter(with_empties), with_empties),
        ('chars', list(text), '<every character its own chunk>'),
        ('every-construct-cut', all_hot, all_hot),
        # zero-length chunks exactly at the cut points: inside every construct / at the drawn cuts / between all characters
        ('every-construct-cut+empty-chunks', spaced(all_hot), spaced(all_hot)),
        ('list+empty-chunk-at-every-cut', iter(spaced(chunks)), spaced(chunks)),
        ('chars+empty-chunks', spaced(list(text)), '<every character its own chunk, empty chunks between>'),
        ('lines', text.splitlines(keepends=True), '<splitlines(keepends=True)>'),
        ('StringIO', io.StringIO(text), '<io.StringIO>'),
        # a file-like source that itself tokenizes something else before handing out each piece (an include resolver,
        # a logger ...): another Tokenizer instance runs between two characters of one token of this one
        ('reentrant-generator', reentrant_chunks(chunks), chunks),
        ('reentrant-chars', reentrant_chunks(list(text[:200])) if len(text) <= 200 else chunks, '<characters, re-entrant>'),
    ]
    for how, data, shown in deliveries:
        got = run_tokens(Tokenizer(text, **opts)) if data is None else counted_run(ctx, data, text, opts, mask, how)
        compare(ctx, text, mask, how, shown, ref, got)


# ------------------------------------------------------------------ long repetitions (depth / linear-bound hazards)

REPEAT_UNITS = ['/**/ ', '/* c */', '/**/', '// c\n', '//\n', '"a" ', '"a"\n', 'a ', '{', '}', '{ }', '[a]', '[a] ', '(a)', '\\\n', '"\\n"',
                '\n', '\r\n', '\r', ' ', '\t', '=', ',', ':', '+', '#a ', '"', 'a{', '\ufeff', '/*', '*/', '/ ', '* ']


def repeat_cases(tier: str):
    from hypothesis import strategies as st
    return st.fixed_dictionaries({
        'unit': st.one_of(st.sampled_from(REPEAT_UNITS), st.text(FULL_ALPHABET, min_size=1, max_size=5)),
        'unit2': st.sampled_from(['', '', ' ', '\n', 'a', '"b"']),
        'n': st.sampled_from([300, 700, 1100, 2500] if tier == 'quick' else [300, 700, 1100, 2500, 6000]),
        'mask': st.integers(0, 127),
        'chunk': st.sampled_from([1, 2, 7, 64, 4096]),
    })


def execute_repeat(desc, ctx):
    """A short unit repeated hundreds to thousands of times: totality (only TokenSyntaxError may escape - in particular no
    RecursionError) and the linear step bound on long inputs, for the single string and one chunked delivery."""
    text = (desc['unit'] + desc['unit2']) * desc['n']
    text = text[:24000]
    mask = desc['mask']
    opts = opts_from_mask(mask)
    ref = counted_run(ctx, text, text, opts, mask, 'str')
    if ref is None:
        return
    ntok, is_err = check_reference(ctx, text, ref, mask)
    ctx.label('repeat:error' if is_err else 'repeat:eof')
    if opts.get('allow_star_comments') and '/*' in text and '*/' in text:
        ctx.label('repeat:star_comments')
    ctx.nontrivial(len(text) >= 1000 and (ntok >= 100 or is_err or '/' in text))
    size = desc['chunk']
    chunks = [text[i:i + size] for i in range(0, len(text), size)]
    got = counted_run(ctx, chunks, text, opts, mask, f'chunks-of-{size}')
    compare(ctx, text, mask, f'chunks-of-{size}', f'<{len(chunks)} chunks of {size}>', ref, got)


# ------------------------------------------------------------------ Keyvalues.parse: random

KV_PIECES = [
    '"key"', '"value"', '"a"', 'a', 'b', 'key', '"k k"', '""', '"multi\nline"', '"cr\r\nlf"', '"esc\\n\\t"', '"q\\"q"', '"bs\\\\"',
    '[a]', '[!a]', '[]', '[!x]', '[x]', '[$WIN32]', '[!$X360]', '[ a ]', '{', '}', '{', '}', '\n', '\n', '\n', '\r\n', '\r', ' ', ' ', '\t',
    '// c\n', '//\n', '#base', '#include',
]
KV_ROUGH = ['"', '\\', '/', '/*', '*/', '[', ']', '(', ')', '(a)', '=', ',', ':', '+', "'", ';', '﻿', '[a\n]', '[[', '"abc', '\x00', 'é', '"{args}"', '"{}"', '"{0}"', '"}{"', '"{"', '"%s"', '"{a!r}"', '[ok}]', '[{}]', '{}', '%d']
FLAG_SETS = [None, {'a': True}, {'a': False, 'x': True}, {'win32': False, 'x360': True}]
PARSE_BOOLS = ['newline_keys', 'newline_values', 'allow_escapes', 'single_line', 'single_block']


def kv_doc_strategy():
    """Mostly well-formed KeyValues documents: leaf lines and (nested) blocks with optional [flags]."""
    key = st.sampled_from(['"key"', 'key', '"a"', 'a', 'b', '"k k"', '""', '"esc\\n"', '"q\\"q"', '#base'])
    val = st.sampled_from(['"value"', 'value', '"a"', 'a', '"v v"', '""', '"multi\nline"', '"cr\r\nlf"', '"bs\\\\"', '"t\\t"'])
    flag = st.sampled_from(['', '', '', ' [a]', ' [!a]', ' []', ' [!x]', '[x]', ' [$WIN32]', ' [!$X360]'])
    nl = st.sampled_from(['\n', '\n', '\n', '\r\n', '\r', ' // c\n', '\n\n', '\n\t'])
    sep = st.sampled_from([' ', '\t', ' ', '  ', ''])
    leaf = st.tuples(key, sep, val, flag, nl).map(''.join)

    def block(children):
        return st.tuples(
            key, flag, st.sampled_from(['\n', '\n', '\r\n', ' ', ' // c\n']), st.just('{'), st.sampled_from(['\n', '\n', '', ' ', '\r\n']),
            st.lists(children, max_size=4).map(''.join), st.just('}'), nl,
        ).map(''.join)
    node = st.recursive(leaf, block, max_leaves=10)
    return st.lists(node, max_size=7).map(''.join)


def kv_text_strategy(max_pieces: int):
    piece = st.sampled_from(KV_PIECES)
    rough = st.one_of(st.sampled_from(KV_ROUGH), st.sampled_from(FULL_ALPHABET), st.characters(exclude_categories=['Cs']))
    sep = st.sampled_from([' ', ' ', '', '\t'])
    spaced = st.tuples(piece, sep).map(''.join)
    join = ''.join
    doc = kv_doc_strategy()

    def mutate(t):
        text, pos, ins, dele = t
        pos %= len(text) + 1
        return text[:pos] + ins + text[pos + dele:]
    mutated = st.tuples(doc, st.integers(0, 1 << 12), st.one_of(st.just(''), st.sampled_from(KV_ROUGH + KV_PIECES)),
                        st.integers(0, 2)).map(mutate)
    return st.one_of(
        doc,
        doc,
        mutated,
        st.lists(spaced, max_size=max_pieces).map(join),
        st.lists(st.one_of(spaced, spaced, spaced, spaced, rough), max_size=max_pieces).map(join),
    ).map(lambda s: s[:400])


def kvparse_cases(tier: str):
    return st.fixed_dictionaries(dict(
        text=kv_text_strategy(40 if tier == 'quick' else 70),
        flags=st.integers(0, len(FLAG_SETS) - 1),
        pmask=st.one_of(st.just(0b00110), st.integers(0, 31)),     # 0b00110 = the defaults
        **cuts_strategy(),
    ))


def popts_from(desc) -> dict:
    popts = {name: bool(desc['pmask'] >> i & 1) for i, name in enumerate(PARSE_BOOLS)}
    flags = FLAG_SETS[desc['flags']]
    if flags is not None:
        popts['flags'] = flags
    return popts


def execute_kvparse(desc, ctx):
    text = desc['text']
    popts = popts_from(desc)
    hots = hot_positions(text)
    chunks, with_empties, hot_used = chosen_cuts(desc, text, hots)
    for cls in set(hot_used):
        ctx.label('cut:' + cls)
    for name in PARSE_BOOLS:
        if popts[name]:
            ctx.label('opt:' + name)
    if 'flags' in popts:
        ctx.label('opt:flags')
    tok_opts = dict(string_bracket=True, allow_escapes=popts['allow_escapes'])
    ref = parse_deliveries(ctx, text, popts, [
        ('list', lambda: chunks),
        ('generator+empties', lambda: iter(with_empties)),
        ('chars', lambda: list(text)),
        ('chars+empty-chunks', lambda: spaced(list(text))),
        ('list+empty-chunk-at-every-cut', lambda: spaced(chunks)),
        ('lines', lambda: text.splitlines(keepends=True)),
        ('StringIO', lambda: io.StringIO(text)),
        # "file_contents may be an already created tokenizer" - here the counting one, which adds the step bound
        ('tokenizer(chunks)', lambda: CountingTokenizer(iter(with_empties), fetch_limit(len(text)), tok_opts)),
    ], 'kvparse')
    classify_parse(ctx, ref)
    ctx.nontrivial(kv_nontrivial(ref) and any(cls != 'mid_word' for cls in hot_used))


def kv_nontrivial(ref) -> bool:
    return ref[0] == 'ERR' or (ref[0] == 'OK' and (not isinstance(ref[1][2], list) or len(ref[1][2]) > 0))


def classify_parse(ctx, ref):
    if ref[0] != 'OK':
        ctx.label('parse:error')
        return
    ctx.label('parse:ok')

    def depth(node):
        if isinstance(node[2], list):
            return 1 + max([depth(c) for c in node[2]], default=0)
        return 0
    d = depth(ref[1])
    if d >= 2:
        ctx.label('parse:nested_block')
    if isinstance(ref[1][2], list) and len(ref[1][2]) >= 3:
        ctx.label('parse:>=3_children')


# ------------------------------------------------------------------ Keyvalues.parse: exhaustive over token sequences

KVENUM_PIECES = ['a', '"b"', '[]', '[!x]', '{', '}', '\n']
KVENUM_POPTS = [{}, {'single_line': True}, {'single_block': True}, {'single_line': True, 'single_block': True}]


def kvenum_cases(tier: str):
    """One descriptor per token sequence up to 6 (quick) / 7 (thorough) pieces; thorough adds length 8 as batches:
    a 5-piece head whose descriptor expands to all 7^3 tails (per-descriptor overhead would dominate otherwise)."""
    max_len = 6 if tier == 'quick' else 7
    for n in range(max_len + 1):
        for tup in itertools.product(KVENUM_PIECES, repeat=n):
            yield {'text': ' '.join(tup)}
    if tier != 'quick':
        for tup in itertools.product(KVENUM_PIECES, repeat=5):
            yield {'text': ' '.join(tup), 'expand': 3}


def kvenum_texts(tier: str) -> int:
    max_len = 6 if tier == 'quick' else 8
    return sum(7 ** n for n in range(max_len + 1))


def execute_kvenum(desc, ctx):
    expand = desc.get('expand', 0)
    if not expand:
        return kvenum_one(desc['text'], ctx, True)
    ctx.label('batch_of_343')
    for tail in itertools.product(KVENUM_PIECES, repeat=expand):
        kvenum_one(desc['text'] + ' ' + ' '.join(tail), ctx, False)
    ctx.nontrivial(True)


def kvenum_one(text, ctx, classify):
    pieces = text.split(' ') if text else []
    chunks = []
    for i, p in enumerate(pieces):
        if i:
            chunks.append(' ')
        chunks.append(p)
    nt = False
    for popts in KVENUM_POPTS:
        ref = parse_deliveries(ctx, text, popts, [
            ('pieces', lambda: chunks),
            ('chars', lambda: iter(text)),
        ], 'kvenum')
        if not popts and classify:
            classify_parse(ctx, ref)
            nt = kv_nontrivial(ref)
    if not classify:
        return
    ctx.label(f'pieces{len(pieces)}')
    if any(p.startswith('[') for p in pieces):
        ctx.label('has_flag')
    if '[!x]' in pieces and '[]' in pieces:
        ctx.label('enabled_and_disabled_flag')
    ctx.nontrivial(nt and any(len(p) > 1 for p in pieces) and len(pieces) >= 2)


SUBCHECKS = [
    Sub('enum', execute_enum, enumerate=enum_cases, quick_shards=32, thorough_shards=64, floor=1000,
        must_hit=('cut:crlf', 'cut:escape', 'cut:slashslash', 'cut:slashstar', 'cut:starslash', 'cut:starstar',
                  'cut:word_terminator', 'default_opts:error', 'default_opts:tokens')),
    Sub('random', execute_random, strategy=random_cases, quick=20000, thorough=400000, quick_shards=16, floor=2000,
        must_hit=('cut:crlf', 'cut:escape', 'cut:slashslash', 'cut:slashstar', 'cut:starslash', 'cut:starstar',
                  'cut:word_terminator', 'ref:error', 'ref:eof', 'ref:>=10_tokens', 'len>100',
                  'tok:STRING', 'tok:NEWLINE', 'tok:PAREN_ARGS', 'tok:DIRECTIVE', 'tok:COMMENT', 'tok:PROP_FLAG',
                  'tok:BRACK_OPEN', 'tok:PAREN_OPEN', 'tok:COLON', 'tok:PLUS', 'tok:BRACE_OPEN')),
    Sub('repeat', execute_repeat, strategy=repeat_cases, quick=640, thorough=12000, quick_shards=16, floor=100,
        must_hit=('repeat:star_comments', 'repeat:eof', 'repeat:error')),
    Sub('kvparse', execute_kvparse, strategy=kvparse_cases, quick=10000, thorough=200000, quick_shards=16, floor=1000,
        must_hit=('parse:ok', 'parse:error', 'parse:nested_block', 'parse:>=3_children', 'opt:single_block',
                  'opt:single_line', 'opt:flags', 'cut:crlf', 'cut:escape', 'cut:word_terminator')),
    Sub('kvenum', execute_kvenum, enumerate=kvenum_cases, quick_shards=16, thorough_shards=64, floor=10000,
        must_hit=('parse:ok', 'parse:error', 'parse:nested_block', 'enabled_and_disabled_flag')),
]

MATCHERS = {}

_TIER = None


def prepare(tier: str) -> None:
    global _TIER
    _TIER = tier


def extra_evidence() -> dict:
    """One enum descriptor is one text x all option sets x all deliveries; record how many tokenizer runs that is."""
    if _TIER is None:
        return {}
    return {'enum_tokenizer_runs': enum_runs(_TIER), 'kvenum_token_sequences': kvenum_texts(_TIER),
            'kvenum_parse_calls': kvenum_texts(_TIER) * len(KVENUM_POPTS) * 4}
