"""C04 - Angles, matrices and vectors obey the rotation algebra (DESIGN.md section 2, C04).

The oracle is an independent 3x3 row-major reference written from the property text: Source convention,
row vectors, ``R = Rx(roll) . Ry(pitch) . Rz(yaw)`` (roll about X first, then pitch about Y, then yaw about Z),
built by multiplying three single-axis matrices with plain Python floats.  Nothing of srctools.math is used on
the reference side.

Sub-checks (one clause group each, so that one defect does not hide the others):

* ``build``     from_angle / from_pitch / from_yaw / from_roll: orthonormal rows, det +1, entries == reference
* ``compose``   (v @ A) @ B == v @ (A @ B) and both == the reference product
* ``typemix``   every left/right operand type pair, forms ``@`` ``@=`` and reflected: value and result type;
                ``Vec @ Angle == Vec @ Matrix.from_angle(Angle)``
* ``operands``  ``@`` / ``@=`` never changes its right operand, nor an immutable (or non in-place) left operand
* ``inplace``   ``x @= r`` keeps the identity of a mutable ``x`` and has the value of ``x @ r``
* ``roundtrip`` Matrix.from_angle(m.to_angle()) == m (gimbal bound when the forward axis is near vertical)
* ``inverse``   m.inverse() == m.transpose() on rotations
"""
from __future__ import annotations

import math
import operator

from hypothesis import strategies as st

from vlib.core import Sub

PROPERTY = 'C04'
LEVEL = 'exploration'
RULE = (
    'Hypothesis generates pitch/yaw/roll triples from four pools (arbitrary finite floats in +-1e6; multiples of 15 '
    'degrees; pitch within 0..1e-3 degrees (log-spaced, both signs) of the +-90 poles and around the 0.001 '
    'horizontal-length threshold; 0/90/.../360 +- 1e-7..1e-17), vectors of magnitude <= 1e6 (plus zero, axis and '
    'integer vectors) and an operand type / operator form selector; in the thorough tier the 24^3 grid of multiples '
    'of 15 degrees is enumerated exhaustively for build/roundtrip/inverse. non-trivial = at least two of '
    'pitch/yaw/roll are not multiples of 90 degrees, or the pitch is within 1 degree of a pole; distinct = sha1 of '
    'the descriptor JSON'
)
ASSUMPTIONS = [
    'all numbers finite; vectors have magnitude <= 1e6; angles |x| <= 1e6 degrees',
    'matrices handed to to_angle()/inverse() are rotations: built from angles, products of those, axis_angle() of a '
    'non-degenerate axis, from_basis() of scaled rows of a reference rotation, or transposes of those; the harness '
    'verifies orthonormality (1e-12) of such a source with its own arithmetic before using it',
    'absolute tolerances on matrix entries (entries <= 1), relative (x max(1,|v|)) on vectors',
    'where an operand is an Angle object the reference is computed from the components the object reports '
    '(normalisation itself is checked by build.normalisation)',
    'pure-Python implementation only (no Cython build possible in this sandbox)',
]
LEVEL_TEXT = ('Generated-input search: tens of thousands (quick) to millions (thorough) of angle triples / vectors / operand '
              'type mixes compared with an independent 3x3 reference; the 24^3 grid of multiples of 15 degrees is '
              'enumerated exhaustively in the thorough tier; held-on-everything-explored, not a proof.')
LEVEL_NOTE = ('Trusts libm sin/cos/atan2/radians, Hypothesis generation and the harness reference arithmetic; pure-Python '
              'math.py only (the Cython _math.pyx cannot be built here).')
TECHNIQUE = 'property-based testing (Hypothesis) against an independent reference model + algebraic/metamorphic relations'
CAPS = (300, 2400)

ROT_KINDS = ['Angle', 'FrozenAngle', 'Matrix', 'FrozenMatrix']
VEC_KINDS = ['Vec', 'FrozenVec', 'tuple']
LEFT_KINDS = VEC_KINDS + ROT_KINDS
MUTABLE = {'Vec', 'Angle', 'Matrix'}

GIMBAL = 0.001          # the engine's threshold named in the statement
TOL_ENTRY = 1e-12       # DESIGN O.1
TOL_ASSOC = 1e-9        # DESIGN O.2 / O.3 / O.4


# ------------------------------------------------------------------ reference arithmetic (independent)

def r_ident():
    return [[1.0, 0.0, 0.0], [0.0, 1.0, 0.0], [0.0, 0.0, 1.0]]


def r_roll(deg):
    """Rotation about X: left (0,1,0) -> (0,c,s), up (0,0,1) -> (0,-s,c)."""
    t = math.radians(deg)
    c, s = math.cos(t), math.sin(t)
    return [[1.0, 0.0, 0.0], [0.0, c, s], [0.0, -s, c]]


def r_pitch(deg):
    """Rotation about Y: positive pitch looks down, forward (1,0,0) -> (c,0,-s)."""
    t = math.radians(deg)
    c, s = math.cos(t), math.sin(t)
    return [[c, 0.0, -s], [0.0, 1.0, 0.0], [s, 0.0, c]]


def r_yaw(deg):
    """Rotation about Z: counter-clockwise seen from above, forward (1,0,0) -> (c,s,0)."""
    t = math.radians(deg)
    c, s = math.cos(t), math.sin(t)
    return [[c, s, 0.0], [-s, c, 0.0], [0.0, 0.0, 1.0]]


def r_mul(a, b):
    return [[a[i][0] * b[0][j] + a[i][1] * b[1][j] + a[i][2] * b[2][j] for j in range(3)] for i in range(3)]


def r_rot(p, y, r):
    """Row-vector convention: roll first, then pitch, then yaw."""
    return r_mul(r_mul(r_roll(r), r_pitch(p)), r_yaw(y))


def r_vec(v, m):
    return [v[0] * m[0][j] + v[1] * m[1][j] + v[2] * m[2][j] for j in range(3)]


def r_T(m):
    return [[m[j][i] for j in range(3)] for i in range(3)]


def r_det(m):
    return (m[0][0] * (m[1][1] * m[2][2] - m[1][2] * m[2][1])
            - m[0][1] * (m[1][0] * m[2][2] - m[1][2] * m[2][0])
            + m[0][2] * (m[1][0] * m[2][1] - m[1][1] * m[2][0]))


def r_dot(a, b):
    return a[0] * b[0] + a[1] * b[1] + a[2] * b[2]


def max_diff(a, b):
    return max(abs(a[i][j] - b[i][j]) for i in range(3) for j in range(3))


def ortho_err(m):
    """max |row_i . row_j - delta_ij| and |det - 1|."""
    e = 0.0
    for i in range(3):
        for j in range(3):
            e = max(e, abs(r_dot(m[i], m[j]) - (1.0 if i == j else 0.0)))
    return e, abs(r_det(m) - 1.0)


def horiz(m):
    return math.hypot(m[0][0], m[0][1])


def rt_tol(h):
    """Statement: exact up to rounding; within twice the horizontal length of the forward axis when that is under 0.001.

    The (1 + 1e-9) factor only covers the harness and the code computing h with different roundings right at the
    threshold.
    """
    if h > GIMBAL * (1 + 1e-9):
        return TOL_ASSOC
    return 2.0 * h + TOL_ASSOC


def vnorm(v):
    return max(1.0, math.sqrt(v[0] * v[0] + v[1] * v[1] + v[2] * v[2]))


# ------------------------------------------------------------------ observation of srctools objects (public API only)

def read_mat(m):
    return [[m[i, j] for j in range(3)] for i in range(3)]


def read_vec(v):
    return [v.x, v.y, v.z]


def read_ang(a):
    return [a.pitch, a.yaw, a.roll]


def bits(x):
    # repr() of a float is exact; + 0.0 folds -0.0 into 0.0 (the sign of a zero is not counted as a change of value)
    return [repr(float(c) + 0.0) for c in x]


def observe(obj, kind):
    """Exact observable value (type name + the exact repr of every component)."""
    if kind == 'tuple':
        return ['tuple'] + bits(obj)
    if kind in ('Vec', 'FrozenVec'):
        return [type(obj).__name__] + bits(read_vec(obj))
    if kind in ('Angle', 'FrozenAngle'):
        return [type(obj).__name__] + bits(read_ang(obj))
    return [type(obj).__name__] + bits([c for row in read_mat(obj) for c in row])


TWIN_KIND = {'Vec': 'FrozenVec', 'FrozenVec': 'Vec', 'Angle': 'FrozenAngle', 'FrozenAngle': 'Angle',
             'Matrix': 'FrozenMatrix', 'FrozenMatrix': 'Matrix'}
# How an operand of a given kind was obtained.  Every route is documented to preserve the value exactly (copies, freeze /
# thaw, pickling, pass-through constructors); text round trips and as_tuple() round and are therefore not routes.
ROUTES = ['direct', 'twin', 'copy', 'copy.copy', 'deepcopy', 'pickle', 'ctor', 'ctor_twin', 'extra', 'extra_twin']


def _direct(kind, raw):
    import srctools.math as sm
    if kind in ('Matrix', 'FrozenMatrix'):
        return getattr(sm, kind).from_angle(raw[0], raw[1], raw[2])
    return getattr(sm, kind)(raw[0], raw[1], raw[2])


def routed(kind, raw, route, ctx=None):
    """An object of ``kind`` standing for the raw numbers, obtained along route number ``route``; returns (object, direct)
    where ``direct`` is the plainly constructed object of the same kind (the reference is taken from it / the raw numbers)."""
    import copy
    import pickle
    import srctools.math as sm
    direct = _direct(kind, raw)
    name = ROUTES[route % len(ROUTES)]
    cls = getattr(sm, kind)
    frozen = kind.startswith('Frozen')
    if name == 'direct':
        obj = direct
    elif name == 'twin':            # freeze() of the mutable twin / thaw() of the frozen twin
        twin = _direct(TWIN_KIND[kind], raw)
        obj = twin.thaw() if not frozen else twin.freeze()
        name = 'freeze' if frozen else 'thaw'
    elif name == 'copy':
        obj = _direct(kind, raw).copy()
    elif name == 'copy.copy':
        obj = copy.copy(_direct(kind, raw))
    elif name == 'deepcopy':
        obj = copy.deepcopy(_direct(kind, raw))
    elif name == 'pickle':
        obj = pickle.loads(pickle.dumps(_direct(kind, raw), 2 + route % 4))
    elif name == 'ctor':            # pass-through constructor from the same kind
        obj = cls(_direct(kind, raw))
    elif name == 'ctor_twin':       # ... from the twin kind
        obj = cls(_direct(TWIN_KIND[kind], raw))
    else:                           # to_matrix() for matrices, from_str(object) pass-through for vectors and angles
        src = _direct(kind if name == 'extra' else TWIN_KIND[kind], raw)
        if kind == 'Matrix':
            obj = sm.to_matrix(src) if name == 'extra' else src.thaw()
            name = 'to_matrix' if name == 'extra' else 'thaw'
        elif kind == 'FrozenMatrix':
            obj = sm.to_matrix(src) if name == 'extra' else src.freeze()
            name = 'to_matrix' if name == 'extra' else 'freeze'
        else:
            obj = cls.from_str(src)
            name = 'from_str(obj)' if name == 'extra' else 'from_str(twin)'
    if type(obj) is not cls:
        raise AssertionError(f'harness: route {name} for {kind} produced a {type(obj).__name__}')
    if ctx is not None:
        ctx.label(f'route:{kind}:{name}')
    return obj, direct


def mk_rot(kind, ang, route=0, ctx=None):
    """Build a rotation operand; returns (object, reference matrix).  The reference comes from the raw numbers (matrices) or
    from the components the *directly constructed* angle reports - never from the routed object itself."""
    obj, direct = routed(kind, ang, route, ctx)
    if kind in ('Angle', 'FrozenAngle'):
        return obj, r_rot(*read_ang(direct))
    return obj, r_rot(ang[0], ang[1], ang[2])


def mk_vec(kind, v, route=0, ctx=None):
    if kind == 'tuple':
        return (v[0], v[1], v[2])
    return routed(kind, v, route, ctx)[0]


def kind_class(kind):
    import srctools.math as sm
    return {'Vec': sm.Vec, 'FrozenVec': sm.FrozenVec, 'tuple': sm.Vec, 'Angle': sm.Angle, 'FrozenAngle': sm.FrozenAngle,
            'Matrix': sm.Matrix, 'FrozenMatrix': sm.FrozenMatrix}[kind]


# ------------------------------------------------------------------ classification

def is_mult(x, m):
    return math.fmod(x, m) == 0.0


def pole_dist(p):
    """Distance in degrees of a pitch from the nearest +-90 pole."""
    q = math.fmod(p, 180.0)
    return min(abs(abs(q) - 90.0), 180.0)


def classify(ctx, ang, prefix='a'):
    """Labels + non-triviality for one angle triple."""
    non90 = sum(0 if is_mult(c, 90.0) else 1 for c in ang)
    pd = pole_dist(ang[0])
    if all(is_mult(c, 15.0) for c in ang):
        ctx.label(prefix + ':grid15')
    elif pd < 1.0:
        if pd == 0:
            ctx.label(prefix + ':pole_exact')
        elif pd <= 1e-3 * 1.0001:
            ctx.label(prefix + ':pole<=1e-3')
        else:
            ctx.label(prefix + ':pole_threshold_zone')
    elif any(abs(c) > 720 for c in ang):
        ctx.label(prefix + ':free_large')
    else:
        ctx.label(prefix + ':free_small')
    if any(0 < abs(math.fmod(c, 90.0)) < 1e-6 or 0 < 90 - abs(math.fmod(c, 90.0)) < 1e-6 for c in ang):
        ctx.label(prefix + ':tiny_offset')
    return non90 >= 2 or pd < 1.0


# ------------------------------------------------------------------ strategies (descriptors only)

def num_free():
    return st.floats(-1e6, 1e6, allow_nan=False, allow_infinity=False)


def num_moderate():
    return st.floats(-720, 720, allow_nan=False, allow_infinity=False)


def num_grid():
    return st.integers(-24, 48).map(lambda k: 15.0 * k)


def num_tiny():
    return st.builds(
        lambda base, sign, e: base + sign * 10.0 ** -e,
        st.sampled_from([0.0, 90.0, 180.0, 270.0, 360.0, -90.0, -360.0]), st.sampled_from([1, -1]), st.integers(7, 17),
    )


def pole_delta():
    return st.one_of(
        st.just(0.0),
        st.builds(lambda m, e: m * 10.0 ** e, st.floats(1, 10, exclude_max=True), st.integers(-12, -4)),
        st.sampled_from([1e-12, 1e-11, 1e-10, 1e-9, 1e-8, 1e-7, 1e-6, 1e-5, 1e-4, 1e-3]),
        # horizontal length h in 1e-4 .. 1e-2, i.e. around the 0.001 threshold
        st.floats(-4, -2).map(lambda e: math.degrees(math.asin(10.0 ** e))),
        st.floats(-3.3, -2).map(lambda e: math.degrees(math.asin(10.0 ** e))),
    )


def pole_pitch():
    return st.builds(lambda base, sign, d: base + sign * d,
                     st.sampled_from([90.0, -90.0, 270.0, -270.0, 450.0]), st.sampled_from([1, -1]), pole_delta())


def comp():
    return st.one_of(num_free(), num_moderate(), num_grid(), num_tiny())


def near_identity_triple():
    """All three components within 1e-6 degrees of a full turn: cos() rounds to exactly 1.0 while sin() does not, so the
    matrix has a unit diagonal without being the identity."""
    c = st.builds(lambda base, sign, m, e: base + sign * m * 10.0 ** -e,
                  st.sampled_from([0.0, 0.0, 360.0, -360.0]), st.sampled_from([1, -1, 0]),
                  st.floats(1, 10, exclude_max=True), st.sampled_from([7, 7, 7, 8, 9, 12]))
    return st.tuples(c, c, c).map(list)


def angle_triple():
    return st.one_of(
        st.tuples(num_free(), num_free(), num_free()),
        st.tuples(num_moderate(), num_moderate(), num_moderate()),
        st.tuples(num_grid(), num_grid(), num_grid()),
        st.tuples(pole_pitch(), comp(), comp()),
        st.tuples(comp(), comp(), comp()),
        near_identity_triple(),
    ).map(list)


def pole_triple():
    return st.tuples(pole_pitch(), comp(), comp()).map(list)


def triple_pair():
    """[a, b]; a share of the pairs keeps the product a @ b at the gimbal pole (forward axis of a @ b vertical)."""
    zero = st.sampled_from([0.0, 360.0, -360.0, 0.0])
    return st.one_of(
        st.tuples(angle_triple(), angle_triple()),
        st.tuples(angle_triple(), angle_triple()),
        st.tuples(pole_triple(), st.tuples(zero, comp(), zero).map(list)),       # pole, then yaw only
        st.tuples(st.tuples(zero, zero, comp()).map(list), pole_triple()),       # roll only, then pole
    ).map(list)


VMAX = 577350.0   # per component, so that |v| <= 1e6


def vector():
    c = st.floats(-VMAX, VMAX, allow_nan=False, allow_infinity=False)
    small = st.floats(-128, 128, allow_nan=False, allow_infinity=False)
    return st.one_of(
        st.tuples(c, c, c),
        st.tuples(small, small, small),
        st.tuples(st.integers(-1024, 1024), st.integers(-1024, 1024), st.integers(-1024, 1024)),
        st.sampled_from([(0.0, 0.0, 0.0), (1.0, 0.0, 0.0), (0.0, 1.0, 0.0), (0.0, 0.0, 1.0), (-1.0, 0.0, 0.0),
                         (0.0, 0.0, -1e6), (1e6, 0.0, 0.0), (1e-9, -1e-9, 1e-9)]),
    ).map(list)


def grid_triples(step=15):
    n = 360 // step
    for i in range(n):
        for j in range(n):
            for k in range(n):
                yield [float(i * step), float(j * step), float(k * step)]


# ------------------------------------------------------------------ build

BUILD_FORMS = ['floats', 'Angle', 'FrozenAngle']
MAT_KINDS = ['Matrix', 'FrozenMatrix']


# Values that parse_vec_str() documents as "unparsable or an invalid type" (-> the fall-back arguments are used).
BAD_ANGLE_TEXTS = ['', '   ', 'a b c', '1 2', '1 2 3 4', '1 2 x', '(1 2', '1,2,3', None, 7, [1.0, 2.0, 3.0]]


ROUTE = st.integers(0, 39)


def build_strategy(tier):
    return st.fixed_dictionaries({
        'a': angle_triple(), 'form': st.sampled_from(BUILD_FORMS), 'cls': st.sampled_from(MAT_KINDS),
        'fb': angle_triple(), 'sv': st.integers(0, 329), 'ro': ROUTE,
    })


def build_enumerate(tier):
    step = 45 if tier == 'quick' else 15
    for n, a in enumerate(grid_triples(step)):
        yield {'a': a, 'form': BUILD_FORMS[n % 3], 'cls': MAT_KINDS[(n // 3) % 2], 'fb': [a[2], a[0] + 15.0, a[1] - 30.0], 'sv': n % 330, 'ro': n % 40}


def angle_text(a, sv):
    """Harness-side text of a triple: repr() of a float is exact and float() reads it back; bracket / spacing variants."""
    sep = [' ', '  ', '\t', ' \t '][(sv // 5) % 4]
    text = sep.join(repr(float(c)) for c in a)
    br = ['', '()', '[]', '{}', '<>'][sv % 5]
    if br:
        text = br[0] + text + br[1]
    if (sv // 20) % 2:
        text = '  ' + text + ' \n'
    return text


def check_string_ctors(desc, ctx, cls):
    """The string constructors of rotations build the rotation of the numbers they are given: from_angstr() of a
    parsable text (fall-backs ignored), of an unparsable value (fall-backs used, in pitch/yaw/roll order), Angle
    pass-through, and Angle.from_str()/FrozenAngle.from_str() with the same inputs."""
    import srctools.math as sm
    a, fb, sv = desc['a'], desc.get('fb'), desc.get('sv')
    if fb is None:
        return
    text = angle_text(a, sv)
    bad = BAD_ANGLE_TEXTS[sv % len(BAD_ANGLE_TEXTS)]
    ctx.label(f'str:bad:{bad!r}', 'str:bracket:' + ['none', '()', '[]', '{}', '<>'][sv % 5])
    want_a, want_fb = r_rot(*a), r_rot(*fb)

    def cmp(m, want, clause, what, tol=TOL_ENTRY):
        ctx.check(type(m) is cls, 'result_type', f'{what} returned {type(m).__name__}, expected {desc["cls"]}')
        g = read_mat(m)
        d = max_diff(g, want)
        ctx.check(d <= tol, clause, f'{what} differs from the reference rotation by {d:g} (tol {tol:g})\n want={want}\n got ={g}', what=clause)

    cmp(cls.from_angstr(text), want_a, 'from_angstr', f'{desc["cls"]}.from_angstr({text!r})')
    cmp(cls.from_angstr(text, fb[0], fb[1], fb[2]), want_a, 'from_angstr', f'{desc["cls"]}.from_angstr({text!r}, {fb[0]}, {fb[1]}, {fb[2]})')
    if (sv // 11) % 2:
        m3 = cls.from_angstr(bad, fb[0], fb[1], fb[2])
    else:
        m3 = cls.from_angstr(bad, pitch=fb[0], yaw=fb[1], roll=fb[2])
    cmp(m3, want_fb, 'from_angstr_fallback', f'{desc["cls"]}.from_angstr({bad!r}, pitch={fb[0]}, yaw={fb[1]}, roll={fb[2]})')
    cmp(cls.from_angstr(bad), r_ident(), 'from_angstr_fallback', f'{desc["cls"]}.from_angstr({bad!r})')
    # partial fall-backs
    cmp(cls.from_angstr(bad, roll=fb[2]), r_rot(0.0, 0.0, fb[2]), 'from_angstr_fallback', f'{desc["cls"]}.from_angstr({bad!r}, roll={fb[2]})')
    cmp(cls.from_angstr(bad, yaw=fb[1]), r_rot(0.0, fb[1], 0.0), 'from_angstr_fallback', f'{desc["cls"]}.from_angstr({bad!r}, yaw={fb[1]})')
    # Angle classes: same inputs; their rotation (harness reference of the reported components) is that of the numbers
    acls = sm.FrozenAngle if (sv // 2) % 2 else sm.Angle
    for val, args, raw, what in ((text, (), a, 'parsable'), (text, tuple(fb), a, 'parsable+fallbacks'), (bad, tuple(fb), fb, 'fallbacks')):
        if val is not None and not isinstance(val, str):
            continue        # from_str() is documented for strings (and Angles) only
        ang = acls.from_str(val, *args)
        ctx.check(type(ang) is acls, 'result_type', f'{acls.__name__}.from_str() returned {type(ang).__name__}')
        tol = TOL_ENTRY + 1e-16 * max(abs(c) for c in raw)
        d = max_diff(r_rot(*read_ang(ang)), r_rot(*raw))
        ctx.check(d <= tol, 'angle_from_str',
                  f'{acls.__name__}.from_str({val!r}, *{args}) reports {read_ang(ang)}; that rotation differs from the one of {raw} by {d:g} ({what})',
                  what=what)
    ang = acls(a[0], a[1], a[2])
    cmp(cls.from_angstr(ang), r_rot(*read_ang(ang)), 'from_angstr_passthrough', f'{desc["cls"]}.from_angstr({acls.__name__}{tuple(a)})')
    cmp(cls.from_angstr(ang, fb[0], fb[1], fb[2]), r_rot(*read_ang(ang)), 'from_angstr_passthrough',
        f'{desc["cls"]}.from_angstr({acls.__name__}{tuple(a)}, fallbacks)')


def exec_build(desc, ctx):
    import srctools.math as sm
    a = desc['a']
    cls = getattr(sm, desc['cls'])
    ctx.nontrivial(classify(ctx, a))
    ctx.label('form:' + desc['form'], 'cls:' + desc['cls'])
    ro = desc.get('ro', 0)
    if desc['form'] == 'floats':
        m = routed(desc['cls'], a, ro, ctx)[0]
        used = a
    else:
        ang, direct = routed(desc['form'], a, ro, ctx)
        m = cls.from_angle(ang)
        used = read_ang(direct)
        ctx.check(read_ang(ang) == used, 'operand_route',
                  f'{desc["form"]} obtained via route {ROUTES[ro % len(ROUTES)]} reports {read_ang(ang)}, the directly built one {used}')
    ctx.check(type(m) is cls, 'result_type', f'{desc["cls"]}.from_angle() returned {type(m).__name__}')
    got = read_mat(m)
    want = r_rot(*used)
    oe, de = ortho_err(got)
    ctx.check(oe <= TOL_ENTRY, 'orthonormal', f'rows of from_angle({used}) not orthonormal: max |ri.rj - dij| = {oe:g}\n got={got}')
    ctx.check(de <= TOL_ENTRY, 'det', f'det of from_angle({used}) differs from +1 by {de:g}')
    d = max_diff(got, want)
    ctx.check(d <= TOL_ENTRY, 'convention',
              f'from_angle({used}) differs from Rx(roll).Ry(pitch).Rz(yaw) by {d:g}\n want={want}\n got ={got}')
    if desc['form'] != 'floats':
        # Wrapping the raw numbers into an Angle object must keep the rotation.  radians() of |x| degrees carries an
        # absolute error of about |x| * 4e-18, so sin/cos of the raw and of the wrapped value differ by that much.
        tol = TOL_ENTRY + 1e-16 * max(abs(c) for c in a)
        d2 = max_diff(got, r_rot(*a))
        ctx.check(d2 <= tol, 'normalisation',
                  f'{desc["form"]}({a}) reports {used}; its matrix differs from the rotation of the raw numbers by {d2:g} (tol {tol:g})')
    # rows are also available as vectors
    rows = [read_vec(m.forward()), read_vec(m.left()), read_vec(m.up())]
    ctx.check(rows == got, 'rows', f'forward()/left()/up() {rows} differ from the entries {got}')
    # single-axis constructors
    for name, fn, ref, val in (('from_pitch', cls.from_pitch, r_pitch, a[0]), ('from_yaw', cls.from_yaw, r_yaw, a[1]),
                               ('from_roll', cls.from_roll, r_roll, a[2])):
        sm_ = fn(val)
        g = read_mat(sm_)
        d = max_diff(g, ref(val))
        ctx.check(type(sm_) is cls and d <= TOL_ENTRY, 'single_axis',
                  f'{desc["cls"]}.{name}({val}) differs from the single-axis reference by {d:g}\n want={ref(val)}\n got ={g}',
                  ctor=name)
    # the three single-axis matrices compose to the full one, roll first
    comp3 = cls.from_roll(used[2]) @ cls.from_pitch(used[0]) @ cls.from_yaw(used[1])
    d = max_diff(read_mat(comp3), want)
    ctx.check(d <= TOL_ENTRY, 'axis_order', f'from_roll @ from_pitch @ from_yaw of {used} differs from the reference by {d:g}')
    check_string_ctors(desc, ctx, cls)


# ------------------------------------------------------------------ compose (associativity)

def _split_ab(d):
    d = dict(d)
    d['a'], d['b'] = d.pop('ab')
    return d


def compose_strategy(tier):
    return st.fixed_dictionaries({
        'v': vector(), 'tv': st.sampled_from(VEC_KINDS), 'ab': triple_pair(),
        'ta': st.sampled_from(ROT_KINDS), 'tb': st.sampled_from(ROT_KINDS), 'rv': ROUTE, 'ra': ROUTE, 'rb': ROUTE,
    }).map(_split_ab)


def exec_compose(desc, ctx):
    v = desc['v']
    nt_a = classify(ctx, desc['a'], 'a')
    nt_b = classify(ctx, desc['b'], 'b')
    ctx.nontrivial(nt_a and nt_b and any(v))
    ctx.label(f"{desc['tv']}@{desc['ta']}@{desc['tb']}")
    vec = mk_vec(desc['tv'], v, desc.get('rv', 0), ctx)
    A, ra = mk_rot(desc['ta'], desc['a'], desc.get('ra', 0), ctx)
    B, rb = mk_rot(desc['tb'], desc['b'], desc.get('rb', 0), ctx)
    rab = r_mul(ra, rb)
    scale = vnorm([float(c) for c in v])
    left = read_vec((vec @ A) @ B)
    ab = A @ B
    right = read_vec(vec @ ab)
    want = r_vec([float(c) for c in v], rab)
    # An Angle-typed A makes A @ B an Angle: the conversion may lose up to 2h near the gimbal pole (statement).
    h = horiz(rab)
    tol_conv = rt_tol(h) if desc['ta'] in ('Angle', 'FrozenAngle') else TOL_ASSOC
    if tol_conv > TOL_ASSOC:
        ctx.label('gimbal_product')
    d1 = max(abs(left[i] - want[i]) for i in range(3))
    ctx.check(d1 <= TOL_ASSOC * scale, 'sequential_vs_reference',
              f'(v @ A) @ B = {left} differs from the reference {want} by {d1:g} (tol {TOL_ASSOC * scale:g})')
    d2 = max(abs(left[i] - right[i]) for i in range(3))
    ctx.check(d2 <= tol_conv * scale, 'associative',
              f'(v @ A) @ B = {left} but v @ (A @ B) = {right}; differ by {d2:g} (tol {tol_conv * scale:g}, h={h:g})\n'
              f' A={desc["ta"]}{desc["a"]} B={desc["tb"]}{desc["b"]} v={v}')
    # three rotations: ((v @ A) @ B) @ A  ==  v @ ((A @ B) @ A) for matrix-typed A.  Every expression gets freshly
    # built operands so that this clause does not depend on operands staying unchanged (sub-check ``operands``).
    if desc['ta'] in ('Matrix', 'FrozenMatrix'):
        def fa():
            return mk_rot(desc['ta'], desc['a'])[0]

        def fb():
            return mk_rot(desc['tb'], desc['b'])[0]
        l3 = read_vec(((mk_vec(desc['tv'], v) @ fa()) @ fb()) @ fa())
        r3 = read_vec(mk_vec(desc['tv'], v) @ ((fa() @ fb()) @ fa()))
        d3 = max(abs(l3[i] - r3[i]) for i in range(3))
        ctx.check(d3 <= TOL_ASSOC * scale, 'associative3', f'((v@A)@B)@A = {l3} but v@((A@B)@A) = {r3}; differ by {d3:g}')


# ------------------------------------------------------------------ typemix / operands / inplace (shared driver)

FORMS = ['matmul', 'imatmul']
# conversion helpers whose result is modified in place before the helper is used again (sub-check ``operands``)
HELPERS = ['to_matrix(None)', 'to_matrix(Angle)', 'to_matrix(FrozenAngle)', 'to_matrix(tuple)', 'to_matrix(Matrix)',
           'to_matrix(FrozenMatrix)', 'Matrix()', 'Matrix(Matrix)', 'Matrix(FrozenMatrix)', 'Matrix.from_angle(Angle)',
           'Matrix.from_angstr(str)', 'Matrix.copy()', 'FrozenMatrix.thaw()']
# what the body of a ``with x.transform() as mat:`` block does with the matrix it is handed (sub-check ``inplace``)
BODY_STEPS = ['rmul', 'spin', 'read', 'spin', 'read']
# in-place changes made to one rotation object between its uses as a rotation (sub-check ``inplace``, history part)
MUT_STEPS = ['imatmul', 'imatmul_self', 'set_attr', 'set_item', 'imul', 'transform', 'use_only']


def typemix_strategy(tier):
    return st.fixed_dictionaries({
        'left': st.sampled_from(LEFT_KINDS), 'right': st.sampled_from(ROT_KINDS), 'form': st.sampled_from(FORMS),
        'v': vector(), 'ab': triple_pair(),
        'helper': st.sampled_from(HELPERS), 'body': st.lists(st.sampled_from(BODY_STEPS), max_size=3), 'rl': ROUTE, 'rr': ROUTE,
        'mut': st.lists(st.sampled_from(MUT_STEPS), min_size=1, max_size=3),
    }).map(_split_ab)


def _apply(form, left, right):
    if form == 'matmul':
        return left @ right
    return operator.imatmul(left, right)   # exactly the semantics of ``left @= right``


def _run_mix(desc, ctx):
    """Build operands, evaluate, return everything the three sub-checks look at."""
    lk, rk, form = desc['left'], desc['right'], desc['form']
    ctx.label(f'{lk}@{rk}', f'{form}:{lk}@{rk}')
    if lk == 'tuple':
        ctx.label('reflected:tuple@' + rk)
    R, rr = mk_rot(rk, desc['b'], desc.get('rr', 0), ctx)
    nt = classify(ctx, desc['b'], 'b')
    if lk in VEC_KINDS:
        L = mk_vec(lk, desc['v'], desc.get('rl', 0), ctx)
        lref = [float(c) for c in desc['v']]
        nt = nt and any(lref)
    else:
        L, lref = mk_rot(lk, desc['a'], desc.get('rl', 0), ctx)
        nt = nt and classify(ctx, desc['a'], 'a')
    ctx.nontrivial(nt)
    before_l, before_r = observe(L, lk), observe(R, rk)
    res = _apply(form, L, R)
    return L, R, rr, lref, res, before_l, before_r


def _value_error(lk, lref, rr, res):
    """(error, tolerance, want, got) of a result against the reference."""
    if lk in VEC_KINDS:
        want = r_vec(lref, rr)
        got = read_vec(res)
        return max(abs(got[i] - want[i]) for i in range(3)), TOL_ENTRY * vnorm(lref), want, got
    want = r_mul(lref, rr)
    if lk in ('Matrix', 'FrozenMatrix'):
        got = read_mat(res)
        return max_diff(got, want), TOL_ENTRY, want, got
    # Angle result: compare the rotation it stands for; conversion tolerance from the statement
    got = r_rot(*read_ang(res))
    return max_diff(got, want), rt_tol(horiz(want)), want, got


def exec_typemix(desc, ctx):
    from srctools.math import Matrix
    lk, rk, form = desc['left'], desc['right'], desc['form']
    L, R, rr, lref, res, _, _ = _run_mix(desc, ctx)
    want_cls = kind_class(lk)
    ctx.check(type(res) is want_cls, 'result_type',
              f'{lk} {form} {rk} returned {type(res).__name__}, expected {want_cls.__name__}', left=lk, right=rk, form=form)
    err, tol, want, got = _value_error(lk, lref, rr, res)
    if tol > TOL_ASSOC:
        ctx.label('gimbal_result')
    ctx.check(err <= tol, 'value',
              f'{lk} {form} {rk}: result differs from the reference by {err:g} (tol {tol:g})\n left={desc["v"] if lk in VEC_KINDS else desc["a"]} '
              f'right={desc["b"]}\n want={want}\n got ={got}', left=lk, right=rk, form=form)
    # Vec @ Angle equals Vec @ Matrix.from_angle(Angle)   (statement, literally)
    if rk in ('Angle', 'FrozenAngle'):
        L2 = mk_vec(lk, desc['v']) if lk in VEC_KINDS else mk_rot(lk, desc['a'])[0]
        res2 = _apply(form, L2, Matrix.from_angle(R))
        if lk in VEC_KINDS:
            g1, g2 = read_vec(res), read_vec(res2)
            d = max(abs(g1[i] - g2[i]) for i in range(3))
            t = TOL_ENTRY * vnorm(lref)
        elif lk in ('Matrix', 'FrozenMatrix'):
            d = max_diff(read_mat(res), read_mat(res2))
            t = TOL_ENTRY
        else:
            d = max_diff(r_rot(*read_ang(res)), r_rot(*read_ang(res2)))
            t = tol
        ctx.check(d <= t, 'angle_vs_matrix',
                  f'{lk} {form} {rk} differs from {lk} {form} Matrix.from_angle({rk}) by {d:g} (tol {t:g})', left=lk, right=rk, form=form)


def exec_operands(desc, ctx):
    lk, rk, form = desc['left'], desc['right'], desc['form']
    L, R, rr, lref, res, before_l, before_r = _run_mix(desc, ctx)
    after_r = observe(R, rk)
    ctx.check(after_r == before_r, 'right_unchanged',
              f'{lk} {form} {rk} changed its right operand: {before_r} -> {after_r}', left=lk, right=rk, form=form)
    if form == 'matmul' or lk not in MUTABLE or res is not L:
        after_l = observe(L, lk)
        ctx.check(after_l == before_l, 'left_unchanged',
                  f'{lk} {form} {rk} changed its left operand (which is {"immutable" if lk not in MUTABLE else "not the result"}): '
                  f'{before_l} -> {after_l}', left=lk, right=rk, form=form)
    if form == 'matmul' and lk in MUTABLE:
        ctx.check(res is not L, 'fresh_result', f'{lk} @ {rk} returned its own left operand', left=lk, right=rk)
    helper_history(desc, ctx)


def helper_history(desc, ctx):
    """r1 = helper(); modify r1 in place; helper() again: the second result is still the right rotation, the helper's
    arguments are untouched, and rotating by 'no angles' is still the identity."""
    import srctools.math as sm
    name = desc.get('helper')
    if name is None:
        return
    a = desc['a']
    ctx.label('helper:' + name)
    A = sm.FrozenAngle(*a) if 'FrozenAngle' in name else sm.Angle(*a)
    ra = r_rot(*read_ang(A))
    M = sm.Matrix.from_angle(a[0], a[1], a[2])
    FM = sm.FrozenMatrix.from_angle(a[0], a[1], a[2])
    rm = r_rot(*a)
    text = angle_text(a, 0)
    shares_argument = False     # to_matrix(Matrix) hands its argument back: modifying the result modifies the argument
    if name == 'to_matrix(None)':
        make, ref = (lambda: sm.to_matrix(None)), r_ident()
    elif name in ('to_matrix(Angle)', 'to_matrix(FrozenAngle)'):
        make, ref = (lambda: sm.to_matrix(A)), ra
    elif name == 'to_matrix(tuple)':
        make, ref = (lambda: sm.to_matrix((a[0], a[1], a[2]))), rm
    elif name == 'to_matrix(Matrix)':
        make, ref, shares_argument = (lambda: sm.to_matrix(M)), rm, True
    elif name == 'to_matrix(FrozenMatrix)':
        make, ref = (lambda: sm.to_matrix(FM)), rm
    elif name == 'Matrix()':
        make, ref = (lambda: sm.Matrix()), r_ident()
    elif name == 'Matrix(Matrix)':
        make, ref = (lambda: sm.Matrix(M)), rm
    elif name == 'Matrix(FrozenMatrix)':
        make, ref = (lambda: sm.Matrix(FM)), rm
    elif name == 'Matrix.from_angle(Angle)':
        make, ref = (lambda: sm.Matrix.from_angle(A)), ra
    elif name == 'Matrix.from_angstr(str)':
        make, ref = (lambda: sm.Matrix.from_angstr(text)), rm
    elif name == 'Matrix.copy()':
        make, ref = (lambda: M.copy()), rm
    elif name == 'FrozenMatrix.thaw()':
        make, ref = (lambda: FM.thaw()), rm
    else:
        raise AssertionError(name)
    watched = [(A, 'Angle' if type(A).__name__ == 'Angle' else 'FrozenAngle'), (M, 'Matrix'), (FM, 'FrozenMatrix')]
    before = [observe(o, k) for o, k in watched]
    R, rr = mk_rot(desc['right'], desc['b'])
    r1 = make()
    d = max_diff(read_mat(r1), ref)
    ctx.check(d <= TOL_ENTRY, 'helper_value', f'{name} differs from the reference rotation by {d:g}', helper=name)
    if not shares_argument:
        if desc['form'] == 'imatmul' or type(r1) is not sm.Matrix:
            r1x = operator.imatmul(r1, R)
            want1 = r_mul(ref, rr)
        else:
            r1[0, 1] = 0.25
            r1[2, 2] = -3.0
            r1x = r1
            want1 = [row[:] for row in ref]
            want1[0][1], want1[2][2] = 0.25, -3.0
        d = max_diff(read_mat(r1x), want1)
        ctx.check(d <= TOL_ENTRY, 'helper_value', f'result of {name}, modified in place, differs from the reference by {d:g}', helper=name)
    r2 = make()
    g2 = read_mat(r2)
    d = max_diff(g2, ref)
    ctx.check(d <= TOL_ENTRY, 'helper_reuse',
              f'{name} was called, its result modified in place, and {name} called again: the second result differs from the '
              f'reference rotation by {d:g}\n want={ref}\n got ={g2}', helper=name)
    after = [observe(o, k) for o, k in watched]
    ctx.check(after == before, 'helper_arguments', f'{name} + in-place modification of its result changed an argument: {before} -> {after}',
              helper=name)
    # "no rotation" stays no rotation, whatever was done to earlier results: localise() without angles only translates
    v = [float(c) for c in desc['v']]
    org = [v[1] * 0.5 + 1.0, -v[2], v[0] + 2.0]
    for variant in ('omitted', 'None'):
        vec = sm.Vec(v[0], v[1], v[2])
        if variant == 'omitted':
            vec.localise(sm.Vec(org[0], org[1], org[2]))
        else:
            vec.localise((org[0], org[1], org[2]), None)
        got = read_vec(vec)
        want = [v[i] + org[i] for i in range(3)]
        d = max(abs(got[i] - want[i]) for i in range(3))
        ctx.check(d <= TOL_ENTRY * vnorm(want), 'localise_no_angles',
                  f'Vec{tuple(v)}.localise({org}) with angles {variant} gave {got}, expected the plain translation {want}', helper=name)
    ident = read_mat(sm.to_matrix(None))
    ctx.check(ident == r_ident(), 'identity_helper', f'to_matrix(None) is {ident}', helper=name)


def transform_block(desc, ctx, lk):
    """``with x.transform() as mat:`` for the mutable x: the matrix handed out is the rotation x stands for (identity for a
    Vec), the body may read it, rotate by it, right-multiply it or overwrite its entries; on exit x holds the result."""
    import srctools.math as sm
    body = desc.get('body')
    if body is None or lk not in ('Vec', 'Angle'):
        return
    R, rr = mk_rot(desc['right'], desc['b'])
    deg = desc['b'][1]
    probe = [1.0, -2.0, 0.5]
    if lk == 'Angle':
        obj = sm.Angle(*desc['a'])
        ref = r_rot(*read_ang(obj))
    else:
        v0 = [float(c) for c in desc['v']]
        obj = sm.Vec(v0[0], v0[1], v0[2])
        ref = r_ident()
    ctx.label('transform:' + lk)

    def same(m, when):
        g = read_mat(m)
        d = max_diff(g, ref)
        ctx.check(d <= TOL_ENTRY, 'transform_matrix',
                  f'{lk}.transform(): the matrix {when} differs from the reference by {d:g}\n want={ref}\n got ={g}', left=lk, when=when)

    with obj.transform() as m:
        ctx.check(type(m) is sm.Matrix, 'result_type', f'{lk}.transform() yielded a {type(m).__name__}')
        same(m, 'handed to the block')
        for step in body:
            ctx.label('transform_body:' + step)
            if step == 'rmul':
                m @= R
                ref = r_mul(ref, rr)
            elif step == 'spin':
                # turn about the world Z axis *before* the current rotation: new = Rz(deg) . current, written entry by entry
                new = r_mul(r_yaw(deg), read_mat(m))
                for i in range(3):
                    for j in range(3):
                        m[i, j] = new[i][j]
                ref = r_mul(r_yaw(deg), ref)
            else:
                got = read_vec(sm.Vec(probe[0], probe[1], probe[2]) @ m)
                want = r_vec(probe, ref)
                d = max(abs(got[i] - want[i]) for i in range(3))
                ctx.check(d <= TOL_ENTRY * vnorm(probe), 'transform_matrix',
                          f'{lk}.transform(): v @ mat inside the block gave {got}, the reference gives {want}', left=lk, when='read')
            same(m, 'after body step ' + step)
    if lk == 'Angle':
        got = r_rot(*read_ang(obj))
        tol = rt_tol(horiz(ref))
        d = max_diff(got, ref)
        ctx.check(d <= tol, 'transform_result',
                  f'Angle{tuple(desc["a"])}.transform() with body {body}: the angle afterwards {read_ang(obj)} differs from the '
                  f'reference rotation by {d:g} (tol {tol:g})', left=lk)
    else:
        got, want = read_vec(obj), r_vec(v0, ref)
        d = max(abs(got[i] - want[i]) for i in range(3))
        ctx.check(d <= TOL_ENTRY * vnorm(v0), 'transform_result',
                  f'Vec{tuple(v0)}.transform() with body {body}: the vector afterwards {got} differs from the reference {want} by {d:g}', left=lk)


def use_as_rotation(ctx, obj, kind, v, R, rr, when):
    """Every way of rotating by ``obj`` performs the rotation its *observable* state (pitch/yaw/roll, or entries) stands
    for - whatever was done to the object before.  'Vec @ Angle equals Vec @ Matrix.from_angle(Angle)' + Source convention."""
    import srctools.math as sm
    is_ang = kind in ('Angle', 'FrozenAngle')
    ref = r_rot(*read_ang(obj)) if is_ang else read_mat(obj)
    state = observe(obj, kind)
    want = r_vec(v, ref)
    tol = TOL_ENTRY * max(vnorm(v), 1.0)
    vec_inplace = sm.Vec(v[0], v[1], v[2])
    vec_inplace @= obj
    got_by = [
        ('Vec @ x', read_vec(sm.Vec(v[0], v[1], v[2]) @ obj)),
        ('FrozenVec @ x', read_vec(sm.FrozenVec(v[0], v[1], v[2]) @ obj)),
        ('tuple @ x', read_vec((v[0], v[1], v[2]) @ obj)),
        ('Vec @= x', read_vec(vec_inplace)),
        ('Vec @ to_matrix(x)', read_vec(sm.Vec(v[0], v[1], v[2]) @ sm.to_matrix(obj))),
    ]
    for how, got in got_by:
        d = max(abs(got[i] - want[i]) for i in range(3))
        ctx.check(d <= tol, 'rotation_after_history',
                  f'{how} with x the {kind} {state} {when} gave {got}; the rotation x stands for gives {want} (differ by {d:g}, tol {tol:g})',
                  left=kind, how=how)
    mats = [('Matrix() @ x', sm.Matrix() @ obj), ('to_matrix(x)', sm.to_matrix(obj))]
    if is_ang:
        mats += [('Matrix.from_angle(x)', sm.Matrix.from_angle(obj)), ('FrozenMatrix.from_angle(x)', sm.FrozenMatrix.from_angle(obj))]
    for how, m in mats:
        g = read_mat(m)
        d = max_diff(g, ref)
        ctx.check(d <= TOL_ENTRY, 'rotation_after_history',
                  f'{how} with x the {kind} {state} {when} differs from the rotation x stands for by {d:g}\n want={ref}\n got ={g}',
                  left=kind, how=how)
    # x as the left operand: x @ R is the rotation of x followed by R
    prod = obj @ R
    wantp = r_mul(ref, rr)
    if is_ang:
        gp, tp = r_rot(*read_ang(prod)), rt_tol(horiz(wantp))
    else:
        gp, tp = read_mat(prod), TOL_ENTRY
    d = max_diff(gp, wantp)
    ctx.check(d <= tp, 'rotation_after_history',
              f'x @ r with x the {kind} {state} {when} differs from the reference product by {d:g} (tol {tp:g})', left=kind, how='x @ r')
    after = observe(obj, kind)
    ctx.check(after == state, 'rotation_after_history', f'using the {kind} as a rotation changed it: {state} -> {after}', left=kind, how='unchanged')


def rotation_history(desc, ctx, lk):
    """use x as a rotation; change x in place; use it again; ... - one object throughout (frozen kinds: ``x @= r`` rebinds)."""
    import srctools.math as sm
    steps = desc.get('mut')
    if steps is None or lk not in ROT_KINDS:
        return
    obj, _ = mk_rot(lk, desc['a'], desc.get('rl', 0))
    R, rr = mk_rot(desc['right'], desc['b'], desc.get('rr', 0))
    v = [float(c) for c in desc['v']]
    b = desc['b']
    use_as_rotation(ctx, obj, lk, v, R, rr, 'freshly built')
    done = []
    for n, step in enumerate(steps):
        if lk != 'Angle' and step in ('set_attr', 'set_item', 'imul', 'transform'):
            step = 'imatmul'        # only the mutable Angle has these; a matrix with entries overwritten is no rotation
        ctx.label(f'history:{lk}:{step}')
        if step == 'imatmul':
            obj = operator.imatmul(obj, R)
        elif step == 'imatmul_self':
            obj = operator.imatmul(obj, obj)
        elif step == 'set_attr':
            setattr(obj, ('pitch', 'yaw', 'roll')[n % 3], b[n % 3])
        elif step == 'set_item':
            obj[(0, 'y', 'roll', 'pit', 1, 'r')[(n + len(steps)) % 6]] = b[(n + 1) % 3]
        elif step == 'imul':
            obj = operator.imul(obj, 0.5)
        elif step == 'transform':
            with obj.transform() as m:
                m @= R
        done.append(step)
        ctx.check(type(obj) is kind_class(lk), 'result_type', f'{lk} after {done} is a {type(obj).__name__}', left=lk)
        use_as_rotation(ctx, obj, lk, v, R, rr, f'after the in-place steps {done} (r = {desc["right"]}{b})')


def exec_inplace(desc, ctx):
    lk, rk = desc['left'], desc['right']
    desc = dict(desc, form='imatmul')
    L, R, rr, lref, res, before_l, before_r = _run_mix(desc, ctx)
    if lk in MUTABLE:
        ctx.check(res is L, 'identity',
                  f'x @= r with x a {lk} and r a {rk} rebinds x to a new {type(res).__name__} instead of updating it in place',
                  left=lk, right=rk)
    # same value as the plain operator
    L2 = mk_vec(lk, desc['v']) if lk in VEC_KINDS else mk_rot(lk, desc['a'])[0]
    plain = L2 @ R
    ctx.check(type(plain) is type(res), 'same_type', f'{lk} @= {rk} gives {type(res).__name__}, {lk} @ {rk} gives {type(plain).__name__}')
    if lk in VEC_KINDS:
        g1, g2 = read_vec(res), read_vec(plain)
        d, t = max(abs(g1[i] - g2[i]) for i in range(3)), TOL_ENTRY * vnorm(lref)
    elif lk in ('Matrix', 'FrozenMatrix'):
        g1, g2 = read_mat(res), read_mat(plain)
        d, t = max_diff(g1, g2), TOL_ENTRY
    else:
        g1, g2 = read_ang(res), read_ang(plain)
        d, t = max_diff(r_rot(*g1), r_rot(*g2)), rt_tol(horiz(r_mul(lref, rr)))
    ctx.check(d <= t, 'same_value', f'{lk} @= {rk} gives {g1} but {lk} @ {rk} gives {g2} (differ by {d:g}, tol {t:g})',
              left=lk, right=rk)
    # the same object on both sides: x @= x (and x @ x) is the rotation applied twice
    if lk in ROT_KINDS:
        X, xref = mk_rot(lk, desc['a'])
        want = r_mul(xref, xref)
        both = X @ X
        gb = read_mat(both) if lk.endswith('Matrix') else r_rot(*read_ang(both))
        tol = TOL_ASSOC if lk.endswith('Matrix') else rt_tol(horiz(want))
        ctx.check(max_diff(gb, want) <= tol, 'self_product',
                  f'x @ x with x the same {lk}{desc["a"]} differs from the rotation applied twice by {max_diff(gb, want):g}', left=lk)
        Y = X
        Y @= X
        gy = read_mat(Y) if lk.endswith('Matrix') else r_rot(*read_ang(Y))
        ctx.check(max_diff(gy, want) <= tol, 'self_product_inplace',
                  f'x @= x with x the same {lk}{desc["a"]} differs from the rotation applied twice by {max_diff(gy, want):g}', left=lk)
        ctx.label('alias:x@=x')
    transform_block(desc, ctx, lk)
    rotation_history(desc, ctx, lk)


# ------------------------------------------------------------------ rotation sources for roundtrip / inverse

SOURCES = ['angle', 'product', 'axis_angle', 'basis', 'transpose']
BASIS_AXES = ['xy', 'xz', 'yz', 'xyz']


def source_strategy(tier):
    scale = st.one_of(st.just(1.0), st.floats(1e-3, 1e4))
    return st.fixed_dictionaries({
        'src': st.sampled_from(SOURCES), 'cls': st.sampled_from(MAT_KINDS),
        'a': angle_triple(), 'b': angle_triple(),
        'axis': vector(), 'deg': comp(),
        'axes': st.sampled_from(BASIS_AXES), 'scales': st.tuples(scale, scale, scale).map(list),
        'vt': st.sampled_from(['Vec', 'FrozenVec']),
    })


def source_enumerate(tier):
    if tier == 'quick':
        return
    for n, a in enumerate(grid_triples(15)):
        yield {'src': 'angle', 'cls': MAT_KINDS[n % 2], 'a': a, 'b': [0.0, 0.0, 0.0], 'axis': [0.0, 0.0, 1.0], 'deg': 0.0,
               'axes': 'xy', 'scales': [1.0, 1.0, 1.0], 'vt': 'Vec'}


def build_source(desc, ctx):
    """Returns the srctools matrix, or None if the precondition (it is a rotation) cannot be established."""
    import srctools.math as sm
    cls = getattr(sm, desc['cls'])
    src = desc['src']
    a, b = desc['a'], desc['b']
    nt = classify(ctx, a)
    ctx.label('src:' + src, 'cls:' + desc['cls'])
    if src == 'angle':
        m = cls.from_angle(sm.Angle(a[0], a[1], a[2]))
    elif src == 'product':
        m = cls.from_angle(a[0], a[1], a[2]) @ sm.Matrix.from_angle(b[0], b[1], b[2])
    elif src == 'transpose':
        m = cls.from_angle(a[0], a[1], a[2]).transpose()
    elif src == 'axis_angle':
        ax = [float(c) for c in desc['axis']]
        if math.sqrt(r_dot(ax, ax)) < 1e-3:
            ax = [0.0, 0.0, 1.0]
        m = cls.axis_angle(sm.Vec(ax[0], ax[1], ax[2]), desc['deg'])
        nt = not is_mult(desc['deg'], 90.0) and sum(1 for c in ax if c) >= 2
    else:
        ref = r_rot(*a)
        vt = getattr(sm, desc['vt'])
        kw = {}
        for ax_name in desc['axes']:
            i = 'xyz'.index(ax_name)
            s = desc['scales'][i]
            kw[ax_name] = vt(ref[i][0] * s, ref[i][1] * s, ref[i][2] * s)
        m = cls.from_basis(**kw)
        ctx.label('basis:' + desc['axes'])
    ctx.nontrivial(nt)
    got = read_mat(m)
    oe, de = ortho_err(got)
    if oe > TOL_ENTRY or de > TOL_ENTRY:
        # Not claimed by the statement for axis_angle/from_basis; for angle sources this is sub-check ``build``.
        ctx.label('source_not_rotation:' + src)
        return None, got
    return m, got


def exec_roundtrip(desc, ctx):
    import srctools.math as sm
    m, got = build_source(desc, ctx)
    if m is None:
        return
    h = horiz(got)
    tol = rt_tol(h)
    if h <= GIMBAL:
        ctx.label('gimbal_h<1e-15' if h < 1e-15 else ('gimbal_h<1e-9' if h < 1e-9 else 'gimbal_h<=1e-3'))
    elif h <= 0.01:
        ctx.label('near_threshold_h<=1e-2')
    ang = m.to_angle()
    ctx.check(type(ang) is sm.Angle, 'result_type', f'to_angle() returned {type(ang).__name__}')
    back = read_mat(sm.Matrix.from_angle(ang))
    d = max_diff(back, got)
    ctx.check(d <= tol, 'to_angle_roundtrip',
              f'Matrix.from_angle(m.to_angle()) differs from m by {d:g} (tol {tol:g}, horizontal forward length {h:g})\n'
              f' m={got}\n angle={read_ang(ang)}\n back={back}', h=h)
    # the same rotation independently: the Angle must reproduce m under the reference convention too
    d2 = max_diff(r_rot(*read_ang(ang)), got)
    ctx.check(d2 <= tol, 'to_angle_reference',
              f'reference rotation of m.to_angle()={read_ang(ang)} differs from m by {d2:g} (tol {tol:g}, h={h:g})', h=h)
    ctx.check(read_mat(m) == got, 'source_unchanged', 'to_angle() changed the matrix')
    # converting the same matrix again gives the same angle, whatever was done to the first result in the meantime
    first = read_ang(ang)
    ang.pitch = first[0] + 35.0
    ang.yaw = first[1] + 90.0
    ang @= sm.Matrix.from_roll(20.0)
    again = m.to_angle()
    ctx.check(again is not ang and read_ang(again) == first, 'to_angle_repeatable',
              f'a second m.to_angle() after the first result was modified in place gave {read_ang(again)} (same object: '
              f'{again is ang}), the first call gave {first}', cls=desc['cls'])
    ctx.check(read_mat(m) == got, 'source_unchanged', 'modifying the result of to_angle() changed the matrix')


def exec_inverse(desc, ctx):
    m, got = build_source(desc, ctx)
    if m is None:
        return
    inv = m.inverse()
    tr = m.transpose()
    ctx.check(type(inv) is type(m) and type(tr) is type(m), 'result_type',
              f'inverse()/transpose() of {type(m).__name__} returned {type(inv).__name__}/{type(tr).__name__}')
    gt = read_mat(tr)
    ctx.check(gt == r_T(got), 'transpose', f'transpose() of {got} gave {gt}')
    gi = read_mat(inv)
    d = max_diff(gi, gt)
    ctx.check(d <= TOL_ASSOC, 'inverse_is_transpose', f'inverse() differs from transpose() by {d:g}\n m={got}\n inverse={gi}')
    # products formed with the harness arithmetic on the observed entries (no reliance on ``@``)
    d2 = max(max_diff(r_mul(got, gi), r_ident()), max_diff(r_mul(gi, got), r_ident()))
    ctx.check(d2 <= TOL_ASSOC, 'inverse_product', f'm . m.inverse() differs from the identity by {d2:g}\n m={got}\n inverse={gi}')
    ctx.check(read_mat(m) == got, 'source_unchanged', 'inverse()/transpose() changed the matrix')


# ------------------------------------------------------------------ registration

_PAIRS = tuple(f'{l}@{r}' for l in LEFT_KINDS for r in ROT_KINDS)
_PAIR_FORMS = tuple(f'{f}:{l}@{r}' for f in FORMS for l in LEFT_KINDS for r in ROT_KINDS)
_POOLS = ('grid15', 'pole_exact', 'pole<=1e-3', 'pole_threshold_zone', 'free_large', 'free_small', 'tiny_offset')

_ROUTES = ('route:FrozenAngle:freeze', 'route:Angle:thaw', 'route:FrozenMatrix:freeze', 'route:Matrix:thaw', 'route:FrozenVec:freeze',
           'route:Vec:thaw', 'route:Matrix:to_matrix', 'route:FrozenMatrix:to_matrix') \
    + tuple(f'route:{k}:{r}' for k in ('Vec', 'FrozenVec', 'Angle', 'FrozenAngle', 'Matrix', 'FrozenMatrix')
            for r in ('direct', 'copy', 'copy.copy', 'deepcopy', 'pickle', 'ctor', 'ctor_twin')) \
    + tuple(f'route:{k}:{r}' for k in ('Vec', 'FrozenVec', 'Angle', 'FrozenAngle') for r in ('from_str(obj)', 'from_str(twin)'))

SUBCHECKS = [
    Sub('build', exec_build, strategy=build_strategy, enumerate=build_enumerate, quick=10000, thorough=240000, floor=500,
        must_hit=tuple('a:' + p for p in _POOLS) + tuple('form:' + f for f in BUILD_FORMS)
        + tuple(f'str:bad:{b!r}' for b in BAD_ANGLE_TEXTS)),
    Sub('compose', exec_compose, strategy=compose_strategy, quick=10000, thorough=320000, floor=500,
        must_hit=('gimbal_product',) + tuple(f'{v}@{a}@{b}' for v in VEC_KINDS for a in ROT_KINDS for b in ROT_KINDS)),
    Sub('typemix', exec_typemix, strategy=typemix_strategy, quick=10000, thorough=320000, floor=500,
        must_hit=_PAIR_FORMS + ('gimbal_result',) + _ROUTES),
    Sub('operands', exec_operands, strategy=typemix_strategy, quick=6000, thorough=160000, floor=300,
        must_hit=_PAIR_FORMS + tuple('helper:' + h for h in HELPERS)),
    Sub('inplace', exec_inplace, strategy=typemix_strategy, quick=6000, thorough=160000, floor=300,
        must_hit=_PAIRS + ('transform:Vec', 'transform:Angle', 'transform_body:rmul', 'transform_body:spin', 'transform_body:read')
        + tuple(f'history:Angle:{s}' for s in MUT_STEPS) + tuple(f'history:{k}:imatmul' for k in ROT_KINDS)),
    Sub('roundtrip', exec_roundtrip, strategy=source_strategy, enumerate=source_enumerate, quick=10000, thorough=320000, floor=500,
        must_hit=tuple('src:' + s for s in SOURCES) + ('gimbal_h<1e-15', 'gimbal_h<1e-9', 'gimbal_h<=1e-3', 'near_threshold_h<=1e-2')
        + tuple('basis:' + b for b in BASIS_AXES)),
    Sub('inverse', exec_inverse, strategy=source_strategy, enumerate=source_enumerate, quick=6000, thorough=120000, floor=300,
        must_hit=tuple('src:' + s for s in SOURCES)),
]

MATCHERS = {}
