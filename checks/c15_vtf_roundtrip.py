"""C15 - VTF save/read round trip: metadata, frame structure, pixels vs. reference quantiser, resources, sheets, bounds, mipmaps (DESIGN.md section 2, C15)."""
from __future__ import annotations

import hashlib
import io
import struct

from hypothesis import strategies as st

from vlib.core import Sub, HarnessError
from vlib import gens

PROPERTY = 'C15'
LEVEL = 'exploration'
RULE = (
    'Hypothesis generates texture descriptors: power-of-two w,h (1..16 quick, ..64 + 256x1 thorough), frames 1-3, '
    'depth 1-3 or cubemap (7 faces < 7.5, 6 faces in 7.5), version 7.2-7.5 (+ save(version=) override), main format = '
    'each of the 20 formats with a Python saver, thumbnail format = those or NONE, 32-bit flags, float32 reflectivity / '
    'bump scale, pixel data from a sha256 stream / boundary-value palette / explicit tiled bytes, mips supplied or '
    'left for compute_mipmaps; the VTF is made either with VTF(...) or by VTF.read() of a hand-written RGBA8888 file '
    'with an arbitrary mip count (full chains). non-trivial = non-square or multi-frame/depth/cubemap or a '
    'reduced-precision format (resave: some frame left unloaded before save() and mipmap_count >= 2); distinct = sha1 of the descriptor JSON'
)
ASSUMPTIONS = [
    'sizes are powers of two (the constructor rejects others); cubemaps have depth 1 (constructor contract)',
    'resources / sheet data only with a written version >= 7.3 (documented: "In version 7.3+, arbitrary resources may be stored")',
    'resource ids are exactly 3 bytes, unique, and not the reserved LOW_RES/HIGH_RES/PARTICLE_SHEET ids; int payloads are 32-bit unsigned',
    'sheet sequence numbers 0..63 unique (SheetSequence.MAX_COUNT); floats are finite float32 values',
    'save(version=) override never crosses the 7.5 sphere-map boundary for cubemaps (the object has a face set the other version cannot store)',
    'main/thumbnail formats limited to those with a pure-Python saver (DXT/ATI saving is Cython-only, not buildable here)',
    'I8/IA88 "greyscale" is accepted as floor/round/ceil of the RGB mean (the docstring does not fix the rounding)',
    'thumbnail buffer is observed through the private VTF._low_res (no public accessor exists)',
]
LEVEL_TEXT = ('Generated-input search: hundreds (quick) to thousands (thorough) of textures per sub-check over the format x shape x '
              'layout x version matrix are saved, read back and compared with the descriptor, an independent reference quantiser and an '
              'independent mip-average / bounds model; held-on-everything-explored, not a proof.')
LEVEL_NOTE = ('Pure-Python codecs only (no Cython build possible); trusts Hypothesis, the harness reference quantiser and the '
              'hand-written VTF file writer used to build full-mip-chain inputs.')
TECHNIQUE = 'property-based testing (Hypothesis): round trip vs. descriptor + independent reference quantiser, idempotence, model-based bounds/mipmap oracles'
CAPS = (300, 2400)

SAVE_FORMATS = [
    'RGBA8888', 'ABGR8888', 'RGB888', 'BGR888', 'RGB565', 'I8', 'IA88', 'A8',
    'RGB888_BLUESCREEN', 'BGR888_BLUESCREEN', 'ARGB8888', 'BGRA8888', 'BGRX8888', 'BGR565',
    'BGRX5551', 'BGRA4444', 'BGRA5551', 'UV88', 'UVWQ8888', 'UVLX8888',
]
EXACT_RGBA = {'RGBA8888', 'ABGR8888', 'ARGB8888', 'BGRA8888', 'UVWQ8888', 'UVLX8888'}
EXACT_RGB = {'RGB888', 'BGR888', 'BGRX8888'}
FMT_565 = {'RGB565', 'BGR565'}
ENVMAP = 0x4000
PIXEL_LIMIT = 40000   # frames*faces*sum(mips) above this: frames/depth are reduced (pure function of the descriptor)

# ------------------------------------------------------------------ deterministic pixel data

BOUNDARY = [0, 1, 2, 3, 4, 7, 8, 9, 15, 16, 17, 31, 32, 33, 63, 64, 85, 127, 128, 129, 170, 191, 192,
            223, 224, 239, 240, 247, 248, 249, 251, 252, 253, 254, 255]
_EDGE_TABLE = bytes(BOUNDARY[i % len(BOUNDARY)] for i in range(256))


def prng_bytes(key: str, n: int) -> bytes:
    """sha256 in counter mode - the only 'randomness' used inside execute."""
    out = bytearray()
    i = 0
    while len(out) < n:
        out += hashlib.sha256(f'{key}/{i}'.encode('ascii')).digest()
        i += 1
    return bytes(out[:n])


def make_pixels(pix: dict, key: str, npix: int) -> bytes:
    """RGBA bytes for one image, from the pixel descriptor."""
    kind = pix['kind']
    if kind == 'seed':
        return prng_bytes(f"s{pix['seed']}:{key}", 4 * npix)
    if kind == 'edge':
        raw = prng_bytes(f"e{pix['seed']}:{key}", 4 * npix)
        out = bytearray(raw.translate(_EDGE_TABLE))
        for i in range(npix):   # sprinkle the bluescreen key colour with boundary alphas
            if raw[4 * i] < 24:
                out[4 * i] = 0
                out[4 * i + 1] = 0
                out[4 * i + 2] = 255
        return bytes(out)
    if kind == 'ramp':   # every byte value in every channel
        k = pix['variant']
        out = bytearray()
        for i in range(npix):
            j = i & 255
            if k == 0:
                out += bytes((j, j, j, j))
            elif k == 1:
                out += bytes((j, 255 - j, (j * 7 + 3) & 255, (j * 13 + 128) & 255))
            else:
                out += bytes(((j + 170) & 255, (j + 85) & 255, j, 127 + (j & 1)))
        return bytes(out)
    if kind == 'tile':
        tile = bytes.fromhex(pix['data']) or b'\0'
        rot = sum(key.encode('ascii')) % len(tile)
        tile = tile[rot:] + tile[:rot]
        reps = (4 * npix) // len(tile) + 1
        return (tile * reps)[:4 * npix]
    raise HarnessError(f'bad pixel descriptor {pix!r}')


def pix_strategy():
    return st.one_of(
        st.fixed_dictionaries({'kind': st.just('tile'), 'data': st.binary(min_size=0, max_size=32).map(bytes.hex)}),
        st.fixed_dictionaries({'kind': st.just('seed'), 'seed': st.integers(0, 1 << 20)}),
        st.fixed_dictionaries({'kind': st.just('edge'), 'seed': st.integers(0, 1 << 20)}),
        st.fixed_dictionaries({'kind': st.just('tile'), 'data': st.lists(
            st.sampled_from(BOUNDARY), min_size=4, max_size=32).map(lambda l: bytes(l).hex())}),
    )


# ------------------------------------------------------------------ independent reference quantiser

def _rep(x: int, bits: int) -> int:
    """Keep the top `bits` bits, refill the freed low bits from the most significant ones."""
    q = x >> (8 - bits)
    return (q << (8 - bits)) | (q >> (2 * bits - 8))


_T5 = bytes(_rep(x, 5) for x in range(256))
_T6 = bytes(_rep(x, 6) for x in range(256))
_T4 = bytes((x >> 4) * 17 for x in range(256))
_T1 = bytes(255 if x >= 128 else 0 for x in range(256))
_ID = bytes(range(256))
_FF = bytes([255]) * 256
_00 = bytes(256)

# channel-separable formats: translation table per RGBA channel
CHANNEL_TABLES = {
    **{f: (_ID, _ID, _ID, _ID) for f in EXACT_RGBA},
    **{f: (_ID, _ID, _ID, _FF) for f in EXACT_RGB},
    'RGB565': (_T5, _T6, _T5, _FF), 'BGR565': (_T5, _T6, _T5, _FF),
    'BGRA4444': (_T4, _T4, _T4, _T4),
    'BGRA5551': (_T5, _T5, _T5, _T1), 'BGRX5551': (_T5, _T5, _T5, _FF),
    'A8': (_00, _00, _00, _ID),
    'UV88': (_ID, _ID, _00, _FF),
}


def quantise(fmt: str, src: bytes) -> bytes:
    """Documented stored value of RGBA `src` in format `fmt` (I8/IA88: floor mean, tolerance handled in compare)."""
    if fmt in CHANNEL_TABLES:
        out = bytearray(len(src))
        for c, tab in enumerate(CHANNEL_TABLES[fmt]):
            out[c::4] = src[c::4].translate(tab)
        return bytes(out)
    out = bytearray(len(src))
    if fmt in ('I8', 'IA88'):
        for o in range(0, len(src), 4):
            i = (src[o] + src[o + 1] + src[o + 2]) // 3
            out[o] = out[o + 1] = out[o + 2] = i
            out[o + 3] = src[o + 3] if fmt == 'IA88' else 255
        return bytes(out)
    if fmt in ('RGB888_BLUESCREEN', 'BGR888_BLUESCREEN'):
        for o in range(0, len(src), 4):
            r, g, b, a = src[o:o + 4]
            if a < 128 or (r == 0 and g == 0 and b == 255):
                continue  # transparent black
            out[o], out[o + 1], out[o + 2], out[o + 3] = r, g, b, 255
        return bytes(out)
    raise HarnessError(f'no reference quantiser for {fmt}')


def swap_rb(data: bytes) -> bytes:
    out = bytearray(data)
    out[0::4] = data[2::4]
    out[2::4] = data[0::4]
    return bytes(out)


def pixel_diff(fmt: str, src: bytes, got: bytes, width: int):
    """None if `got` is an acceptable stored form of `src`; else a text describing the first bad pixel."""
    want = quantise(fmt, src)
    if len(got) != len(want):
        return f'buffer length {len(got)} != {len(want)}'
    if got == want:
        return None
    for o in range(0, len(want), 4):
        g, w_ = got[o:o + 4], want[o:o + 4]
        if g == w_:
            continue
        if fmt in ('I8', 'IA88'):
            s = src[o] + src[o + 1] + src[o + 2]
            if g[0] == g[1] == g[2] and abs(3 * g[0] - s) <= 2 and g[3] == w_[3]:
                continue
        i = o // 4
        return (f'pixel (x={i % width}, y={i // width}): input={tuple(src[o:o + 4])} '
                f'want={tuple(w_)} got={tuple(g)}')
    return None


# ------------------------------------------------------------------ texture descriptors

def full_chain(w: int, h: int) -> int:
    return max(w, h).bit_length()


def mip_dims(w: int, h: int, m: int):
    return max(w >> m, 1), max(h >> m, 1)


def shape_class(w: int, h: int) -> str:
    if w == 1 and h == 1:
        return '1x1'
    if w == 1 or h == 1:
        return '1xN'
    return 'square' if w == h else ('wide' if w > h else 'tall')


def size_strategy(tier: str, small: bool = False):
    if small:
        sides = [1, 2, 4, 8]
    elif tier == 'quick':
        sides = [1, 2, 4, 8, 16]
    else:
        sides = [1, 2, 4, 8, 16, 32, 64]
    pair = st.tuples(st.sampled_from(sides), st.sampled_from(sides)).map(list)
    if tier == 'thorough' and not small:
        return st.one_of(pair, pair, pair, pair, pair, pair, pair, pair, pair,
                         st.sampled_from([[256, 1], [1, 256], [128, 2], [2, 128], [128, 1]]))
    return pair


def flags_strategy():
    return st.one_of(st.just(0), st.integers(0, (1 << 32) - 1),
                     st.lists(st.integers(0, 31), max_size=4).map(lambda bits: sum({1 << b for b in bits})))


def tex_strategy(tier: str, *, small: bool = False, fmts=None, thumbs=None):
    fmts = fmts or SAVE_FORMATS
    thumbs = thumbs or (['NONE'] + SAVE_FORMATS)
    return st.fixed_dictionaries({
        'origin': st.sampled_from(['ctor', 'ctor', 'file']),
        'size': size_strategy(tier, small),
        'frames': st.sampled_from([1, 1, 2, 3]),
        'layout': st.sampled_from(['flat', 'flat', 'depth2', 'depth3', 'cube', 'cube']),
        'version': st.sampled_from([2, 3, 4, 5]),
        'save_version': st.one_of(st.none(), st.none(), st.sampled_from([2, 3, 4, 5])),
        'fmt': st.sampled_from(fmts),
        'thumb': st.sampled_from(thumbs),
        'flags': flags_strategy(),
        'ref': st.lists(gens.f32(), min_size=3, max_size=3),
        'bump': gens.f32(),
        'first_frame': st.sampled_from([0, 0, 1, 7, 65535]),
        'pix': pix_strategy(),
        'mips': st.sampled_from(['supply', 'compute', 'blank']),
        'file_mips': st.integers(0, 9),
        'thumb_seed': st.one_of(st.none(), st.integers(0, 1000)),
    })


class Tex:
    """A texture descriptor, normalised (pure function of the descriptor)."""
    def __init__(self, t: dict) -> None:
        self.t = t
        self.origin = t['origin']
        self.w, self.h = t['size']
        self.frames = t['frames']
        self.cube = t['layout'] == 'cube'
        self.depth = {'flat': 1, 'cube': 1, 'depth2': 2, 'depth3': 3}[t['layout']]
        self.minor = t['version']
        sv = t.get('save_version')
        if sv is not None and self.cube and (sv >= 5) != (self.minor >= 5):
            sv = None   # see ASSUMPTIONS: face sets differ
        self.save_minor = sv
        self.final_minor = self.minor if sv is None else sv
        self.fmt = t['fmt']
        self.thumb = t['thumb']
        self.flags = (t['flags'] | ENVMAP) if self.cube else (t['flags'] & ~ENVMAP)
        self.ref = [gens.to_f32(x) for x in t['ref']]
        self.bump = gens.to_f32(t['bump'])
        self.first_frame = t['first_frame']
        self.pix = t['pix']
        self.mips_mode = t['mips']
        self.nfaces = (6 if self.minor >= 5 else 7) if self.cube else self.depth
        full = full_chain(self.w, self.h)
        fm = t['file_mips']
        self.file_mips = full if fm == 0 or fm > full else fm
        # cost bound
        per = sum(mip_dims(self.w, self.h, m)[0] * mip_dims(self.w, self.h, m)[1] for m in range(full))
        if self.frames * self.nfaces * per > PIXEL_LIMIT:
            self.frames = 1
        if self.frames * self.nfaces * per > PIXEL_LIMIT and not self.cube:
            self.depth = self.nfaces = 1
        self.thumb_dims = (16, 16) if self.origin == 'ctor' else (
            (0, 0) if self.thumb == 'NONE' else (min(16, self.w), min(16, self.h)))

    @property
    def layout(self) -> str:
        if self.cube:
            return f'cube{self.nfaces}'
        if self.depth > 1:
            return 'depth'
        return 'frames' if self.frames > 1 else 'single'

    def keys(self, n_mips: int):
        return [(f, s, m) for m in range(n_mips) for f in range(self.frames) for s in range(self.nfaces)]

    def label(self, ctx, nontrivial: bool = True) -> None:
        sc = shape_class(self.w, self.h)
        ctx.label(f'{self.fmt}|{sc}|7.{self.final_minor}', 'fmt:' + self.fmt, 'shape:' + sc,
                  f'ver:7.{self.final_minor}', 'layout:' + self.layout, 'origin:' + self.origin,
                  'thumb:' + self.thumb, 'mips:' + self.mips_mode)
        if self.save_minor is not None and self.save_minor != self.minor:
            ctx.label('version_override')
        if nontrivial:
            ctx.nontrivial(sc != 'square' and sc != '1x1' or self.frames > 1 or self.nfaces > 1
                           or self.fmt not in EXACT_RGBA | EXACT_RGB)


def get_frame(vtf, tex: Tex, key):
    from srctools.vtf import CubeSide
    f, s, m = key
    if tex.cube:
        return vtf.get(frame=f, side=CubeSide(s), mipmap=m)
    return vtf.get(frame=f, depth=s, mipmap=m)


def frame_bytes(frame) -> bytes:
    return memoryview(frame).tobytes()


def frame_keyset(vtf):
    """The frame table as sorted (frame, face/slice index, mip) tuples."""
    res = []
    for (f, s, m) in vtf._frames:
        res.append((f, getattr(s, 'value', s), m))
    return sorted(res)


# published VTF image format numbers and bytes per pixel of the uncompressed formats
FORMAT_INDEX = {'RGBA8888': 0, 'ABGR8888': 1, 'RGB888': 2, 'BGR888': 3, 'RGB565': 4, 'I8': 5, 'IA88': 6, 'A8': 8,
                'RGB888_BLUESCREEN': 9, 'BGR888_BLUESCREEN': 10, 'ARGB8888': 11, 'BGRA8888': 12, 'BGRX8888': 16,
                'BGR565': 17, 'BGRX5551': 18, 'BGRA4444': 19, 'BGRA5551': 21, 'UV88': 22, 'UVWQ8888': 23, 'UVLX8888': 26}
BPP = {'RGBA8888': 4, 'ABGR8888': 4, 'ARGB8888': 4, 'BGRA8888': 4, 'BGRX8888': 4, 'UVWQ8888': 4, 'UVLX8888': 4,
       'RGB888': 3, 'BGR888': 3, 'RGB888_BLUESCREEN': 3, 'BGR888_BLUESCREEN': 3, 'RGB565': 2, 'BGR565': 2,
       'BGRX5551': 2, 'BGRA4444': 2, 'BGRA5551': 2, 'IA88': 2, 'UV88': 2, 'I8': 1, 'A8': 1, 'NONE': 0}


def handmade_file(tex: Tex, n_mips: int, data: dict, thumb: bytes, fmt_index: int = 0) -> bytes:
    """Write a VTF by hand, from the published file layout, independent of VTF.save().

    `data` holds the raw stored bytes of every frame in format number `fmt_index` (default RGBA8888); the
    thumbnail, if any, is RGBA8888.
    """
    minor = tex.minor
    n_res = 2
    header_size = 80 + (8 * n_res if minor >= 3 else 0)
    tw, th = tex.thumb_dims
    low_fmt = -1 if tex.thumb == 'NONE' else 0
    out = bytearray(b'VTF\0')
    out += struct.pack('<II', 7, minor)
    out += struct.pack('<I', header_size)
    out += struct.pack('<HHIHH4x3f4xfiBiBB', tex.w, tex.h, tex.flags, tex.frames, tex.first_frame,
                       tex.ref[0], tex.ref[1], tex.ref[2], tex.bump, fmt_index, n_mips, low_fmt, tw, th)
    out += struct.pack('<H', tex.depth)
    if minor >= 3:
        out += bytes(3) + struct.pack('<I', n_res) + bytes(8)
        out += b'\x01\0\0\0' + struct.pack('<I', header_size)
        out += b'\x30\0\0\0' + struct.pack('<I', header_size + len(thumb))
    else:
        out += bytes(15)
    if len(out) != header_size:
        raise HarnessError(f'handmade header is {len(out)} bytes, expected {header_size}')
    out += thumb
    for m in reversed(range(n_mips)):
        for f in range(tex.frames):
            for s in range(tex.nfaces):
                out += data[f, s, m]
    return bytes(out)


class Built:
    pass


def build(tex: Tex, *, resources=None, sheet=None):
    """Make the VTF object described by `tex`.  Returns a Built with .v, .n_mips, .supplied {key: bytes}."""
    from srctools.vtf import VTF, ImageFormats, VTFFlags, Resource
    from srctools.math import Vec
    b = Built()
    b.supplied = {}
    b.thumb_supplied = None
    use_res = tex.final_minor >= 3
    sheet_objs = make_sheet(sheet) if (sheet and use_res) else {}
    if tex.origin == 'ctor':
        v = VTF(tex.w, tex.h, version=(7, tex.minor), ref=Vec(*tex.ref), frames=tex.frames,
                bump_scale=tex.bump, sheet_info=sheet_objs, flags=VTFFlags(tex.flags),
                fmt=ImageFormats[tex.fmt], thumb_fmt=ImageFormats[tex.thumb], depth=tex.depth)
        v.first_frame_index = tex.first_frame
        b.n_mips = v.mipmap_count
        for key in tex.keys(b.n_mips):
            f, s, m = key
            if tex.mips_mode == 'blank' or (tex.mips_mode == 'compute' and m > 0):
                continue
            mw, mh = mip_dims(tex.w, tex.h, m)
            data = make_pixels(tex.pix, f'{f}.{s}.{m}', mw * mh)
            get_frame(v, tex, key).copy_from(data)
            b.supplied[key] = data
        if tex.t.get('thumb_seed') is not None and tex.thumb != 'NONE' and hasattr(v, '_low_res'):
            td = make_pixels({'kind': 'seed', 'seed': tex.t['thumb_seed']}, 'thumb', 16 * 16)
            v._low_res.copy_from(td)
            b.thumb_supplied = td
    else:
        n = tex.file_mips
        data = {}
        for key in tex.keys(n):
            f, s, m = key
            mw, mh = mip_dims(tex.w, tex.h, m)
            data[key] = make_pixels(tex.pix, f'{f}.{s}.{m}', mw * mh)
        tw, th = tex.thumb_dims
        thumb = b''
        if tex.thumb != 'NONE':
            seed = tex.t.get('thumb_seed')
            thumb = make_pixels({'kind': 'seed', 'seed': seed or 0}, 'thumb', tw * th)
        raw = handmade_file(tex, n, data, thumb)
        v = VTF.read(io.BytesIO(raw))
        v.load()
        # harness self-check: the hand-written file must be understood as written
        if (v.width, v.height, v.mipmap_count, v.frame_count, v.depth) != (tex.w, tex.h, n, tex.frames, tex.depth) \
                or frame_keyset(v) != sorted(tex.keys(n)):
            raise HarnessError('hand-written VTF was not read back with the structure it was written with')
        for key in tex.keys(n):
            if frame_bytes(get_frame(v, tex, key)) != data[key]:
                raise HarnessError(f'hand-written VTF: frame {key} read differently from what was written')
        v.format = ImageFormats[tex.fmt]
        if tex.thumb != 'NONE':
            v.low_format = ImageFormats[tex.thumb]
            b.thumb_supplied = thumb
        if sheet_objs:
            v.sheet_info = sheet_objs
        b.n_mips = n
        if tex.mips_mode == 'compute':
            v.clear_mipmaps()
            b.supplied = {k: d for k, d in data.items() if k[2] == 0}
            b.thumb_supplied = None
        else:
            b.supplied = data
    if resources and use_res:
        for key, flags, payload in resources:
            v.resources[res_key(key)] = Resource(flags, payload if isinstance(payload, int) else bytes.fromhex(payload['hex']))
    b.v = v
    return b


def save_and_read(tex: Tex, v, sheet_version=None):
    from srctools.vtf import VTF
    buf = io.BytesIO()
    kw = {}
    if tex.save_minor is not None:
        kw['version'] = (7, tex.save_minor)
    if sheet_version is not None:
        kw['sheet_seq_version'] = sheet_version
    v.save(buf, **kw)
    raw = buf.getvalue()
    r = VTF.read(io.BytesIO(raw))
    r.load()
    return raw, r


# ------------------------------------------------------------------ resources / sheets

RESERVED_IDS = {b'\x01\0\0', b'\x30\0\0', b'\x10\0\0'}
ENUM_IDS = ['CRC', 'LOD_SETTINGS', 'EXTRA_FLAGS', 'KEYVALUES']


def res_key(key):
    from srctools.vtf import ResourceID
    if 'enum' in key:
        return ResourceID[key['enum']]
    return bytes.fromhex(key['raw'])


def res_raw(key) -> bytes:
    """Raw 3-byte id of a resources-dict key (ResourceID member or bytes)."""
    return bytes(getattr(key, 'value', key))


def resources_strategy():
    raw_id = st.one_of(
        st.binary(min_size=3, max_size=3),
        st.sampled_from([b'CRC', b'KVD', b'abc', b'\0\0\0', b'\xff\xff\xff', b'\x01\0\x01', b'\x02\0\0']),
    ).filter(lambda b: b not in RESERVED_IDS).map(lambda b: {'raw': b.hex()})
    key = st.one_of(raw_id, st.sampled_from(ENUM_IDS).map(lambda n: {'enum': n}))
    payload = st.one_of(
        st.sampled_from([0, 1, 0xFFFFFFFF, 0x80000000]), st.integers(0, (1 << 32) - 1),
        st.binary(max_size=40).map(lambda b: {'hex': b.hex()}),
    )
    flags = st.one_of(st.sampled_from([0, 2, 1, 0xFF, 0xFD]), st.integers(0, 255))

    def uniq(items):
        seen, out = set(), []
        for k, f, p in items:
            raw = bytes.fromhex(k['raw']) if 'raw' in k else {'CRC': b'CRC', 'LOD_SETTINGS': b'LOD',
                                                             'EXTRA_FLAGS': b'TSO', 'KEYVALUES': b'KVD'}[k['enum']]
            if raw in seen:
                continue
            seen.add(raw)
            out.append([k, f, p])
        return out
    return st.lists(st.tuples(key, flags, payload), max_size=6).map(uniq)


def sheet_strategy():
    f = gens.f32(-1e4, 1e4)
    coord = st.lists(f, min_size=4, max_size=4)
    frame = st.tuples(f, st.lists(coord, min_size=4, max_size=4)).map(list)
    seq = st.fixed_dictionaries({
        'num': st.integers(0, 63), 'clamp': st.booleans(), 'duration': f,
        'frames': st.lists(frame, max_size=3),
    })

    def uniq(seqs):
        seen, out = set(), []
        for s in seqs:
            if s['num'] not in seen:
                seen.add(s['num'])
                out.append(s)
        return out
    return st.one_of(
        st.lists(seq, max_size=5).map(uniq),
        st.lists(seq, min_size=1, max_size=5).map(uniq),
        st.integers(60, 64).map(lambda n: [{'num': (i * 7) % 64, 'clamp': bool(i & 1), 'duration': float(i), 'frames': []}
                                           for i in range(n)]),
    )


def make_sheet(sheet):
    from srctools.vtf import SheetSequence, TexCoord
    res = {}
    for s in sheet:
        frames = [(gens.to_f32(d), *[TexCoord(*[gens.to_f32(c) for c in tc]) for tc in coords]) for d, coords in s['frames']]
        res[s['num']] = SheetSequence(frames, s['clamp'], gens.to_f32(s['duration']))
    return res


def sheet_model(sheet, version: int):
    """What must come back: version 0 keeps only the first TexCoord (documented), repeated 4 times."""
    res = {}
    for s in sheet:
        frames = []
        for d, coords in s['frames']:
            cs = [tuple(gens.to_f32(c) for c in tc) for tc in coords]
            if version == 0:
                cs = [cs[0]] * 4
            frames.append((gens.to_f32(d), cs))
        res[s['num']] = (bool(s['clamp']), gens.to_f32(s['duration']), frames)
    return res


def sheet_observed(info):
    res = {}
    for num, seq in info.items():
        frames = []
        for fr in seq.frames:
            frames.append((fr[0], [(tc.left, tc.top, tc.right, tc.bottom) for tc in fr[1:]]))
        res[num] = (bool(seq.clamp), seq.duration, frames)
    return res


# ------------------------------------------------------------------ sub-check: meta

def execute_meta(desc, ctx):
    from srctools.vtf import VTFFlags, ImageFormats
    tex = Tex(desc['tex'])
    tex.label(ctx)
    b = build(tex)
    v = b.v
    raw, r = save_and_read(tex, v)
    want = {
        'width': tex.w, 'height': tex.h, 'depth': tex.depth, 'frame_count': tex.frames,
        'mipmap_count': b.n_mips, 'flags': VTFFlags(tex.flags), 'format': ImageFormats[tex.fmt],
        'low_format': ImageFormats[tex.thumb], 'version': (7, tex.final_minor),
        'first_frame_index': tex.first_frame, 'bumpmap_scale': tex.bump,
    }
    for name, w_ in want.items():
        got = getattr(r, name)
        ctx.check(got == w_ and type(got) is type(w_), 'meta_' + name,
                  f'{name}: read back {got!r}, saved {w_!r} (object had {getattr(v, name)!r})', field=name)
    got_ref = [r.reflectivity.x, r.reflectivity.y, r.reflectivity.z]
    ctx.check(got_ref == tex.ref, 'meta_reflectivity', f'reflectivity: read back {got_ref!r}, saved {tex.ref!r}',
              field='reflectivity')
    # saving must not change the object's own metadata either
    for name, w_ in want.items():
        if name == 'version':
            w_ = (7, tex.minor)
        ctx.check(getattr(v, name) == w_, 'save_changed_object', f'save() changed {name} of the saved object: '
                  f'{getattr(v, name)!r} != {w_!r}', field=name)


def meta_strategy(tier):
    return st.fixed_dictionaries({'tex': tex_strategy(tier, small=True)})


# ------------------------------------------------------------------ sub-check: structure

def check_structure(ctx, tex: Tex, obj, n_mips, who: str, **facts):
    keys = frame_keyset(obj)
    want_keys = sorted(tex.keys(n_mips))
    ok = ctx.check(keys == want_keys, 'frame_keys',
                   f'{who}: frame table differs from frames x faces x range(mipmap_count={n_mips}):\n'
                   f' extra={sorted(set(keys) - set(want_keys))[:8]} missing={sorted(set(want_keys) - set(keys))[:8]}',
                   who=who, **facts)
    ctx.check(len(obj) == len(keys), 'len', f'{who}: len() = {len(obj)} but {len(keys)} frames', who=who, **facts)
    if not ok:
        return
    for key in want_keys:
        fr = get_frame(obj, tex, key)
        dims = (fr.width, fr.height)
        ctx.check(dims == mip_dims(tex.w, tex.h, key[2]), 'mip_dims',
                  f'{who}: frame {key} is {dims}, expected {mip_dims(tex.w, tex.h, key[2])} for {tex.w}x{tex.h}',
                  who=who, **facts)


def execute_structure(desc, ctx):
    tex = Tex(desc['tex'])
    tex.label(ctx)
    b = build(tex)
    v = b.v
    facts = dict(origin=tex.origin, min_side=min(tex.w, tex.h))
    ctx.check(v.mipmap_count >= 1, 'at_least_one_mip',
              f'{tex.origin}-made {tex.w}x{tex.h} VTF declares mipmap_count={v.mipmap_count}', who='object', **facts)
    check_structure(ctx, tex, v, v.mipmap_count, 'object before save', **facts)
    raw, r = save_and_read(tex, v)
    ctx.check(r.mipmap_count == v.mipmap_count, 'mipmap_count', f'read back {r.mipmap_count}, object {v.mipmap_count}', **facts)
    ctx.check(frame_keyset(r) == frame_keyset(v), 'same_keys',
              f'read-back frame table differs from the saved object: object-only='
              f'{sorted(set(frame_keyset(v)) - set(frame_keyset(r)))[:8]} file-only={sorted(set(frame_keyset(r)) - set(frame_keyset(v)))[:8]}',
              **facts)
    ctx.check(len(r) == len(v), 'same_len', f'len(read)={len(r)} len(object)={len(v)}', **facts)
    if ctx.check(len(r) >= 1, 'at_least_one_frame', f'{tex.w}x{tex.h} texture was saved with no frames at all', **facts):
        fr = get_frame(r, tex, (0, 0, 0))
        ctx.check((fr.width, fr.height) == (tex.w, tex.h), 'get_default', f'get() gives {(fr.width, fr.height)}', **facts)
    check_structure(ctx, tex, r, r.mipmap_count, 'read back', **facts)
    # the file holds exactly the declared image data (uncompressed formats: size*w*h/8 per frame)
    bpp = {'RGBA8888': 4, 'ABGR8888': 4, 'ARGB8888': 4, 'BGRA8888': 4, 'BGRX8888': 4, 'UVWQ8888': 4, 'UVLX8888': 4,
           'RGB888': 3, 'BGR888': 3, 'RGB888_BLUESCREEN': 3, 'BGR888_BLUESCREEN': 3, 'RGB565': 2, 'BGR565': 2,
           'BGRX5551': 2, 'BGRA4444': 2, 'BGRA5551': 2, 'IA88': 2, 'UV88': 2, 'I8': 1, 'A8': 1, 'NONE': 0}
    tw, th = tex.thumb_dims
    body = tw * th * bpp[tex.thumb] + sum(
        bpp[tex.fmt] * mip_dims(tex.w, tex.h, m)[0] * mip_dims(tex.w, tex.h, m)[1] for (_, _, m) in tex.keys(r.mipmap_count))
    header = 80 + (16 if tex.final_minor >= 3 else 0)
    ctx.check(len(raw) == header + body, 'file_size',
              f'file is {len(raw)} bytes, declared structure needs {header}+{body}', **facts)


# ------------------------------------------------------------------ sub-check: pixels

def execute_pixels(desc, ctx):
    tex = Tex(desc['tex'])
    tex.label(ctx)
    b = build(tex)
    v = b.v
    raw, r = save_and_read(tex, v)
    keys = [k for k in tex.keys(b.n_mips) if k in set(frame_keyset(v)) and k in set(frame_keyset(r))]
    known_hit = False
    inputs = {}
    for key in keys:
        src = frame_bytes(get_frame(v, tex, key))
        inputs[key] = src
        if key in b.supplied:
            ctx.check(src == b.supplied[key], 'save_changed_input', f'save() modified the supplied pixels of frame {key}')
        elif key[2] == 0:
            ctx.check(src == b'\0\0\0\xff' * (tex.w * tex.h), 'blank_frame', f'unfilled frame {key} is not opaque black')
        got = frame_bytes(get_frame(r, tex, key))
        mw, mh = mip_dims(tex.w, tex.h, key[2])
        check_buffer_view(ctx, get_frame(r, tex, key), got, mw, mh, f'read-back frame {key}', full=False)
        diff = pixel_diff(tex.fmt, src, got, mw)
        if diff is not None:
            swapped = pixel_diff(tex.fmt, swap_rb(src), got, mw) is None
            if not ctx.check(False, 'pixels', f'{tex.fmt} {tex.w}x{tex.h} frame {key} (frame, face, mip): {diff}'
                             + (' [whole frame equals the reference with R and B exchanged]' if swapped else ''),
                             fmt=tex.fmt, rb_swapped=swapped, what='main'):
                known_hit = True
    # thumbnail.  compute_mipmaps() (run by every save) rebuilds it from the mip of twice its size when there is one;
    # then it is derived data: checked against what was actually stored, but not for second-generation identity
    # (the main image it is rebuilt from may legitimately have lost e.g. its alpha channel).
    tw, th = tex.thumb_dims
    regen = any((mip_dims(tex.w, tex.h, m)[0] // 2, mip_dims(tex.w, tex.h, m)[1] // 2) == (tw, th) for m in range(b.n_mips))
    if regen:
        ctx.label('thumb_regenerated')
    thumb_ok = False
    if tex.thumb != 'NONE' and hasattr(v, '_low_res') and hasattr(r, '_low_res'):
        lv, lr = v._low_res, r._low_res
        ctx.label('thumb_checked')
        if ctx.check((lr.width, lr.height) == (lv.width, lv.height) == tex.thumb_dims, 'thumb_dims',
                     f'thumbnail {(lr.width, lr.height)} read, {(lv.width, lv.height)} saved, {tex.thumb_dims} expected'):
            tsrc = frame_bytes(lv)
            if b.thumb_supplied is not None and not regen:
                ctx.check(tsrc == b.thumb_supplied, 'save_changed_thumb', 'save() modified the supplied thumbnail')
            diff = pixel_diff(tex.thumb, tsrc, frame_bytes(lr), lv.width) if lv.width else None
            thumb_ok = True
            if diff is not None:
                swapped = pixel_diff(tex.thumb, swap_rb(tsrc), frame_bytes(lr), lv.width) is None
                if not ctx.check(False, 'thumb_pixels', f'thumbnail {tex.thumb}: {diff}'
                                 + (' [equals the reference with R and B exchanged]' if swapped else ''),
                                 fmt=tex.thumb, rb_swapped=swapped, what='thumb'):
                    known_hit = True
    # storing the read-back pixels again changes nothing
    tex2 = Tex(dict(desc['tex'], save_version=None, version=tex.final_minor))
    gen1 = {key: frame_bytes(get_frame(r, tex, key)) for key in keys}
    thumb1 = frame_bytes(r._low_res) if thumb_ok else b''
    raw2, r2 = save_and_read(tex2, r)
    for key in keys:
        g1 = gen1[key]
        g2 = frame_bytes(get_frame(r2, tex, key))
        if g1 != g2:
            swapped = g2 == swap_rb(g1)
            mw = mip_dims(tex.w, tex.h, key[2])[0]
            i = next(i for i in range(0, len(g1), 4) if g1[i:i + 4] != g2[i:i + 4]) // 4
            if not ctx.check(False, 'idempotent', f'{tex.fmt} frame {key}: second save/read differs from the first at '
                             f'(x={i % mw}, y={i // mw}): first={tuple(g1[4 * i:4 * i + 4])} second={tuple(g2[4 * i:4 * i + 4])}',
                             fmt=tex.fmt, rb_swapped=swapped, what='main'):
                known_hit = True
    if thumb_ok and not regen:
        g1, g2 = thumb1, frame_bytes(r2._low_res)
        if g1 != g2:
            if not ctx.check(False, 'thumb_idempotent', f'thumbnail {tex.thumb}: second save/read differs from the first',
                             fmt=tex.thumb, rb_swapped=(g2 == swap_rb(g1)), what='thumb'):
                known_hit = True
    if not known_hit and not (regen and tex.thumb != 'NONE'):
        ctx.check(raw2 == raw, 'idempotent_bytes', f'saving the read-back VTF gives different bytes '
                  f'(len {len(raw)} -> {len(raw2)}, first difference at offset '
                  f'{next((i for i in range(min(len(raw), len(raw2))) if raw[i] != raw2[i]), min(len(raw), len(raw2)))})')
    if desc.get('decode') is not None:
        check_decode_used(desc['decode'], ctx)


# -------- decoding into a frame that is already in use (part of the pixels sub-check)

DXT_BLOCK = {'DXT1': 8, 'DXT1_ONEBITALPHA': 8, 'DXT3': 16, 'DXT5': 16, 'ATI2N': 16}
LOADER_FORMATS = SAVE_FORMATS + list(DXT_BLOCK)     # every format with a pure-Python loader


def block_size(fmt: str, w: int, h: int) -> int:
    if fmt in DXT_BLOCK:
        return DXT_BLOCK[fmt] * ((w + 3) // 4) * ((h + 3) // 4)
    return BPP[fmt] * w * h


def ref_decode(fmt: str, block: bytes, n: int):
    """Independent decoder for the formats whose byte layout is plain from name and docstring; None for the others."""
    out = bytearray(b'\0\0\0\xff' * n)
    order = {'RGBA8888': 'rgba', 'UVWQ8888': 'rgba', 'UVLX8888': 'rgba', 'BGRA8888': 'bgra', 'ABGR8888': 'abgr',
             'RGB888': 'rgb', 'BGR888': 'bgr', 'BGRX8888': 'bgrx', 'RGB888_BLUESCREEN': 'rgb', 'BGR888_BLUESCREEN': 'bgr',
             'UV88': 'rg', 'IA88': 'ia', 'I8': 'i', 'A8': 'a'}.get(fmt)
    if order is None:
        return None
    step = len(order)
    for pos, ch in enumerate(order):
        plane = block[pos::step]
        if ch == 'i':
            out[0::4] = out[1::4] = out[2::4] = plane
        elif ch == 'a' and fmt == 'A8':
            out[0::4] = out[1::4] = out[2::4] = bytes(n)
            out[3::4] = plane
        elif ch in 'rgba':
            out['rgba'.index(ch)::4] = plane
    if fmt.endswith('BLUESCREEN'):
        for o in range(0, 4 * n, 4):
            if out[o] == 0 and out[o + 1] == 0 and out[o + 2] == 255:
                out[o:o + 4] = b'\0\0\0\0'
    return bytes(out)


def decode_strategy():
    fmt = st.sampled_from(LOADER_FORMATS)
    return st.fixed_dictionaries({
        'size': st.tuples(st.sampled_from([1, 2, 4, 8]), st.sampled_from([1, 2, 4, 8])).map(list),
        'fmt': fmt,
        'block': pix_strategy(),
        'prefill': st.one_of(
            st.fixed_dictionaries({'kind': st.just('rgba'), 'pix': pix_strategy()}),
            st.fixed_dictionaries({'kind': st.just('fill'), 'rgba': st.lists(st.integers(0, 255), min_size=4, max_size=4)}),
            st.fixed_dictionaries({'kind': st.just('decode'), 'fmt': fmt, 'pix': pix_strategy()}),
        ),
        'save_first': st.sampled_from(SAVE_FORMATS),
    })


def check_decode_used(d, ctx):
    """copy_from(block, fmt) into a frame that already holds other pixels == the same decode into a fresh frame."""
    from srctools.vtf import VTF, ImageFormats
    w, h = d['size']
    fmt = d['fmt']
    n = w * h
    enum = ImageFormats[fmt]
    size = block_size(fmt, w, h)
    if size != enum.frame_size(w, h):
        ctx.fail('frame_size', f'{fmt}.frame_size({w}, {h}) = {enum.frame_size(w, h)}, format definition gives {size}')
    block = make_pixels(d['block'], 'blk', (size + 3) // 4)[:size]

    def new_frame():
        return VTF(w, h, thumb_fmt=ImageFormats.NONE).get()
    fresh = new_frame()
    fresh.copy_from(block, enum)
    want = frame_bytes(fresh)
    used = new_frame()
    pre = d['prefill']
    if pre['kind'] == 'rgba':
        used.copy_from(make_pixels(pre['pix'], 'pre', n))
    elif pre['kind'] == 'fill':
        used.fill(*pre['rgba'])
    else:
        f2 = pre['fmt']
        s2 = block_size(f2, w, h)
        used.copy_from(make_pixels(pre['pix'], 'pre', (s2 + 3) // 4)[:s2], ImageFormats[f2])
    stale = frame_bytes(used)
    used.copy_from(block, enum)
    got = frame_bytes(used)
    ctx.label('decode:into_used_frame', 'decode:' + fmt, 'prefill:' + pre['kind'])
    if got != want:
        i = next(i for i in range(0, len(got), 4) if got[i:i + 4] != want[i:i + 4]) // 4
        ctx.fail('decode_into_used_frame',
                 f'{fmt} {w}x{h} block {block[:16].hex()}: decoded into a frame prefilled by {pre["kind"]} gives pixel '
                 f'(x={i % w}, y={i // w}) = {tuple(got[4 * i:4 * i + 4])} (it held {tuple(stale[4 * i:4 * i + 4])} before), '
                 f'decoded into a fresh frame {tuple(want[4 * i:4 * i + 4])}', fmt=fmt, small=(w < 4 or h < 4))
    ref = ref_decode(fmt, block, n)
    if fmt in DXT_BLOCK and (w < 4 or h < 4):
        ref = b'\0\0\0\xff' * n    # "DXT format must be 4x4 at minimum. So just write black."
    if ref is not None and want != ref:
        i = next(i for i in range(0, len(ref), 4) if ref[i:i + 4] != want[i:i + 4]) // 4
        ctx.fail('decode_reference', f'{fmt} {w}x{h} block {block[:16].hex()}: fresh decode gives pixel (x={i % w}, y={i // w}) = '
                 f'{tuple(want[4 * i:4 * i + 4])}, the format definition gives {tuple(ref[4 * i:4 * i + 4])}',
                 fmt=fmt, small=(w < 4 or h < 4))
    # savers keep no scratch state: saving as A and then as B == a fresh object saved as B
    if fmt in SAVE_FORMATS:
        rgba = make_pixels(d['block'], 'rgba', n)

        def obj(f):
            v = VTF(w, h, fmt=ImageFormats[f], thumb_fmt=ImageFormats.NONE)
            v.get().copy_from(rgba)
            return v
        a = obj(d['save_first'])
        a.save(io.BytesIO())
        a.format = enum
        b1, b2 = io.BytesIO(), io.BytesIO()
        a.save(b1)
        obj(fmt).save(b2)
        ctx.check(b1.getvalue() == b2.getvalue(), 'saver_scratch_state',
                  f'{w}x{h}: saving as {d["save_first"]} and then as {fmt} differs from saving a fresh object as {fmt}')


def pixels_strategy(tier):
    return st.fixed_dictionaries({'tex': tex_strategy(tier), 'decode': decode_strategy()})


def pixels_fixed(tier):
    """Every channel value 0..255 through every format (main and thumbnail), on a plain 16x16 texture."""
    for fmt in SAVE_FORMATS:
        for variant in (0, 1, 2):
            yield {'tex': {
                'origin': 'ctor', 'size': [16, 16], 'frames': 1, 'layout': 'flat', 'version': 2 + variant,
                'save_version': None, 'fmt': fmt, 'thumb': SAVE_FORMATS[(SAVE_FORMATS.index(fmt) + 7 * variant) % 20],
                'flags': 0, 'ref': [0.0, 0.0, 0.0], 'bump': 1.0, 'first_frame': 0,
                'pix': {'kind': 'ramp', 'variant': variant}, 'mips': 'supply', 'file_mips': 0, 'thumb_seed': variant,
            }}


    for i, (origin, fmt, thumb) in enumerate([('ctor', 'RGB888', 'RGBA8888'), ('file', 'RGBA8888', 'BGRA4444'),
                                              ('ctor', 'BGRA5551', 'I8'), ('file', 'A8', 'BGR888_BLUESCREEN')]):
        # 32x32: the only size whose thumbnail is rebuilt from a mip by compute_mipmaps()
        yield {'tex': {
            'origin': origin, 'size': [32, 32], 'frames': 1 + i % 2, 'layout': 'flat', 'version': 2 + i,
            'save_version': None, 'fmt': fmt, 'thumb': thumb, 'flags': 0, 'ref': [0.0, 0.0, 0.0], 'bump': 1.0,
            'first_frame': 0, 'pix': {'kind': 'edge', 'seed': i}, 'mips': ['supply', 'compute'][i % 2], 'file_mips': 0,
            'thumb_seed': i,
        }}


def tex_only_strategy(tier):
    return st.fixed_dictionaries({'tex': tex_strategy(tier)})


# ------------------------------------------------------------------ sub-checks: resources / sheet

def res_strategy(tier):
    return st.fixed_dictionaries({
        'tex': tex_strategy(tier, small=True, fmts=['RGBA8888'], thumbs=['NONE', 'RGB888', 'RGBA8888']),
        'resources': resources_strategy(),
        'sheet': sheet_strategy(),
        'sheet_version': st.sampled_from([None, 0, 1]),
    })


def _res_common(desc, ctx):
    t = dict(desc['tex'])
    if t['version'] < 3:
        t['version'] = 3 + t['version'] % 3      # resources need 7.3+
    if t.get('save_version') is not None and t['save_version'] < 3:
        t['save_version'] = None
    tex = Tex(t)
    tex.label(ctx)
    if tex.final_minor < 3:
        raise HarnessError('resource case ended up below 7.3')
    b = build(tex, resources=desc['resources'], sheet=desc['sheet'])
    raw, r = save_and_read(tex, b.v, desc['sheet_version'])
    ctx.label(f'nres:{min(len(desc["resources"]), 3)}', f'nseq:{min(len(desc["sheet"]), 3)}',
              f'sheetver:{desc["sheet_version"]}')
    for k, f, p in desc['resources']:
        ctx.label('res_int' if isinstance(p, int) else 'res_bytes', 'res_enum_key' if 'enum' in k else 'res_raw_key')
    ctx.nontrivial(bool(desc['resources']) or bool(desc['sheet']))
    # image data behind the resource blocks is still found
    for key in tex.keys(b.n_mips):
        if key in b.supplied and key in set(frame_keyset(r)):
            ctx.check(frame_bytes(get_frame(r, tex, key)) == b.supplied[key], 'pixels_with_resources',
                      f'frame {key} differs after a save with {len(desc["resources"])} resources / {len(desc["sheet"])} sequences')
    return tex, b, r


def execute_resources(desc, ctx):
    tex, b, r = _res_common(desc, ctx)
    want = {}
    for k, f, p in desc['resources']:
        want[res_raw(res_key(k))] = (f | 2, p if isinstance(p, int) else bytes.fromhex(p['hex']))
    got = {}
    for k, res in r.resources.items():
        ctx.check(res_raw(k) not in got, 'resource_duplicate', f'resource id {res_raw(k)!r} twice')
        got[res_raw(k)] = (res.flags | 2, res.data)
    for rid in sorted(set(want) | set(got)):
        w_, g = want.get(rid), got.get(rid)
        ctx.check(w_ == g and (w_ is None or type(w_[1]) is type(g[1])), 'resources',
                  f'resource {rid!r}: saved (flags|2, data)={w_!r}, read back {g!r}', res_id=rid.hex())
    # the object that was saved still has its resources
    ctx.check(len(b.v.resources) == len(desc['resources']), 'save_changed_resources', 'save() changed the resources dict')


def execute_sheet(desc, ctx):
    tex, b, r = _res_common(desc, ctx)
    sv = desc['sheet_version']
    want = sheet_model(desc['sheet'], 1 if sv is None else sv)   # save() default sheet_seq_version=1
    got = sheet_observed(r.sheet_info)
    for num in sorted(set(want) | set(got)):
        ctx.check(want.get(num) == got.get(num), 'sheet',
                  f'sequence {num} (sheet version {sv}): saved {want.get(num)!r}\n read back {got.get(num)!r}', seq=num)
    ctx.check(list(got) == list(want) or sorted(got) == sorted(want), 'sheet_keys', 'sequence numbers differ')


# ------------------------------------------------------------------ sub-check: bounds

def bounds_strategy(tier):
    coord = st.integers(-40, 40)
    return st.fixed_dictionaries({
        'size': st.tuples(st.sampled_from([1, 2, 4, 8]), st.sampled_from([1, 2, 4, 8])).map(list),
        'source': st.sampled_from(['ctor', 'read', 'read_mip']),
        'pix': pix_strategy(),
        'use_pixel_type': st.booleans(),
        'ops': st.lists(st.tuples(st.sampled_from(['get', 'set']), coord, coord, st.integers(0, 255)).map(list), max_size=12),
        'copy': st.lists(st.sampled_from(COPY_SOURCES), max_size=4),
        'fill': st.one_of(st.none(), st.lists(st.integers(0, 255), min_size=0, max_size=4)),
        'layout': st.sampled_from(['flat', 'frames', 'depth', 'cube7', 'cube6']),
    })


COPY_SOURCES = ['bytes', 'bytearray', 'array', 'memoryview', 'strided_view', 'frame', 'frame_unloaded', 'bgr888', 'bgra8888',
                'wrong_size', 'frame_wrong_size']


def check_buffer_view(ctx, frame, want: bytes, fw: int, fh: int, who: str, full: bool = True):
    """memoryview(frame): shape (height, width, 4), mv[y, x, c] row-major, IndexError outside."""
    mv = memoryview(frame)
    if fw != fh:
        ctx.label('buffer:non_square')
    ok = ctx.check(tuple(mv.shape) == (fh, fw, 4) and mv.ndim == 3 and mv.format == 'B', 'buffer_shape',
                   f'{who}: memoryview(frame) of a {fw}x{fh} (width x height) frame has shape {tuple(mv.shape)} format '
                   f'{mv.format!r}, expected (height, width, 4) = {(fh, fw, 4)}', w=fw, h=fh)
    ctx.check(mv.tobytes() == want, 'buffer_bytes', f'{who}: memoryview(frame).tobytes() differs from the pixel data')
    ctx.check(bytes(frame) == want, 'buffer_bytes', f'{who}: bytes(frame) differs from the pixel data')
    if not ok:
        return
    cells = [(x, y) for y in range(fh) for x in range(fw)] if full else [(0, 0), (fw - 1, 0), (0, fh - 1), (fw - 1, fh - 1)]
    for x, y in cells:
        got = tuple(mv[y, x, c] for c in range(4))
        o = (y * fw + x) * 4
        if got != tuple(want[o:o + 4]):
            ctx.fail('buffer_index', f'{who}: memoryview(frame)[y={y}, x={x}, :] = {got} on a {fw}x{fh} frame, pixel data holds '
                     f'{tuple(want[o:o + 4])}', w=fw, h=fh)
    for y, x, c in [(fh, 0, 0), (0, fw, 0), (fh, fw - 1, 0), (fh - 1, fw, 0), (-fh - 1, 0, 0), (0, -fw - 1, 0), (0, 0, 4),
                    (max(fw, fh), 0, 0), (0, max(fw, fh), 0)]:
        if (-fh <= y < fh) and (-fw <= x < fw) and (0 <= c < 4):
            continue
        try:
            val = mv[y, x, c]
        except IndexError:
            pass
        else:
            ctx.fail('buffer_bounds', f'{who}: memoryview(frame)[y={y}, x={x}, c={c}] on a {fw}x{fh} frame returned {val} '
                     f'instead of raising IndexError', w=fw, h=fh)
    mv.release()


def check_exports(ctx, frame, want: bytes, fw: int, fh: int, who: str):
    if hasattr(frame, 'tobytes'):
        ctx.check(bytes(frame.tobytes()) == want, 'export_tobytes', f'{who}: tobytes() differs from the pixel data')
    try:
        import PIL.Image  # noqa: F401  (installed offline in /venv; skipped otherwise)
    except ImportError:
        ctx.label('pil_skipped')
        return
    img = frame.to_PIL()
    ctx.label('to_PIL')
    ctx.check(img.size == (fw, fh) and img.mode == 'RGBA', 'export_pil', f'{who}: to_PIL() gives size {img.size} mode {img.mode}, '
              f'frame is {fw}x{fh}')
    ctx.check(img.tobytes() == want, 'export_pil', f'{who}: to_PIL() pixels differ from the frame')
    if img.size == (fw, fh):
        o = ((fh - 1) * fw) * 4
        ctx.check(tuple(img.getpixel((0, fh - 1))) == tuple(want[o:o + 4]), 'export_pil',
                  f'{who}: to_PIL().getpixel((0, {fh - 1})) = {img.getpixel((0, fh - 1))}, frame holds {tuple(want[o:o + 4])}')


def check_copy_fill(desc, ctx, frame, fw: int, fh: int):
    """copy_from() with every kind of source, fill(); each time the whole buffer must be what was asked for."""
    import array
    from srctools.vtf import VTF, ImageFormats
    n = fw * fh
    for i, kind in enumerate(desc.get('copy', [])):
        ctx.label('copy:' + kind)
        src = make_pixels(desc['pix'], f'copy{i}', n)
        before = frame_bytes(frame)
        want = src
        if kind == 'bytes':
            frame.copy_from(src)
        elif kind == 'bytearray':
            frame.copy_from(bytearray(src))
        elif kind == 'array':
            frame.copy_from(array.array('B', src))
        elif kind == 'memoryview':
            frame.copy_from(memoryview(src))
        elif kind == 'strided_view':
            doubled = bytearray(2 * len(src))
            doubled[::2] = src
            frame.copy_from(memoryview(doubled)[::2])
        elif kind in ('frame', 'frame_unloaded'):
            other = VTF(fw, fh, thumb_fmt=ImageFormats.NONE)
            other.get().copy_from(src)
            if kind == 'frame_unloaded':
                buf = io.BytesIO()
                other.save(buf)
                other = VTF.read(io.BytesIO(buf.getvalue()))
            frame.copy_from(other.get())
        elif kind == 'bgr888':
            frame.copy_from(src[:3 * n], ImageFormats.BGR888)
            want = bytearray(b'\xff' * (4 * n))
            want[0::4], want[1::4], want[2::4] = src[2:3 * n:3], src[1:3 * n:3], src[0:3 * n:3]
            want = bytes(want)
        elif kind == 'bgra8888':
            frame.copy_from(src, format=ImageFormats.BGRA8888)
            want = swap_rb(src)
        elif kind == 'wrong_size':
            try:
                frame.copy_from(src + b'\0\0\0\0')
            except ValueError:
                pass
            else:
                ctx.fail('copy_from_size', f'copy_from() accepted {4 * n + 4} bytes for a {fw}x{fh} frame')
            want = before
        else:
            other = VTF(fw * 2, fh, thumb_fmt=ImageFormats.NONE)
            try:
                frame.copy_from(other.get())
            except ValueError:
                pass
            else:
                ctx.fail('copy_from_size', f'copy_from() accepted a {fw * 2}x{fh} frame for a {fw}x{fh} frame')
            want = before
        got = frame_bytes(frame)
        ctx.check(got == want, 'copy_from', f'after copy_from({kind}) the {fw}x{fh} frame holds {got[:16].hex()}..., expected '
                  f'{bytes(want[:16]).hex()}...', source=kind)
        ctx.check((frame.width, frame.height) == (fw, fh), 'copy_from', f'copy_from({kind}) changed the frame size')
        check_buffer_view(ctx, frame, bytes(want), fw, fh, f'after copy_from({kind})', full=False)
    fill = desc.get('fill')
    if fill is not None:
        ctx.label('fill')
        frame.fill(*fill)
        px = bytes(fill) + bytes([0, 0, 0, 255])[len(fill):]     # documented defaults r=g=b=0, a=255
        ctx.check(frame_bytes(frame) == px * n, 'fill', f'fill{tuple(fill)} on a {fw}x{fh} frame gives '
                  f'{frame_bytes(frame)[:8].hex()}..., expected {px.hex()} repeated')
        check_buffer_view(ctx, frame, px * n, fw, fh, 'after fill()', full=False)


def check_get_keywords(desc, ctx, w: int, h: int):
    """VTF.get(frame=, depth=, side=, mipmap=): every combination addresses its own frame of the right size."""
    from srctools.vtf import VTF, ImageFormats, VTFFlags, CubeSide
    layout = desc.get('layout', 'flat')
    ctx.label('get_layout:' + layout)
    cube = layout.startswith('cube')
    frames = 2 if layout in ('frames', 'cube6') else 1
    depth = 3 if layout == 'depth' else 1
    v = VTF(w, h, version=(7, 5 if layout == 'cube6' else 4), frames=frames, depth=depth,
            flags=VTFFlags.ENVMAP if cube else VTFFlags.EMPTY, thumb_fmt=ImageFormats.NONE)
    nfaces = (6 if layout == 'cube6' else 7) if cube else depth
    keys = [(f, s, m) for f in range(frames) for s in range(nfaces) for m in range(v.mipmap_count)]
    ctx.check(len(v) == len(keys), 'get_len', f'len() = {len(v)}, expected {len(keys)} frames for layout {layout}')

    def fetch(f, s, m):
        if cube:
            return v.get(frame=f, side=CubeSide(s), mipmap=m)
        return v.get(frame=f, depth=s, mipmap=m)
    for i, (f, s, m) in enumerate(keys):
        fr = fetch(f, s, m)
        ctx.check((fr.width, fr.height) == mip_dims(w, h, m), 'get_dims', f'get{(f, s, m)} is {fr.width}x{fr.height}')
        fr.fill(f + 1, s + 1, m + 1, i & 255)
    for i, (f, s, m) in enumerate(keys):
        fr = fetch(f, s, m)
        ctx.check(fr is fetch(f, s, m), 'get_identity', f'get{(f, s, m)} returns a different object each time')
        ctx.check(tuple(fr[0, 0]) == (f + 1, s + 1, m + 1, i & 255), 'get_key',
                  f'get(frame={f}, depth/side={s}, mipmap={m}) returns the frame filled as {tuple(fr[0, 0])} '
                  f'(frame+1, face+1, mip+1, n), layout {layout}')
    # defaults: frame 0, depth 0, mipmap 0
    if not cube:
        ctx.check(v.get() is fetch(0, 0, 0) and v.get(mipmap=0) is v.get(frame=0, depth=0), 'get_defaults', 'get() is not frame 0/depth 0/mip 0')
        if depth > 1:
            ctx.check(v.get(depth=1) is fetch(0, 1, 0), 'get_defaults', 'get(depth=1) is not frame 0, slice 1, mip 0')
    else:
        ctx.check(v.get(side=CubeSide.FRONT) is fetch(0, CubeSide.FRONT.value, 0), 'get_defaults', 'get(side=FRONT) is not frame 0, mip 0')
        for bad in ({}, {'depth': 0}):
            try:
                res = v.get(**bad)
            except (ValueError, TypeError, LookupError):
                pass
            else:
                ctx.fail('get_misuse', f'cubemap get({bad}) without a side returned {res!r}')
        try:
            res = v.get(side=CubeSide.UP, depth=1)
        except (ValueError, TypeError, LookupError):
            pass
        else:
            ctx.fail('get_misuse', f'get(side=UP, depth=1) returned {res!r}')
    for bad in ({'frame': frames}, {'mipmap': v.mipmap_count}, {'frame': -1}):
        kw = dict(bad, side=CubeSide.UP) if cube else bad
        try:
            res = v.get(**kw)
        except LookupError:
            pass
        else:
            ctx.fail('get_missing', f'get({kw}) on a texture with {frames} frames / {v.mipmap_count} mips returned {res!r}')


def execute_bounds(desc, ctx):
    from srctools.vtf import VTF, ImageFormats, Pixel
    w, h = desc['size']
    v = VTF(w, h, fmt=ImageFormats.RGBA8888, thumb_fmt=ImageFormats.NONE)
    data = make_pixels(desc['pix'], 'b', w * h)
    v.get().copy_from(data)
    mip = 0
    if desc['source'] != 'ctor':
        buf = io.BytesIO()
        v.save(buf)
        v = VTF.read(io.BytesIO(buf.getvalue()))    # lazily loaded frames
        if len(v) < 1:
            ctx.label('no_frame')   # the structure sub-check reports this; nothing to index here
            return
        if desc['source'] == 'read_mip' and v.mipmap_count > 1:
            mip = 1
    frame = v.get(mipmap=mip)
    fw, fh = frame.width, frame.height
    if mip:
        data = None   # model taken from the buffer itself once (computed mip)
    ctx.label('src:' + desc['source'], f'frame:{shape_class(fw, fh)}')
    ctx.nontrivial(fw != fh or fw > 1)
    model = bytearray(data if data is not None else frame_bytes(frame))
    check_buffer_view(ctx, frame, bytes(model), fw, fh, f'{desc["source"]} frame')
    check_exports(ctx, frame, bytes(model), fw, fh, f'{desc["source"]} frame')
    coords = []
    xs = [fw, -1, -fw, -fw - 1, fw + 1, 2 * fw, 0, fw - 1]
    ys = [0, fh - 1, fh, -1, -fh, -fh - 1, fh + 1, 2 * fh]
    if fw * fh <= 16:
        xs = xs[:2] + [x for x in range(-2 * fw - 2, 2 * fw + 3) if x not in xs[:2]]
        ys = ys[:2] + [y for y in range(-2 * fh - 2, 2 * fh + 3) if y not in ys[:2]]
    for y in dict.fromkeys(ys):
        for x in dict.fromkeys(xs):
            coords.append(('get', x, y, 0))
            coords.append(('set', x, y, (x * 31 + y * 7 + 5) & 255))
    coords.extend(tuple(op) for op in desc['ops'])
    for kind, x, y, val in coords:
        inside = 0 <= x < fw and 0 <= y < fh
        off = (y * fw + x) * 4
        if kind == 'get':
            try:
                p = frame[x, y]
            except IndexError:
                ctx.check(not inside, 'bounds_get_inside', f'frame[{x}, {y}] raised IndexError inside a {fw}x{fh} frame')
            else:
                ctx.label('get_inside' if inside else 'get_outside_returned')
                if ctx.check(inside, 'bounds_get', f'frame[{x}, {y}] on a {fw}x{fh} frame returned {p!r} instead of raising '
                             f'IndexError', x=x, y=y, w=fw, h=fh):
                    ctx.check(tuple(p) == tuple(model[off:off + 4]), 'get_value',
                              f'frame[{x}, {y}] = {tuple(p)}, buffer row-major holds {tuple(model[off:off + 4])}')
        else:
            px = (val, (val * 3 + 1) & 255, (val * 5 + 2) & 255, (val * 7 + 3) & 255)
            try:
                frame[x, y] = Pixel(*px) if desc['use_pixel_type'] else px
            except IndexError:
                ctx.check(not inside, 'bounds_set_inside', f'frame[{x}, {y}] = p raised IndexError inside a {fw}x{fh} frame')
            else:
                if ctx.check(inside, 'bounds_set', f'frame[{x}, {y}] = {px} on a {fw}x{fh} frame did not raise IndexError',
                             x=x, y=y, w=fw, h=fh):
                    model[off:off + 4] = bytes(px)
            now = frame_bytes(frame)
            if now != bytes(model):
                i = next(i for i in range(0, len(now), 4) if now[i:i + 4] != model[i:i + 4]) // 4
                ctx.fail('set_touched_other', f'after frame[{x}, {y}] = {px} on a {fw}x{fh} frame pixel (x={i % fw}, y={i // fw}) '
                         f'is {tuple(now[4 * i:4 * i + 4])}, model {tuple(model[4 * i:4 * i + 4])}', x=x, y=y, w=fw, h=fh)
                model = bytearray(now)
    check_buffer_view(ctx, frame, bytes(model), fw, fh, 'after the get/set sequence')
    # the buffer is the frame's own storage: a write through it is seen by frame[x, y]
    mv = memoryview(frame)
    if tuple(mv.shape) == (fh, fw, 4) and not mv.readonly:
        x, y = fw - 1, fh - 1
        mv[y, x, 1] = model[(y * fw + x) * 4 + 1] ^ 0x55
        model[(y * fw + x) * 4 + 1] ^= 0x55
        ctx.check(tuple(frame[x, y]) == tuple(model[(y * fw + x) * 4:(y * fw + x) * 4 + 4]) and frame_bytes(frame) == bytes(model),
                  'buffer_write', f'write through memoryview(frame)[{y}, {x}, 1] on a {fw}x{fh} frame is not what frame[{x}, {y}] shows')
    mv.release()
    check_copy_fill(desc, ctx, frame, fw, fh)
    check_get_keywords(desc, ctx, w, h)


# ------------------------------------------------------------------ sub-check: mipmaps

def mip_strategy(tier):
    return st.fixed_dictionaries({
        'tex': tex_strategy(tier, fmts=['RGBA8888'], thumbs=['NONE', 'RGB888']),
        'clear_after': st.integers(0, 3),
        'explicit_filter': st.booleans(),
    })


def execute_mipmaps(desc, ctx):
    from srctools.vtf import FilterMode
    t = dict(desc['tex'], mips='supply')
    tex = Tex(t)
    tex.label(ctx)
    b = build(tex)
    v = b.v
    n = b.n_mips
    ctx.nontrivial(n > 1)
    ctx.label(f'nmips:{min(n, 4)}')
    after = desc['clear_after']
    v.clear_mipmaps(after=after)
    if desc['explicit_filter']:
        v.compute_mipmaps(FilterMode.BILINEAR)
    else:
        v.compute_mipmaps()
    have = set(frame_keyset(v))
    for f in range(tex.frames):
        for s in range(tex.nfaces):
            for m in range(n):
                if (f, s, m) not in have:
                    continue
                fr = get_frame(v, tex, (f, s, m))
                cur = frame_bytes(fr)
                if m <= after:
                    ctx.check(cur == b.supplied[f, s, m], 'kept_mip_changed', f'mip {m} (not cleared, after={after}) was modified')
                if m == 0:
                    continue
                par = get_frame(v, tex, (f, s, m - 1))
                pw, ph = par.width, par.height
                ctx.check((fr.width, fr.height) == (max(pw >> 1, 1), max(ph >> 1, 1)), 'mip_halved',
                          f'mip {m} is {fr.width}x{fr.height}, parent {pw}x{ph}')
                if m <= after:
                    continue
                pdat = frame_bytes(par)
                sx = 2 if fr.width * 2 == pw else 1
                sy = 2 if fr.height * 2 == ph else 1
                ctx.label(f'parents:{sx}x{sy}')
                for y in range(fr.height):
                    for x in range(fr.width):
                        for c in range(4):
                            tot = 0
                            for dy in range(sy):
                                for dx in range(sx):
                                    tot += pdat[((y * sy + dy) * pw + x * sx + dx) * 4 + c]
                            cnt = sx * sy
                            got = cur[(y * fr.width + x) * 4 + c]
                            if abs(got * cnt - tot) > cnt:
                                ctx.fail('mip_average', f'frame {(f, s, m)} {fr.width}x{fr.height} from {pw}x{ph}: pixel ({x},{y}) '
                                         f'channel {c} = {got}, parents sum {tot} over {cnt} (mean {tot / cnt:.2f})')


# ------------------------------------------------------------------ sub-check: resave (read -> save without load)

RESAVE_FORMATS = [f for f in SAVE_FORMATS if f not in FMT_565]   # 565: open finding fmt565_rb_swapped (pixels)
ACCESS_HOW = ['load', 'pixel', 'buffer', 'dims']


def resave_strategy(tier):
    access = st.one_of(
        st.just({'kind': 'none', 'touch': []}),
        st.fixed_dictionaries({'kind': st.just('subset'), 'touch': st.lists(
            st.tuples(st.integers(0, 200), st.sampled_from(ACCESS_HOW)).map(list), min_size=1, max_size=6)}),
        st.just({'kind': 'all', 'touch': []}),
    )
    return st.fixed_dictionaries({
        'tex': tex_strategy(tier, fmts=RESAVE_FORMATS, thumbs=['NONE', 'RGBA8888']),
        'access': access,
    })


def execute_resave(desc, ctx):
    """A file that is read and saved again - whatever was or was not looked at in between - keeps every stored mip."""
    from srctools.vtf import VTF, VTFFlags, ImageFormats
    tex = Tex(dict(desc['tex'], origin='file'))
    tex.label(ctx, nontrivial=False)   # own rule: something left unloaded and at least two mips
    n = tex.file_mips
    keys = tex.keys(n)
    data = {}
    for key in keys:      # independent arbitrary data in EVERY mip level (not averages of the parent)
        mw, mh = mip_dims(tex.w, tex.h, key[2])
        data[key] = make_pixels(tex.pix, '%d.%d.%d' % key, mw * mh)[:BPP[tex.fmt] * mw * mh]
    tw, th = tex.thumb_dims
    thumb = make_pixels({'kind': 'seed', 'seed': tex.t.get('thumb_seed') or 0}, 'thumb', tw * th) if tex.thumb != 'NONE' else b''
    raw0 = handmade_file(tex, n, data, thumb, FORMAT_INDEX[tex.fmt])
    # reference: the pixels decoded from the original file
    orig = VTF.read(io.BytesIO(raw0))
    orig.load()
    if frame_keyset(orig) != sorted(keys):
        raise HarnessError('hand-written VTF was not read back with the structure it was written with')
    want = {key: frame_bytes(get_frame(orig, tex, key)) for key in keys}
    if tex.fmt in EXACT_RGBA and any(want[k] != data[k] for k in keys) and tex.fmt in ('RGBA8888', 'UVWQ8888', 'UVLX8888'):
        raise HarnessError('hand-written RGBA file decoded differently from what was written')
    want_thumb = frame_bytes(orig._low_res) if tex.thumb != 'NONE' else None
    regen = tex.thumb != 'NONE' and any(
        (mip_dims(tex.w, tex.h, m)[0] // 2, mip_dims(tex.w, tex.h, m)[1] // 2) == (tw, th) for m in range(n))

    v = VTF.read(io.BytesIO(raw0))
    acc = desc['access']
    touched = set()
    if acc['kind'] == 'all':
        v.load()
        touched = set(keys)
    elif acc['kind'] == 'subset':
        for idx, how in acc['touch']:
            key = keys[idx % len(keys)]
            fr = get_frame(v, tex, key)
            if how == 'load':
                fr.load()
            elif how == 'pixel':
                fr[0, 0]
            elif how == 'buffer':
                memoryview(fr).release()
            else:
                (fr.width, fr.height)    # looks at the frame object only: stays unloaded
                continue
            touched.add(key)
    partial = len(touched) < len(keys)
    ctx.label('access:' + acc['kind'], 'partial' if partial else 'all_loaded', f'nmips:{min(n, 4)}',
              'reduced' if tex.fmt not in EXACT_RGBA | EXACT_RGB else 'exact')
    ctx.nontrivial(partial and n >= 2)
    if partial and n >= 2:
        ctx.label('unloaded_mips')

    raw1, r = save_and_read(tex, v)
    facts = dict(access=acc['kind'], fmt=tex.fmt)
    for who, obj in (('read back after resave', r), ('the object that was saved (after load())', v)):
        obj.load()
        ctx.check(frame_keyset(obj) == sorted(keys), 'resave_keys', f'{who}: frame table changed', **facts)
        for key in keys:
            got = frame_bytes(get_frame(obj, tex, key))
            if got != want[key]:
                mw = mip_dims(tex.w, tex.h, key[2])[0]
                i = next(i for i in range(0, len(got), 4) if got[i:i + 4] != want[key][i:i + 4]) // 4
                ctx.fail('resave_pixels', f'{tex.fmt} {tex.w}x{tex.h}, {n} mips, access={acc["kind"]} touched={sorted(touched)}: '
                         f'{who}: frame {key} (frame, face, mip) pixel (x={i % mw}, y={i // mw}) = {tuple(got[4 * i:4 * i + 4])}, '
                         f'the original file decodes to {tuple(want[key][4 * i:4 * i + 4])}', mip=key[2], **facts)
        if want_thumb is not None and not regen:
            ctx.check(frame_bytes(obj._low_res) == want_thumb, 'resave_thumb', f'{who}: thumbnail differs from the original file', **facts)
    wantm = {
        'width': tex.w, 'height': tex.h, 'depth': tex.depth, 'frame_count': tex.frames, 'mipmap_count': n,
        'flags': VTFFlags(tex.flags), 'format': ImageFormats[tex.fmt],
        'low_format': ImageFormats[tex.thumb], 'version': (7, tex.final_minor),
        'first_frame_index': tex.first_frame, 'bumpmap_scale': tex.bump,
    }
    for name, w_ in wantm.items():
        ctx.check(getattr(r, name) == w_, 'resave_meta_' + name, f'{name}: {getattr(r, name)!r} after resave, file had {w_!r}', **facts)
    ctx.check([r.reflectivity.x, r.reflectivity.y, r.reflectivity.z] == tex.ref, 'resave_meta_reflectivity',
              f'reflectivity {r.reflectivity!r} after resave, file had {tex.ref!r}', **facts)
    # second resave (again without touching anything): byte-identical
    if not regen:
        r1 = VTF.read(io.BytesIO(raw1))
        buf = io.BytesIO()
        r1.save(buf)
        raw2 = buf.getvalue()
        ctx.check(raw2 == raw1, 'resave_bytes', f'second read->save gives different bytes (len {len(raw1)} -> {len(raw2)}, first '
                  f'difference at offset {next((i for i in range(min(len(raw1), len(raw2))) if raw1[i] != raw2[i]), -1)})', **facts)
    else:
        ctx.label('thumb_regenerated')


# ------------------------------------------------------------------ sub-check: failed_save_then_save

class _DiskFull(OSError):
    pass


class FailingStream(io.BytesIO):
    """A seekable stream whose k-th write() raises OSError (ENOSPC)."""
    def __init__(self, fail_at: int) -> None:
        super().__init__()
        self.fail_at = fail_at
        self.writes = 0

    def write(self, data):
        self.writes += 1
        if self.writes == self.fail_at:
            raise _DiskFull(28, 'No space left on device')
        return super().write(data)


UNSUPPORTED = ['DXT1', 'DXT5', 'DXT3', 'ATI2N']     # no pure-Python saver: save() raises NotImplementedError


def failed_strategy(tier):
    k = st.one_of(st.integers(1, 12), st.integers(1, 60))
    other = st.sampled_from([2, 3, 4, 5])
    op = st.one_of(
        st.tuples(st.just('save_fail'), k).map(list),
        st.tuples(st.just('save_version_fail'), other, k).map(list),
        st.tuples(st.just('save_unsupported'), st.sampled_from(['thumb', 'main']), st.sampled_from(UNSUPPORTED),
                  st.one_of(st.none(), other)).map(list),
        st.tuples(st.just('load_truncated'), st.integers(1, 400)).map(list),
    )
    return st.fixed_dictionaries({
        'tex': tex_strategy(tier, small=True, fmts=RESAVE_FORMATS, thumbs=['NONE', 'RGB888', 'RGBA8888', 'BGRA4444']),
        'resources': resources_strategy(),
        'sheet': sheet_strategy(),
        'sheet_version': st.sampled_from([None, 0, 1]),
        'ops': st.lists(op, min_size=1, max_size=4),
    })


def _own_state(v):
    """The object's own observable state (nothing is loaded or changed by looking)."""
    return {
        'version': tuple(v.version), 'flags': v.flags.value, 'format': v.format.name, 'low_format': v.low_format.name,
        'width': v.width, 'height': v.height, 'depth': v.depth, 'frame_count': v.frame_count,
        'mipmap_count': v.mipmap_count, 'first_frame_index': v.first_frame_index, 'bumpmap_scale': v.bumpmap_scale,
        'reflectivity': [v.reflectivity.x, v.reflectivity.y, v.reflectivity.z],
        'frame_keys': frame_keyset(v),
        'resources': {res_raw(k).hex(): (res.flags, res.data) for k, res in v.resources.items()},
        'sheet': sheet_observed(v.sheet_info),
    }


def _decoded_state(r, tex):
    st_ = _own_state(r)
    st_['resources'] = {k: (f | 2, d) for k, (f, d) in st_['resources'].items()}
    st_['pixels'] = {key: frame_bytes(get_frame(r, tex, key)) for key in st_['frame_keys']}
    st_['thumb'] = frame_bytes(r._low_res) if r.low_format.name != 'NONE' else b''
    return st_


def _diff_states(ctx, clause, want, got, text, **facts):
    for name in want:
        if want[name] != got.get(name):
            w_, g = want[name], got.get(name)
            if name == 'pixels':
                bad = sorted(k for k in set(w_) | set(g) if w_.get(k) != g.get(k))
                w_, g = f'frames {bad[:6]} differ', ''
            elif name == 'thumb':
                w_, g = 'thumbnail pixels differ', ''
            ctx.fail(clause, f'{text}: {name} = {g!r}, expected {w_!r}', field=name, **facts)


def execute_failed_save(desc, ctx):
    from srctools.vtf import VTF, ImageFormats
    tex = Tex(dict(desc['tex'], save_version=None))
    tex.label(ctx, nontrivial=False)
    b = build(tex, resources=desc['resources'], sheet=desc['sheet'])
    v = b.v
    sv = desc['sheet_version']
    own0 = _own_state(v)
    raw0, r0 = save_and_read(tex, v, sv)
    want = _decoded_state(r0, tex)
    _diff_states(ctx, 'object_changed_by_save', own0, _own_state(v), 'a plain successful save() changed the object')
    if tex.final_minor >= 3:
        ctx.label('has_resources' if desc['resources'] else 'no_resources', 'has_sheet' if desc['sheet'] else 'no_sheet')
    any_failed = False
    for op in desc['ops']:
        kind = op[0]
        failed = None
        if kind in ('save_fail', 'save_version_fail'):
            stream = FailingStream(op[-1])
            kw = {} if sv is None else {'sheet_seq_version': sv}
            name = 'save'
            if kind == 'save_version_fail' and op[1] != tex.minor:
                kw['version'] = (7, op[1])
                name = 'save_with_version_override'
            try:
                v.save(stream, **kw)
            except _DiskFull:
                failed = name
        elif kind == 'save_unsupported':
            _, which, fmtname, over = op
            if which == 'thumb' and (tex.thumb == 'NONE' or 0 in tex.thumb_dims):
                which = 'main'
            attr = 'low_format' if which == 'thumb' else 'format'
            saved_fmt = getattr(v, attr)
            setattr(v, attr, ImageFormats[fmtname])
            kw = {} if sv is None else {'sheet_seq_version': sv}
            name = 'unsupported_' + which
            if over is not None and over != tex.minor:
                kw['version'] = (7, over)
                name += '_with_version_override'
            try:
                try:
                    v.save(io.BytesIO(), **kw)
                except NotImplementedError:
                    failed = name
                _diff_states(ctx, 'object_changed_by_failed_call', dict(own0, **{attr: fmtname}), _own_state(v),
                             f'after {name} raised (format still set to {fmtname})', op=name)
            finally:
                setattr(v, attr, saved_fmt)
        else:   # load() of a truncated copy of the file, on another object: must not disturb this one
            main_bytes = sum(BPP[tex.fmt] * len(p) // 4 for p in want['pixels'].values())   # image data ends the file
            cut = len(raw0) - 1 - op[1] % main_bytes
            other = VTF.read(io.BytesIO(raw0[:cut]))
            try:
                other.load()
            except BufferError:
                failed = 'load_truncated_other_object'
        if failed is None:
            ctx.label('op_did_not_fail')
            _diff_states(ctx, 'object_changed_by_save', own0, _own_state(v), f'after a successful {kind}')
            continue
        any_failed = True
        ctx.label('failed:' + failed)
        _diff_states(ctx, 'object_changed_by_failed_call', own0, _own_state(v), f'right after {failed} raised', op=failed)
        raw1, r1 = save_and_read(tex, v, sv)
        _diff_states(ctx, 'save_after_failure', want, _decoded_state(r1, tex),
                     f'normal save -> read after {failed} raised, compared with the save before it', op=failed)
        ctx.check(raw1 == raw0, 'save_after_failure_bytes', f'normal save after {failed} raised gives different bytes '
                  f'(len {len(raw0)} -> {len(raw1)})', op=failed)
    ctx.nontrivial(any_failed)


# ------------------------------------------------------------------ registration

def m_fmt565_rb_swapped(desc, clause, facts):
    """RGB565/BGR565 only, and only when the whole observed image is the reference with R and B exchanged."""
    if clause not in ('pixels', 'idempotent', 'thumb_pixels', 'thumb_idempotent'):
        return False
    if facts.get('rb_swapped') is not True or facts.get('fmt') not in FMT_565:
        return False
    field = 'thumb' if clause.startswith('thumb') else 'fmt'
    return desc.get('tex', {}).get(field) == facts.get('fmt')


MATCHERS = {'fmt565_rb_swapped': m_fmt565_rb_swapped}

_SHAPES = ('shape:1x1', 'shape:1xN', 'shape:square', 'shape:wide', 'shape:tall')
_LAYOUTS = ('layout:single', 'layout:frames', 'layout:depth', 'layout:cube6', 'layout:cube7')
_VERS = ('ver:7.2', 'ver:7.3', 'ver:7.4', 'ver:7.5')

SUBCHECKS = [
    Sub('meta', execute_meta, strategy=meta_strategy, quick=3000, thorough=40000, floor=500,
        must_hit=_SHAPES + _LAYOUTS + _VERS + ('origin:ctor', 'origin:file', 'version_override')),
    Sub('structure', execute_structure, strategy=tex_only_strategy, quick=3000, thorough=30000, floor=500,
        must_hit=_SHAPES + _LAYOUTS + _VERS + ('origin:ctor', 'origin:file')),
    Sub('pixels', execute_pixels, strategy=pixels_strategy, fixed=pixels_fixed, quick=4000, thorough=24000,
        quick_shards=8, floor=800,
        must_hit=_SHAPES + _LAYOUTS + _VERS + tuple('fmt:' + f for f in SAVE_FORMATS)
        + tuple('thumb:' + f for f in SAVE_FORMATS) + ('thumb_checked', 'thumb_regenerated', 'mips:supply', 'mips:compute', 'origin:file', 'decode:into_used_frame',
           'prefill:rgba', 'prefill:fill', 'prefill:decode') + tuple('decode:' + f for f in LOADER_FORMATS)),
    Sub('resources', execute_resources, strategy=res_strategy, quick=3000, thorough=40000, floor=500,
        must_hit=('res_int', 'res_bytes', 'res_enum_key', 'res_raw_key', 'nres:3', 'ver:7.3', 'ver:7.4', 'ver:7.5')),
    Sub('sheet', execute_sheet, strategy=res_strategy, quick=3000, thorough=40000, floor=500,
        must_hit=('nseq:3', 'sheetver:0', 'sheetver:1', 'sheetver:None')),
    Sub('bounds', execute_bounds, strategy=bounds_strategy, quick=2000, thorough=30000, floor=300,
        must_hit=('src:ctor', 'src:read', 'src:read_mip', 'get_inside', 'frame:1xN', 'frame:wide', 'frame:tall', 'buffer:non_square',
                  'to_PIL', 'fill', 'get_layout:cube6', 'get_layout:cube7', 'get_layout:depth', 'get_layout:frames')
        + tuple('copy:' + k for k in COPY_SOURCES)),
    Sub('resave', execute_resave, strategy=resave_strategy, quick=1600, thorough=16000, floor=300,
        must_hit=('access:none', 'access:subset', 'access:all', 'unloaded_mips', 'reduced', 'exact', 'nmips:4')
        + tuple('fmt:' + f for f in RESAVE_FORMATS)),
    Sub('failed_save_then_save', execute_failed_save, strategy=failed_strategy, quick=1600, thorough=16000, floor=300,
        must_hit=('failed:save', 'failed:save_with_version_override', 'failed:unsupported_thumb', 'failed:unsupported_main',
                  'failed:unsupported_thumb_with_version_override', 'failed:load_truncated_other_object',
                  'has_resources', 'has_sheet', 'ver:7.2', 'ver:7.4', 'layout:cube6', 'layout:cube7')),
    Sub('mipmaps', execute_mipmaps, strategy=mip_strategy, quick=2000, thorough=20000, floor=300,
        must_hit=('parents:2x2', 'parents:2x1', 'parents:1x2', 'origin:ctor', 'origin:file') + _LAYOUTS),
]
