"""C13 - VPK archives return exactly what was last written, across reopen (DESIGN.md section 2, C13).

Command histories (open r/w/a x dir_data_limit x directory/single-file, add_file, new_file+write, overwrite,
del, write_dirfile, context-manager exit, abandon, reopen) are interpreted against the real `srctools.vpk.VPK`
and a reference model ``dict[(folder, stem, ext)] -> bytes`` that is updated on successful mutations only.
After every write_dirfile / exit a FRESH ``VPK(path, 'r')`` and the independent decoder `vlib.vpkref` must both
give back exactly the model - and so must every other way of reopening the archive: ``VPK(path, 'a')``,
``filesys.VPKFileSystem(path)``, ``filesys.get_filesystem(path)`` and a ``FileSystemChain`` member (listing through
walk_folder('') / iteration, data through File.open_bin(), open_bin(name) and File.open_str('latin-1')).

Sub-checks (different generator domains, so that one defect does not hide the others):
  placement  all limits / archive indexes / sizes up to 300 KiB, simple names
  names      rich ASCII names in all three spellings, placement restricted to numbered archives + small data
             (placement and names: every operation and every lookup also in the NON-CANONICAL spellings of the folder
             part - trailing '/', leading './', backslashes, '.', doubled separators - in the str, 2-tuple and 3-tuple
             forms; bulk entry points add_folder(<folder spelling>, <prefix>) from a disk tree and extract_all())
  readonly   an archive built in the safe domain, then every mutating call on a mode-'r' object
  failed     histories with mutations that must fail (duplicate add, delete of a missing file, non-ASCII name,
             archive file that cannot be opened) interleaved with successful ones
  collide    histories in which a file is overwritten with DIFFERENT bytes of EQUAL CRC-32 (constructed with
             `crc_forge`), or added with content whose CRC-32 is that of the empty file
"""
from __future__ import annotations

import hashlib
import os
import shutil
import tempfile
import zlib

from hypothesis import strategies as st

from vlib.core import Sub
from vlib import vpkref

PROPERTY = 'C13'
LEVEL = 'exploration'
RULE = (
    'Hypothesis generates command histories (<= 12 commands quick / 20 thorough) over open(mode r/w/a, dir_data_limit '
    'None/0/1/7/1024/70000, end by write_dirfile / with-exit / abandon), add_file, new_file(+write), overwrite, del, '
    'add_folder (disk tree built from the name pool; folder argument plain / trailing separator / "./" inside / relative; '
    '6 prefixes), extract_all, each name in one of 28 spellings (str / 2-tuple / 3-tuple / 3-tuple with the extension '
    'left in the name x 7 spellings of the folder part), every state re-read through VPK r/a, VPKFileSystem, '
    'get_filesystem and FileSystemChain, write_dirfile on a directory (x_dir.vpk) or single-file (x.vpk) archive in a scratch directory; data are '
    '{len, seed} descriptors expanded with SHAKE-256, sizes 0..300 KiB concentrated around the limits and 64 KiB; '
    'non-trivial (placement) = some file is split between preload and archive data AND an overwrite or delete was '
    'committed and re-read by a fresh VPK; (names) = a name with an empty/dotted component was committed; '
    '(readonly) = >= 3 kinds of mutation tried on a non-empty archive; (failed) = a failed mutation followed by a '
    'successful write_dirfile; (collide) = an equal-CRC overwrite / CRC-of-empty add was committed; '
    'distinct = sha1 of the descriptor JSON'
)
ASSUMPTIONS = [
    'names are ASCII printable without / \\ NUL; folder parts are non-empty and not "." or ".." (already normalised)',
    'no name component (folder, stem, extension) is a single space - the format itself uses " " to encode "empty"',
    'the extension is what follows the last dot of the file name: it contains no dot, the file name is non-empty and '
    'does not end with a dot (such names have no distinct 3-tuple form)',
    'non-canonical folder spellings are only the ones srctools itself maps to the same folder on POSIX (trailing "/" '
    'or "\\", leading "./", "/." at the end, doubled "/", "\\" as separator, "." / "./" for the root); a leading "/" '
    'or ".\\" names a different folder in the unchanged tree and is not generated',
    'add_folder never meets an already existing name (it would stop half-way in os.walk() order) and no file path of '
    'the source tree is also a directory; extract_all is only compared when the model has no such file/directory clash',
    'reopen routes: the filesystem API is case-insensitive, so it is only compared when no two model names differ '
    'only in case, and listings are compared case-folded; open_str() is read with latin-1 (decodes every byte) and '
    'compared after the universal-newline translation TextIOWrapper applies',
    'version 1 archives only (writing v2 is documented as unsupported); archive indexes None/0/1/5/42/999',
    'a session opened with mode "w", or "a" on a missing file, always ends with write_dirfile/exit (VPK() itself '
    'leaves a 0-byte directory file until then; the statement only speaks about the state after writing the directory)',
    'after an abandoned session (no write_dirfile) the archive must still read as of the last written directory',
    'collide sub-check: "the data last written" is compared byte for byte, so two different contents with the same '
    'CRC-32 are different data (the statement quantifies over all file contents)',
    'failed sub-check: an OSError while appending to a numbered archive (its path is occupied by a directory) counts '
    'as a failed mutation that must not change the archive contents',
]
LEVEL_TEXT = ('Generated-input search: thousands (quick) to tens of thousands (thorough) of random operation histories on '
              'real scratch archives are compared, after every directory write, with a reference model through a freshly '
              'opened VPK and through an independent decoder of the raw files; held-on-everything-explored, not a proof.')
LEVEL_NOTE = ('Trusts Hypothesis generation, the reference model and vlib/vpkref.py (decoder written from the published '
              'VPK v1 layout); pure-Python iter_nullstr only; POSIX paths.')
TECHNIQUE = ('property-based testing (Hypothesis): model-based command histories vs. a dict reference model, '
             'plus an independent decoder of the written bytes')
CAPS = (300, 2400)

LIMITS = [None, 0, 1, 7, 1024, 70000]
ARCHS = [None, 0, 1, 5, 42, 999]
DFLT = 'dflt'           # leave the arch_index argument out (add_file: 0, FileInfo.write: None)
NOTABLE_SIZES = [0, 1, 2, 6, 7, 8, 1023, 1024, 1025, 65534, 65535, 65536, 65537, 69999, 70000, 70001,
                 131072, 200000, 300 * 1024]
FORMS = ('str', 'pair', 'triple', 'triple_unsplit')
# Spellings of the FOLDER part that srctools documents / implements as the same folder ("Strip '/' off the end, and './'
# from the beginning", backslashes become '/', '.' is the root): what os.walk(), os.path.join(), shell completion or a
# Windows tool hand to a caller.  Every one of them is put into every form.
FOLDER_VARIANTS = ('canon', 'trail_slash', 'dot_slash', 'backslash', 'trail_dot', 'double_slash', 'trail_backslash')
# code -> (form, folder variant).  Codes 0..2 are the canonical str / 2-tuple / 3-tuple forms (old replays keep their meaning).
SPELL_TABLE = [(0, 0), (1, 0), (2, 0)] + [(f, v) for v in range(len(FOLDER_VARIANTS)) for f in range(len(FORMS))
                                          if not (v == 0 and f < 3)]
N_SPELL = len(SPELL_TABLE)
PREFIXES = [('', []), ('pre', ['pre']), ('pre/sub', ['pre', 'sub']), ('pre/', ['pre']), ('pre\\sub', ['pre', 'sub']),
            ('./pre', ['pre'])]
FOLDER_ARGS = ('plain', 'trail_sep', 'dot_inside', 'trail_double_sep', 'relative', 'relative_trail_sep')


# ---------------------------------------------------------------------------------------------- helpers

def expand(d) -> bytes:
    """[length, seed] -> deterministic pseudo-random bytes (SHAKE-256 stream; no RNG).  bytes pass through."""
    if isinstance(d, bytes):
        return d
    n, seed = d
    if n <= 0:
        return b''
    return hashlib.shake_256(b'C13/%d' % seed).digest(n)


def crc_forge(prefix: bytes, target: int) -> bytes:
    """prefix + 4 bytes such that crc32(result) == target.

    CRC-32 of (prefix + x) is an affine function of the 32 bits of x over GF(2); solve the 32x32 system.
    """
    reg = zlib.crc32(prefix)
    f0 = zlib.crc32(b'\0\0\0\0', reg)
    basis: dict = {}          # highest set bit -> (vector, which input bits produce it)
    for i in range(32):
        v = zlib.crc32((1 << i).to_bytes(4, 'little'), reg) ^ f0
        mask = 1 << i
        while v:
            hb = v.bit_length() - 1
            if hb not in basis:
                basis[hb] = (v, mask)
                break
            bv, bm = basis[hb]
            v ^= bv
            mask ^= bm
    v = (target ^ f0) & 0xFFFFFFFF
    x = 0
    while v:
        bv, bm = basis[v.bit_length() - 1]
        v ^= bv
        x ^= bm
    res = prefix + x.to_bytes(4, 'little')
    assert zlib.crc32(res) & 0xFFFFFFFF == target & 0xFFFFFFFF, 'crc_forge self-check'
    return res


def canon(name):
    """[folder parts, stem, ext] -> (folder, stem, ext) with the extension = text after the last dot."""
    parts, stem, ext = name
    folder = '/'.join(parts)
    fname = stem + ('.' + ext if ext else '')
    if '.' in fname:
        cstem, cext = fname.rsplit('.', 1)
    else:
        cstem, cext = fname, ''
    return (folder, cstem, cext)


def valid_name(name) -> bool:
    """The Pre list of the design (see ASSUMPTIONS)."""
    parts, stem, ext = name
    for p in parts:
        if not p or p in ('.', '..'):
            return False
    if '.' in ext:
        return False
    fname = stem + ('.' + ext if ext else '')
    if not fname or fname.endswith('.'):
        return False
    folder, cstem, cext = canon(name)
    return folder != ' ' and cstem != ' ' and cext != ' '


def folder_variant(folder: str, v: int) -> str:
    """A non-canonical spelling of the canonical folder path `folder` ('' = root) that names the same folder."""
    if v == 0:
        return folder
    if not folder:
        return ('', './', '.', '', '.', './/', '')[v]
    if v == 1:
        return folder + '/'
    if v == 2:
        return './' + folder
    if v == 3:
        return folder.replace('/', '\\')
    if v == 4:
        return folder + '/.'
    if v == 5:
        return './' + folder.replace('/', '//') + '//'
    return folder.replace('/', '\\') + '\\'


def spell(key, code: int):
    """One spelling of the file `key`: form (str / 2-tuple / 3-tuple / 3-tuple with the extension left in the name)
    x folder spelling.  All of them are built from the same (folder spelling, stem, ext), so they name the same file."""
    form, v = SPELL_TABLE[code % N_SPELL]
    folder, stem, ext = key
    folder = folder_variant(folder, v)
    fname = stem + ('.' + ext if ext else '')
    if form == 0:
        return folder + '/' + fname if folder else fname
    if form == 1:
        return (folder, fname)
    if form == 2:
        return (folder, stem, ext)
    return (folder, fname, '')


def spell_name(code: int) -> str:
    form, v = SPELL_TABLE[code % N_SPELL]
    return FORMS[form] + ('' if v == 0 else '+' + FOLDER_VARIANTS[v])


def disk_conflict(paths) -> bool:
    """True if one of the file paths (tuples of components) is also a directory of another one."""
    files = set(paths)
    for p in files:
        for i in range(1, len(p)):
            if p[:i] in files:
                return True
    return False


def limit_class(limit) -> str:
    if limit is None:
        return 'none'
    if limit == 0:
        return '0'
    if limit < 1024:
        return 'small'
    if limit == 1024:
        return 'default'
    return 'over64k'


def snapshot(folder: str) -> dict:
    res = {}
    for fn in sorted(os.listdir(folder)):
        p = os.path.join(folder, fn)
        if os.path.isdir(p):
            res[fn] = '<dir>'
        else:
            with open(p, 'rb') as f:
                res[fn] = f.read()
    return res


def short(b: bytes) -> str:
    if len(b) <= 24:
        return f'{len(b)}B:{b.hex()}'
    return f'{len(b)}B:{b[:12].hex()}..{b[-8:].hex()}'


def first_diff(a: bytes, b: bytes) -> int:
    n = min(len(a), len(b))
    for i in range(n):
        if a[i] != b[i]:
            return i
    return n


# ---------------------------------------------------------------------------------------------- interpreter

# Archive base names: the part before `_dir.vpk` / `.vpk`.  Several end in one of the characters of "_dir" (sound, hud,
# custom_mod) - a prefix computed by stripping characters instead of the suffix goes wrong exactly there.
BASES = ['x', 'x', 'sound', 'hud', 'custom_mod', 'pak01', 'dir', 'Mixed_Case', 'a.b', 'r']


def arch_filename(base: str, single: bool) -> str:
    return base + '.vpk' if single else base + '_dir.vpk'


class Machine:
    """Runs one history against the real VPK class and the reference model."""

    def __init__(self, ctx, single: bool, tmp: str, allow_fail: bool = False, base: str = 'x', side: str = '') -> None:
        self.ctx = ctx
        self.single = single
        self.tmp = tmp
        self.side = side                  # scratch space for add_folder sources / extract_all targets (not the archive's folder)
        self.n_side = 0
        self.want_extract = False
        self.n_verify = 0
        self.path = os.path.join(tmp, arch_filename(base, single))
        self.allow_fail = allow_fail
        self.disk_state = 'absent'        # absent | empty (0-byte file made by VPK()) | valid
        self.disk_model: dict = {}
        self.model: dict = {}
        self.meta: dict = {}              # key -> facts about the last write (limit, arch, size, how)
        self.disk_meta: dict = {}
        self.ever: set = set()            # every key that was ever in the model
        self.vpk = None
        self.mode = ''
        self.limit = None
        self.end = 'write'
        self.ro_snap = None
        self.labels: set = set()
        self.step = -1
        self.cmd = None
        # non-triviality bookkeeping
        self.saw_split = False
        self.pending_change = False
        self.change_reread = False
        self.commits_nonempty = 0
        self.fancy_committed = False
        self.failed_ops = 0
        self.failed_then_written = False
        self.spellings_used: set = set()
        self.collisions = 0

    # ---- context for messages
    def where(self) -> str:
        return (f'[{os.path.basename(self.path)} mode={self.mode!r} dir_data_limit={self.limit!r} '
                f'step={self.step} cmd={self.cmd!r}]')

    # ---- sessions
    def open(self, mode: str, limit, end: str, as_enum: bool = False) -> None:
        from srctools.vpk import VPK, OpenModes
        self.close()
        if self.disk_state == 'absent' and mode == 'r':
            mode = 'a'
        if self.disk_state == 'empty':
            mode = 'w'
        self.mode, self.limit, self.end = mode, limit, end
        self.labels.add('open:' + mode)
        self.labels.add('limit:' + limit_class(limit))
        self.labels.add('end:' + end)
        mode_arg = OpenModes(mode) if as_enum else mode
        self.vpk = VPK(self.path, mode=mode_arg, dir_data_limit=limit)
        if end == 'exit':
            got = self.vpk.__enter__()
            self.ctx.check(got is self.vpk, 'enter', f'{self.where()} __enter__ did not return the VPK')
        if mode == 'w':
            self.model, self.meta = {}, {}
            self.disk_state, self.disk_model, self.disk_meta = 'empty', {}, {}
        else:
            self.model, self.meta = dict(self.disk_model), dict(self.disk_meta)
            if self.disk_state == 'absent':
                self.disk_state = 'empty'
        if mode == 'r':
            self.ro_snap = snapshot(self.tmp)

    def committed(self) -> None:
        self.disk_state = 'valid'
        self.disk_model, self.disk_meta = dict(self.model), dict(self.meta)
        if self.pending_change:
            self.change_reread = True
            self.pending_change = False
        if self.failed_ops:
            self.failed_then_written = True
        if self.model:
            self.commits_nonempty += 1

    def write(self) -> None:
        """write_dirfile on the current object, then the fresh-reader invariant."""
        if self.mode == 'r':
            self.expect_readonly(self.vpk.write_dirfile, 'write_dirfile()')
            return
        self.vpk.write_dirfile()
        self.committed()
        self.verify_fresh('write_dirfile')

    def close(self) -> None:
        vpk = self.vpk
        if vpk is None:
            return
        self.cmd = ('close', self.end)
        if self.mode == 'r':
            if self.end == 'exit':
                vpk.__exit__(None, None, None)
            self.check_ro_unchanged('end of read-only session')
            self.vpk = None
            return
        if self.end == 'exit':
            vpk.__exit__(None, None, None)
            self.committed()
            self.vpk = None
            self.verify_fresh('with-exit')
        elif self.end == 'abandon' and self.disk_state == 'valid':
            # Drop the object without writing the directory: the archive stays as last written.
            self.vpk = None
            self.model, self.meta = dict(self.disk_model), dict(self.disk_meta)
            self.pending_change = False
            self.verify_fresh('abandon')
        else:
            vpk.write_dirfile()
            self.committed()
            self.vpk = None
            self.verify_fresh('final write_dirfile')
        self.vpk = None

    # ---- read-only expectations
    def expect_readonly(self, fn, what: str) -> None:
        self.labels.add('ro_attempt')
        try:
            fn()
        except ValueError:
            return
        self.ctx.fail('readonly_accepts', f'{self.where()} {what} on a mode-"r" VPK did not raise ValueError')

    def check_ro_unchanged(self, when: str) -> None:
        now = snapshot(self.tmp)
        if now != self.ro_snap:
            diff = sorted(k for k in set(now) | set(self.ro_snap) if now.get(k) != self.ro_snap.get(k))
            self.ctx.fail('readonly_disk', f'{self.where()} files on disk changed during a read-only session ({when}): {diff}')

    # ---- mutations
    def _arch_kwargs(self, arch):
        return {} if arch == DFLT else {'arch_index': arch}

    def _note_write(self, key, data: bytes, arch, how: str) -> None:
        self.model[key] = data
        self.ever.add(key)
        self.meta[key] = {'limit': self.limit, 'arch': arch, 'size': len(data), 'how': how, 'single': self.single}

    def add(self, name, sp: int, data_d, arch, via_new: bool = False, write_after_new: bool = True) -> None:
        key = canon(name)
        vpk = self.vpk
        spelled = spell(key, sp)
        self.spellings_used.add(sp % N_SPELL)
        if self.mode == 'r':
            if via_new:
                self.expect_readonly(lambda: vpk.new_file(spelled), f'new_file({spelled!r})')
            else:
                self.expect_readonly(lambda: vpk.add_file(spelled, expand(data_d), **self._arch_kwargs(arch)),
                                     f'add_file({spelled!r})')
            return
        if key in self.model:
            if not self.allow_fail:
                # by construction never a failing command here: becomes an overwrite with the same index add_file uses
                self.overwrite_key(key, sp, data_d, 0 if arch == DFLT else arch)
                return
            # duplicate: documented to raise FileExistsError, archive unchanged
            self.labels.add('fail:duplicate')
            try:
                if via_new:
                    vpk.new_file(spelled)
                else:
                    vpk.add_file(spelled, expand(data_d), **self._arch_kwargs(arch))
            except FileExistsError:
                self.failed_ops += 1
                return
            self.ctx.fail('duplicate_accepted', f'{self.where()} adding existing file {spelled!r} did not raise FileExistsError')
            return
        data = expand(data_d)
        if via_new:
            info = vpk.new_file(spelled)
            self._note_write(key, b'', None, 'new')
            self.labels.add('op:new')
            if write_after_new:
                info.write(data, **self._arch_kwargs(arch))
                self._note_write(key, data, arch, 'new+write')
        else:
            vpk.add_file(spelled, data, **self._arch_kwargs(arch))
            self._note_write(key, data, arch, 'add')
            self.labels.add('op:add')
        self.labels.add('arch:' + str(arch))

    def pick_existing(self, sel: int):
        keys = sorted(self.model)
        if not keys:
            return None
        return keys[sel % len(keys)]

    def overwrite(self, sel: int, sp: int, data_d, arch) -> None:
        key = self.pick_existing(sel)
        if key is None:
            return
        self.overwrite_key(key, sp, data_d, arch)

    def overwrite_key(self, key, sp: int, data_d, arch) -> None:
        vpk = self.vpk
        spelled = spell(key, sp)
        self.spellings_used.add(sp % N_SPELL)
        data = expand(data_d)
        info = vpk[spelled]
        if self.mode == 'r':
            self.expect_readonly(lambda: info.write(data, **self._arch_kwargs(arch)), f'vpk[{spelled!r}].write()')
            return
        info.write(data, **self._arch_kwargs(arch))
        if data != self.model[key]:
            self.pending_change = True
            self._note_write(key, data, arch, 'over')
        self.labels.add('op:over')
        self.labels.add('arch:' + str(arch))

    def delete(self, sel: int, sp: int) -> None:
        key = self.pick_existing(sel)
        if key is None:
            return
        vpk = self.vpk
        spelled = spell(key, sp)
        self.spellings_used.add(sp % N_SPELL)
        if self.mode == 'r':
            def do() -> None:
                del vpk[spelled]
            self.expect_readonly(do, f'del vpk[{spelled!r}]')
            return
        del vpk[spelled]
        del self.model[key]
        del self.meta[key]
        self.pending_change = True
        self.labels.add('op:del')

    # ---- different data with an equal CRC-32 (collide sub-check)
    def collide(self, sel: int, sp: int, data_d, arch) -> None:
        """Overwrite a file with DIFFERENT bytes that have the same CRC-32 as its current content."""
        key = self.pick_existing(sel)
        if key is None or self.mode == 'r':
            return
        old = self.model[key]
        data = crc_forge(expand(data_d), zlib.crc32(old))
        if data == old:
            return
        self.labels.add('collide:over')
        self.collisions += 1
        self.overwrite_key(key, sp, data, arch)

    def add_crc0(self, name, sp: int, data_d, arch, via_new: bool) -> None:
        """Add a file whose content has the CRC-32 of the empty string (0)."""
        if self.mode == 'r' or canon(name) in self.model:
            return
        data = crc_forge(expand(data_d), zlib.crc32(b''))
        self.labels.add('collide:crc_of_empty')
        self.collisions += 1
        self.add(name, sp, data, arch, via_new=via_new)

    # ---- mutations that must fail (failed sub-check)
    def delete_missing(self, name, sp: int) -> None:
        key = canon(name)
        if key in self.model or self.mode == 'r':
            return
        vpk = self.vpk
        spelled = spell(key, sp)
        self.labels.add('fail:del_missing')
        try:
            del vpk[spelled]
        except KeyError:
            self.failed_ops += 1
        else:
            self.ctx.fail('del_missing_accepted', f'{self.where()} del vpk[{spelled!r}] of a missing file did not raise KeyError')
        try:
            vpk[spelled]
        except KeyError:
            pass
        else:
            self.ctx.fail('get_missing', f'{self.where()} vpk[{spelled!r}] of a missing file did not raise KeyError')

    def add_nonascii(self, name, pos: int, char: str, which: int, sp: int, data_d, arch, via_new: bool) -> None:
        if self.mode == 'r':
            return
        folder, stem, ext = canon(name)
        comps = [folder, stem, ext]
        which %= 3
        c = comps[which]
        p = pos % (len(c) + 1)
        comps[which] = c[:p] + char + c[p:]
        spelled = spell(tuple(comps), sp)
        vpk = self.vpk
        self.labels.add('fail:nonascii')
        try:
            if via_new:
                vpk.new_file(spelled)
            else:
                vpk.add_file(spelled, expand(data_d), **self._arch_kwargs(arch))
        except ValueError:
            self.failed_ops += 1
            return
        self.ctx.fail('nonascii_accepted', f'{self.where()} non-ASCII name {spelled!r} was accepted (no ValueError)')

    def blocked(self, kind: str, name, sel: int, sp: int, data_d, arch: int) -> None:
        """A write whose numbered archive cannot be opened (its path is a directory): OSError, archive unchanged."""
        if self.mode == 'r' or self.single or self.limit is None:
            return
        n, seed = data_d
        data_d = [self.limit + 1 + n, seed]          # guarantees data beyond the preload limit -> archive I/O
        if kind == 'over':
            key = self.pick_existing(sel)
            if key is None:
                return
        else:
            key = canon(name)
            if key in self.model:
                return
        apath = vpkref.archive_path(self.path, arch)
        moved = apath + '.moved'
        had = os.path.exists(apath)
        if had:
            os.rename(apath, moved)
        os.mkdir(apath)
        raised = False
        try:
            try:
                if kind == 'over':
                    self.overwrite_key(key, sp, data_d, arch)
                else:
                    self.add(name, sp, data_d, arch)
            except OSError:
                raised = True
        finally:
            os.rmdir(apath)
            if had:
                os.rename(moved, apath)
        if raised:
            self.failed_ops += 1
            self.labels.add('fail:blocked_' + kind)
        # (if nothing was raised the mutation succeeded and the model was updated by the normal path)

    # ---- bulk entry points: add_folder() from a disk tree, extract_all() to a disk tree
    def add_folder(self, names, fv: int, pv: int, files) -> None:
        """Build a source tree from pool names, add it with VPK.add_folder(<folder spelling>, <prefix>).

        Expected archive name of every file = prefix + its path relative to the added folder.
        """
        vpk = self.vpk
        prefix, pparts = PREFIXES[pv % len(PREFIXES)]
        self.n_side += 1
        src = os.path.join(self.side, 'src%d' % self.n_side)
        os.mkdir(src)
        planned: dict = {}
        rels: list = []
        for name_i, data_d in files:
            parts, stem, ext = names[name_i % len(names)]
            key = canon([list(pparts) + list(parts), stem, ext])
            fname = stem + ('.' + ext if ext else '')
            rel = tuple(parts) + (fname,)
            if key in self.model or key in planned or disk_conflict(rels + [rel]):
                continue        # add_folder of an existing name stops half-way in os.walk() order: not generated
            rels.append(rel)
            planned[key] = expand(data_d)
            os.makedirs(os.path.join(src, *parts), exist_ok=True)
            with open(os.path.join(src, *rel), 'wb') as f:
                f.write(planned[key])
        fv %= len(FOLDER_ARGS)
        arg = {
            0: src, 1: src + os.sep, 2: os.path.join(self.side, '.', os.path.basename(src)), 3: src + os.sep + os.sep,
            4: os.path.relpath(src), 5: os.path.relpath(src) + os.sep,
        }[fv]
        args = (arg, prefix) if prefix else (arg,)
        if self.mode == 'r':
            self.expect_readonly(lambda: vpk.add_folder(*args), f'add_folder{args!r}')
            return
        vpk.add_folder(*args)
        for key, data in planned.items():
            self._note_write(key, data, DFLT, 'add_folder')
        self.labels.add('op:add_folder')
        if planned:
            self.labels.add('addfolder:arg_' + FOLDER_ARGS[fv])
            self.labels.add('addfolder:prefix' if prefix else 'addfolder:no_prefix')
            if any(len(r) > 1 for r in rels):
                self.labels.add('addfolder:subfolders')
            if any(len(r) > 2 for r in rels):
                self.labels.add('addfolder:nested_subfolders')
            if any(len(r) == 1 for r in rels):
                self.labels.add('addfolder:toplevel_file')
            if fv in (1, 3, 5) and any(len(r) > 1 for r in rels):
                self.labels.add('addfolder:trail_sep+subfolders')

    def check_extract(self, fresh, w: str) -> None:
        """extract_all() of the reopened archive gives exactly the model as a disk tree."""
        model = self.model
        paths = {key: tuple(p for p in key[0].split('/') if p) + (vpkref.join_name('', key[1], key[2]),) for key in model}
        if disk_conflict(list(paths.values())):
            return              # 'a/b' is a file and 'a/b/c' too: no disk tree can hold both
        self.n_side += 1
        dest = os.path.join(self.side, 'out%d' % self.n_side)
        os.mkdir(dest)
        fresh.extract_all(dest)
        self.labels.add('extract_all')
        got = {}
        for root, _dirs, fnames in os.walk(dest):
            for fn in fnames:
                full = os.path.join(root, fn)
                with open(full, 'rb') as f:
                    got[tuple(os.path.relpath(full, dest).split(os.sep))] = f.read()
        want = {paths[key]: data for key, data in model.items()}
        self.ctx.check(sorted(got) == sorted(want), 'extract_names',
                       f'{w}extract_all() created {sorted(got)!r}, model has {sorted(want)!r}')
        for path in sorted(want):
            if path in got and got[path] != want[path]:
                self.ctx.fail('extract_data', f'{w}extract_all() wrote {short(got[path])} to {"/".join(path)!r}, '
                              f'last written {short(want[path])}')
        shutil.rmtree(dest, ignore_errors=True)

    # ---- the other ways of reopening the archive
    def check_reopen_routes(self, w: str) -> bool:
        """The archive lists and returns the model however it is reopened: VPK(path, 'a'), filesys.VPKFileSystem(path),
        filesys.get_filesystem(path), and as a member of a FileSystemChain (File.open_bin / open_bin(name) / open_str)."""
        from srctools.vpk import VPK
        from srctools import filesys
        ctx = self.ctx
        model = self.model
        self.n_verify += 1
        names = {key: vpkref.join_name(*key) for key in model}
        want_names = sorted(names.values())

        # -- VPK in append mode loads the same directory (nothing is written here)
        app = VPK(self.path, mode='a', dir_data_limit=self.limit)
        got_names = sorted(app.filenames())
        ctx.check(got_names == want_names, 'route_listing',
                  f"{w}VPK(path, 'a') lists {got_names!r}, model has {want_names!r}", route='VPK_a')
        big = sum(len(d) for d in model.values()) > 128 * 1024
        for key in sorted(model):
            if big and self.n_verify % 2:
                break
            if names[key] not in app:
                continue        # reported by the listing clause
            got = app[names[key]].read()
            if got != model[key]:
                ctx.fail('route_readback', f"{w}VPK(path, 'a')[{names[key]!r}].read() gives {short(got)}, last written "
                         f'{short(model[key])}; written with {self.meta[key]}', route='VPK_a', **self.meta[key])
        self.labels.add('route:VPK_a')

        # -- the filesystem API is case-insensitive: two model names that differ only in case are one file there
        folded = [n.casefold() for n in want_names]
        if len(set(folded)) != len(folded):
            self.labels.add('route:fs_skipped_case_clash')
            return False
        routes = [
            ('VPKFileSystem', lambda: filesys.VPKFileSystem(self.path)),
            ('get_filesystem', lambda: filesys.get_filesystem(self.path)),
            ('chain', lambda: filesys.FileSystemChain(filesys.VPKFileSystem(self.path))),
            ('chain_add_sys', lambda: self._chain_with_side(filesys)),
        ]
        if big:     # several hundred KiB per file: one route per reopen, in turn
            routes = [routes[self.n_verify % len(routes)]]
        for rname, make in routes:
            fs = make()
            self.labels.add('route:' + rname)
            listed = sorted(f.path.casefold() for f in fs.walk_folder(''))
            ctx.check(listed == sorted(folded), 'route_listing',
                      f"{w}{rname}: walk_folder('') lists {listed!r}, model has {sorted(folded)!r}", route=rname)
            listed = sorted(f.path.casefold() for f in fs)
            ctx.check(listed == sorted(folded), 'route_listing',
                      f'{w}{rname}: iterating lists {listed!r}, model has {sorted(folded)!r}', route=rname)
            for key in sorted(model):
                name, data, meta = names[key], model[key], self.meta[key]
                if not ctx.check(name in fs, 'route_listing', f'{w}{rname}: {name!r} is not `in` the filesystem', route=rname):
                    continue
                file = fs[name]
                with file.open_bin() as f:
                    got = f.read()
                if got != data:
                    ctx.fail('route_readback', f'{w}{rname}: fs[{name!r}].open_bin().read() gives {short(got)}, last written '
                             f'{short(data)} (first difference at byte {first_diff(got, data)}); written with {meta}',
                             route=rname, **meta)
                with fs.open_bin(name) as f:
                    got = f.read()
                if got != data:
                    ctx.fail('route_readback', f'{w}{rname}: open_bin({name!r}).read() gives {short(got)}, last written '
                             f'{short(data)}; written with {meta}', route=rname, **meta)
                # text route: latin-1 decodes every byte; TextIOWrapper's universal newlines turn \r\n and \r into \n
                want_text = data.decode('latin-1').replace('\r\n', '\n').replace('\r', '\n')
                with file.open_str('latin-1') as tf:
                    got_text = tf.read()
                if got_text != want_text:
                    ctx.fail('route_readback', f'{w}{rname}: fs[{name!r}].open_str("latin-1").read() gives {len(got_text)} '
                             f'characters, the data last written decodes to {len(want_text)} (first difference at '
                             f'{first_diff(got_text.encode("latin-1"), want_text.encode("latin-1"))}); written with {meta}',
                             route=rname, **meta)
        fs = filesys.VPKFileSystem(self.path)
        for key in sorted(self.ever - set(model)):
            name = vpkref.join_name(*key)
            if name.casefold() in folded:
                continue
            ctx.check(name not in fs, 'route_absent', f'{w}VPKFileSystem: deleted/unwritten file {name!r} is still `in` the filesystem')
        return True

    def _chain_with_side(self, filesys):
        """A chain built with add_sys(): an empty in-memory filesystem first, the archive second."""
        chain = filesys.FileSystemChain(filesys.VirtualFileSystem({}))
        chain.add_sys(filesys.get_filesystem(self.path))
        return chain

    # ---- the invariant
    def verify_fresh(self, when: str) -> None:
        from srctools.vpk import VPK
        ctx = self.ctx
        model = self.model
        w = f'{self.where()} after {when}: '
        fresh = VPK(self.path, mode='r')
        want_names = sorted(vpkref.join_name(*k) for k in model)
        got_names = sorted(fresh.filenames())
        ctx.check(got_names == want_names, 'listing',
                  f'{w}fresh VPK lists {got_names!r}, model has {want_names!r}', names=want_names)
        got_iter = sorted(info.filename for info in fresh)
        ctx.check(got_iter == want_names, 'listing', f'{w}iterating the fresh VPK gives {got_iter!r}, model has {want_names!r}')
        ctx.check(len(fresh) == len(model), 'len', f'{w}len(fresh VPK) = {len(fresh)}, model has {len(model)} files')

        for key in sorted(model):
            data = model[key]
            meta = self.meta[key]
            facts = dict(meta, key=list(key))
            first = None
            for sp in range(N_SPELL):
                spelled = spell(key, sp)
                if not ctx.check(spelled in fresh, 'resolve',
                                 f'{w}{spelled!r} ({spell_name(sp)} form) is not `in` the fresh VPK; model key {key!r}', **facts):
                    continue
                try:
                    info = fresh[spelled]
                except KeyError:
                    ctx.fail('resolve', f'{w}fresh[{spelled!r}] ({spell_name(sp)} form) raised KeyError; model key {key!r}', **facts)
                    continue
                if first is None:
                    first = info
                else:
                    ctx.check(info is first, 'resolve',
                              f'{w}{spell_name(sp)} form {spelled!r} resolves to {info!r}, the str form to {first!r}', **facts)
            if first is None:
                continue
            got = first.read()
            if got != data:
                ctx.fail('readback',
                         f'{w}{vpkref.join_name(*key)!r} reads back {short(got)}, last written {short(data)} '
                         f'(first difference at byte {first_diff(got, data)}); written with {meta}', **facts)
            ctx.check(first.verify(), 'verify', f'{w}{vpkref.join_name(*key)!r}: verify() is False; written with {meta}', **facts)
        ctx.check(fresh.verify_all(), 'verify_all', f'{w}verify_all() is False')
        if self.want_extract:
            self.want_extract = False
            self.check_extract(fresh, w)
        fs_checked = self.check_reopen_routes(w)

        for key in sorted(self.ever - set(model)):
            for sp in range(N_SPELL):
                spelled = spell(key, sp)
                ctx.check(spelled not in fresh, 'absent', f'{w}deleted/unwritten file {spelled!r} is still `in` the fresh VPK')
                try:
                    fresh[spelled]
                except KeyError:
                    pass
                else:
                    ctx.fail('absent', f'{w}fresh[{spelled!r}] of a deleted/unwritten file did not raise KeyError')

        # independent decoder on the raw files
        try:
            entries = vpkref.read_entries(self.path, check_crc=False)
        except vpkref.VPKDecodeError as exc:
            ctx.fail('decoder', f'{w}independent decoder rejects the files on disk: {exc}')
            return
        dec = {e.key: e for e in entries}
        ctx.check(sorted(dec) == sorted(model), 'decoder_names',
                  f'{w}independent decoder finds {sorted(dec)!r}, model has {sorted(model)!r}')
        for key in sorted(model):
            e = dec.get(key)
            if e is None:
                continue
            meta = self.meta[key]
            facts = dict(meta, key=list(key))
            data = model[key]
            if e.data != data:
                ctx.fail('decoder_data',
                         f'{w}independent decoder recovers {short(e.data)} for {e.name!r}, last written {short(data)} '
                         f'(first difference at byte {first_diff(e.data, data)}); entry {e!r}; written with {meta}', **facts)
            ctx.check(e.crc == (zlib.crc32(data) & 0xFFFFFFFF), 'decoder_crc',
                      f'{w}entry {e!r} stores crc {e.crc:#010x}, crc32 of the data is {zlib.crc32(data) & 0xFFFFFFFF:#010x}', **facts)
            loc = e.location
            if e.length and e.preload:
                self.saw_split = True
                self.labels.add('split')
            if fs_checked:
                self.labels.add('fsroute:' + ('single-' if self.single else '') + loc)
            lab = f'loc:{"single-" if self.single else ""}{loc}|lim:{limit_class(meta["limit"])}'
            self.labels.add(lab)
            self.labels.add('loc:' + ('single-' if self.single else '') + loc)
            if len(data) >= 65536:
                self.labels.add('size>=64k')
            folder, stem, ext = key
            if not folder:
                self.labels.add('name:empty_folder')
            if not ext:
                self.labels.add('name:empty_ext')
            if not stem:
                self.labels.add('name:empty_stem')
            if '.' in stem:
                self.labels.add('name:dotted_stem')
            if '/' in folder:
                self.labels.add('name:nested_folder')
            if ' ' in folder + stem + ext:
                self.labels.add('name:space')
            if not folder or not ext or not stem or '.' in stem:
                self.fancy_committed = True


def run_history(desc, ctx, allow_fail: bool = False) -> Machine:
    root = tempfile.mkdtemp(prefix='verif_c13_')
    tmp, side = os.path.join(root, 'vpk'), os.path.join(root, 'side')
    os.mkdir(tmp)
    os.mkdir(side)
    m = Machine(ctx, bool(desc['single']), tmp, allow_fail=allow_fail, base=desc.get('base', 'x'), side=side)
    ctx.label('base:' + ('x' if desc.get('base', 'x') == 'x' else 'ends_in_dir_chars' if desc['base'][-1:] in '_dir' else 'other'))
    names = desc['names']
    try:
        try:
            m.cmd = ['open'] + list(desc['open0'])
            m.open(*desc['open0'])
            for i, cmd in enumerate(desc['cmds']):
                m.step, m.cmd = i, cmd
                op = cmd[0]
                if op == 'open':
                    m.open(cmd[1], cmd[2], cmd[3], cmd[4])
                elif op == 'add':
                    m.add(names[cmd[1] % len(names)], cmd[2], cmd[3], cmd[4])
                elif op == 'new':
                    m.add(names[cmd[1] % len(names)], cmd[2], cmd[3], cmd[4], via_new=True, write_after_new=cmd[5])
                elif op == 'over':
                    m.overwrite(cmd[1], cmd[2], cmd[3], cmd[4])
                elif op == 'del':
                    m.delete(cmd[1], cmd[2])
                elif op == 'write':
                    m.write()
                elif op == 'add_folder':
                    m.add_folder(names, cmd[1], cmd[2], cmd[3])
                elif op == 'extract':
                    m.want_extract = True       # the next fresh reopen also extracts everything to disk
                elif op == 'collide':
                    m.collide(cmd[1], cmd[2], cmd[3], cmd[4])
                elif op == 'add_crc0':
                    m.add_crc0(names[cmd[1] % len(names)], cmd[2], cmd[3], cmd[4], cmd[5])
                elif op == 'del_missing':
                    m.delete_missing(names[cmd[1] % len(names)], cmd[2])
                elif op == 'nonascii':
                    m.add_nonascii(names[cmd[1] % len(names)], cmd[2], cmd[3], cmd[4], cmd[5], cmd[6], cmd[7], cmd[8])
                elif op == 'blocked':
                    m.blocked(cmd[1], names[cmd[2] % len(names)], cmd[3], cmd[4], cmd[5], cmd[6])
                else:
                    raise AssertionError(f'unknown command {cmd!r}')
            m.step = len(desc['cmds'])
            if m.end == 'abandon':
                m.end = 'write'
            m.close()
        finally:
            for lab in sorted(m.labels):
                ctx.label(lab)
    finally:
        shutil.rmtree(root, ignore_errors=True)
    return m


# ---------------------------------------------------------------------------------------------- strategies

SIMPLE_NAMES = [
    [[], 'a', 'txt'], [['d'], 'a', 'txt'], [['d'], 'b', 'txt'], [['d', 'e'], 'c', 'dat'], [[], 'n', ''],
    [['d'], 'a', 'dat'],
]
NAME_CHARS = ''.join(chr(c) for c in range(0x20, 0x7f) if chr(c) not in '/\\')


def sizes(max_size: int):
    notable = [s for s in NOTABLE_SIZES if s <= max_size]
    return st.one_of(
        st.sampled_from(notable),
        st.integers(0, 40),
        st.integers(0, min(2100, max_size)),
        st.sampled_from(notable),
        st.integers(0, max_size),
    )


def data_desc(max_size: int):
    return st.tuples(sizes(max_size), st.integers(0, 50)).map(list)


def name_component(max_size: int, dots: bool = True):
    alphabet = st.one_of(
        st.sampled_from('abAB01'),
        st.sampled_from('.. _-' if dots else ' _-'),
        st.sampled_from('.a' if dots else 'ab'),
        st.sampled_from(NAME_CHARS if dots else NAME_CHARS.replace('.', '')),
    )
    return st.text(alphabet, max_size=max_size)


def rich_name():
    part = name_component(4).filter(lambda p: p and p not in ('.', '..'))
    return st.tuples(
        st.lists(part, max_size=3),
        st.one_of(name_component(6), name_component(6),
                  st.tuples(name_component(3), name_component(3)).map('.'.join)),      # dotted stems / dot-files
        st.one_of(st.just(''), name_component(4, dots=False)),
    ).map(list).filter(valid_name)


def open_args(modes, limits):
    return st.tuples(st.sampled_from(modes), st.sampled_from(limits),
                     st.sampled_from(['write', 'write', 'exit', 'exit', 'abandon']), st.booleans())


def history_strategy(tier: str, *, names, limits, archs, over_archs, max_size, singles, extra_cmds=(), name_pool=None, data=None,
                     all_spellings=False, bulk=True):
    max_cmds = 12 if tier == 'quick' else 20
    sel = st.integers(0, 7)
    # 0..2 canonical forms; with all_spellings every form x folder spelling (half of the draws stay canonical)
    sp = st.one_of(st.integers(0, 2), st.integers(0, N_SPELL - 1)) if all_spellings else st.integers(0, 2)
    data = data_desc(max_size) if data is None else data
    modes = ['w', 'a', 'a', 'a', 'r']
    cmds = [
        # first alternative = the one the shrinker lowers commands to; it draws nothing else, so it can be deleted
        st.tuples(st.just('write')),
        open_args(modes, limits).map(lambda t: ('open',) + t),
        st.tuples(st.just('add'), sel, sp, data, st.sampled_from(archs)),
        st.tuples(st.just('add'), sel, sp, data, st.sampled_from(archs)),
        st.tuples(st.just('new'), sel, sp, data, st.sampled_from(over_archs), st.booleans()),
        st.tuples(st.just('over'), sel, sp, data, st.sampled_from(over_archs)),
        st.tuples(st.just('over'), sel, sp, data, st.sampled_from(over_archs)),
        st.tuples(st.just('del'), sel, sp),
        open_args(modes, limits).map(lambda t: ('open',) + t),
    ]
    if bulk:
        small = st.tuples(st.integers(0, 2100), st.integers(0, 50)).map(list)
        cmds.append(st.tuples(st.just('add_folder'), st.integers(0, len(FOLDER_ARGS) - 1), st.integers(0, len(PREFIXES) - 1),
                              st.lists(st.tuples(sel, small).map(list), min_size=1, max_size=4)))
        cmds.append(st.tuples(st.just('extract')))
    cmds.extend(extra_cmds)
    return st.fixed_dictionaries({
        'single': st.sampled_from(singles),
        'base': st.sampled_from(BASES),
        'names': names,
        'open0': open_args(['w', 'a'], limits).map(list),
        'cmds': st.lists(st.one_of(*cmds).map(list), min_size=1, max_size=max_cmds),
    })


def placement_strategy(tier: str):
    return history_strategy(
        tier, names=st.just(SIMPLE_NAMES), limits=LIMITS, archs=ARCHS + [DFLT], over_archs=ARCHS + [DFLT, DFLT],
        max_size=300 * 1024, singles=[False, False, True], all_spellings=True,
    )


def moves_strategy(tier: str):
    """Few distinct sizes, few archives, small limits: files of equal stored length in different archives are then common, and
    overwriting one of them INTO another file's archive (or the directory tail) must not disturb what is already there."""
    same = st.tuples(st.sampled_from([24, 24, 24, 40, 8]), st.integers(0, 50)).map(list)
    return history_strategy(
        tier, names=st.just(SIMPLE_NAMES), limits=[0, 7], archs=[0, 1, None], over_archs=[0, 1, None, 1, 0],
        max_size=64, singles=[False], data=same, bulk=False,
    )


SAFE_LIMITS = [0, 7, 1024]
SAFE_ARCHS = [0, 1, 5, DFLT]
SAFE_OVER_ARCHS = [0, 1, 5]


def names_strategy(tier: str):
    return history_strategy(
        tier, names=st.lists(rich_name(), min_size=1, max_size=6), limits=SAFE_LIMITS, archs=SAFE_ARCHS,
        over_archs=SAFE_OVER_ARCHS, max_size=3000, singles=[False, True], all_spellings=True,
    )


def failed_strategy(tier: str):
    sel = st.integers(0, 7)
    sp = st.integers(0, 2)
    data = data_desc(3000)
    nonascii = st.sampled_from(['\xe9', '\x80', '\xff', 'Ж', '€', '\U0001f600'])
    extra = [
        st.tuples(st.just('add'), sel, sp, data, st.sampled_from(SAFE_ARCHS)),       # more duplicates
        st.tuples(st.just('new'), sel, sp, data, st.sampled_from(SAFE_OVER_ARCHS), st.booleans()),
        st.tuples(st.just('del_missing'), sel, sp),
        st.tuples(st.just('nonascii'), sel, st.integers(0, 6), nonascii, st.integers(0, 2), sp, data,
                  st.sampled_from(SAFE_OVER_ARCHS), st.booleans()),
        st.tuples(st.just('blocked'), st.sampled_from(['add', 'over']), sel, sel, sp, data, st.sampled_from(SAFE_OVER_ARCHS)),
        st.tuples(st.just('blocked'), st.sampled_from(['add', 'over']), sel, sel, sp, data, st.sampled_from(SAFE_OVER_ARCHS)),
    ]
    return history_strategy(
        tier, names=st.just(SIMPLE_NAMES[:4]), limits=SAFE_LIMITS, archs=SAFE_ARCHS, over_archs=SAFE_OVER_ARCHS,
        max_size=3000, singles=[False, False, True], extra_cmds=extra,
    )


def collide_strategy(tier: str):
    sel = st.integers(0, 7)
    sp = st.integers(0, 2)
    data = data_desc(3000)
    extra = [
        st.tuples(st.just('collide'), sel, sp, data, st.sampled_from(SAFE_OVER_ARCHS)),
        st.tuples(st.just('collide'), sel, sp, data, st.sampled_from(SAFE_OVER_ARCHS)),
        st.tuples(st.just('add_crc0'), sel, sp, data, st.sampled_from(SAFE_OVER_ARCHS), st.booleans()),
    ]
    return history_strategy(
        tier, names=st.just(SIMPLE_NAMES[:4]), limits=SAFE_LIMITS, archs=SAFE_ARCHS, over_archs=SAFE_OVER_ARCHS,
        max_size=3000, singles=[False, False, True], extra_cmds=extra,
    )


RO_MUTATIONS = ['add_file', 'new_file', 'write', 'write_same', 'del', 'write_dirfile', 'add_existing', 'add_folder',
                'with_exit']


def readonly_strategy(tier: str):
    files = st.lists(
        st.tuples(st.integers(0, len(SIMPLE_NAMES) - 1), data_desc(3000), st.sampled_from(SAFE_OVER_ARCHS)).map(list),
        min_size=0, max_size=5)
    return st.fixed_dictionaries({
        'single': st.booleans(),
        'limit': st.sampled_from(SAFE_LIMITS),
        'ro_limit': st.sampled_from(LIMITS),
        'files': files,
        'as_enum': st.booleans(),
        'muts': st.lists(st.tuples(st.sampled_from(RO_MUTATIONS), st.integers(0, 7), st.integers(0, 2),
                                   data_desc(3000), st.sampled_from(ARCHS + [DFLT])).map(list),
                         min_size=1, max_size=10),
        'missing': st.integers(0, 9).map(lambda n: n == 9),
    })


# ---------------------------------------------------------------------------------------------- executes

def label_spellings(m, ctx) -> None:
    for sp in sorted(m.spellings_used):
        form, v = SPELL_TABLE[sp % N_SPELL]
        ctx.label('spelling:' + FORMS[form])
        if v:
            ctx.label('folderspelling:' + FOLDER_VARIANTS[v], 'noncanonical:' + FORMS[form])


def execute_placement(desc, ctx):
    m = run_history(desc, ctx)
    label_spellings(m, ctx)
    ctx.nontrivial(m.saw_split and m.change_reread)


def execute_names(desc, ctx):
    m = run_history(desc, ctx)
    label_spellings(m, ctx)
    ctx.nontrivial(m.fancy_committed and len(m.spellings_used) >= 2)


def execute_failed(desc, ctx):
    m = run_history(desc, ctx, allow_fail=True)
    ctx.nontrivial(m.failed_then_written and m.commits_nonempty > 0)


def execute_collide(desc, ctx):
    m = run_history(desc, ctx)
    ctx.nontrivial(m.collisions > 0 and m.commits_nonempty > 0)


def execute_readonly(desc, ctx):
    from srctools.vpk import VPK, OpenModes
    tmp = tempfile.mkdtemp(prefix='verif_c13_')
    try:
        single = bool(desc['single'])
        path = os.path.join(tmp, 'x.vpk' if single else 'x_dir.vpk')
        where = f'[{"single x.vpk" if single else "x_dir.vpk"} built with dir_data_limit={desc["limit"]!r}]'
        if desc['missing']:
            # "Read mode, the file will not be modified and it must already exist."
            ctx.label('missing_file')
            try:
                VPK(path, mode='r')
            except FileNotFoundError:
                pass
            else:
                ctx.fail('readonly_missing', f'{where} VPK(missing file, "r") did not raise FileNotFoundError')
            ctx.check(os.listdir(tmp) == [], 'readonly_disk', f'{where} opening a missing file in mode "r" created {os.listdir(tmp)!r}')
            return
        model = {}
        with VPK(path, mode='w', dir_data_limit=desc['limit']) as w:
            for name_i, data_d, arch in desc['files']:
                key = canon(SIMPLE_NAMES[name_i])
                if key in model:
                    continue
                data = expand(data_d)
                w.add_file(spell(key, 0), data, arch_index=arch)
                model[key] = data
        before = snapshot(tmp)
        src = os.path.join(tmp, 'srcfolder')
        mode = OpenModes.READ if desc['as_enum'] else 'r'
        ro = VPK(path, mode=mode, dir_data_limit=desc['ro_limit'])
        keys = sorted(model)
        kinds = set()

        def must_reject(fn, what):
            try:
                fn()
            except ValueError:
                return
            ctx.fail('readonly_accepts', f'{where} {what} on a mode-"r" VPK did not raise ValueError', what=what.split('(')[0])

        for kind, sel, sp, data_d, arch in desc['muts']:
            data = expand(data_d)
            kw = {} if arch == DFLT else {'arch_index': arch}
            fresh_key = canon([['new'], 'f%d' % sel, 'bin'])
            if kind == 'add_file':
                must_reject(lambda: ro.add_file(spell(fresh_key, sp), data, **kw), f'add_file({spell(fresh_key, sp)!r})')
            elif kind == 'new_file':
                must_reject(lambda: ro.new_file(spell(fresh_key, sp)), f'new_file({spell(fresh_key, sp)!r})')
            elif kind == 'write_dirfile':
                must_reject(ro.write_dirfile, 'write_dirfile()')
            elif kind == 'add_folder':
                os.makedirs(src, exist_ok=True)
                with open(os.path.join(src, 'f.txt'), 'wb') as f:
                    f.write(b'data')
                try:
                    must_reject(lambda: ro.add_folder(src), 'add_folder()')
                finally:
                    shutil.rmtree(src)
            elif kind == 'with_exit':
                with ro as got:
                    ctx.check(got is ro, 'enter', f'{where} __enter__ did not return the VPK')
            elif not keys:
                continue
            else:
                key = keys[sel % len(keys)]
                spelled = spell(key, sp)
                if kind == 'write':
                    must_reject(lambda: ro[spelled].write(data, **kw), f'vpk[{spelled!r}].write(new data)')
                elif kind == 'write_same':
                    must_reject(lambda: ro[spelled].write(model[key], **kw), f'vpk[{spelled!r}].write(same data)')
                elif kind == 'add_existing':
                    must_reject(lambda: ro.add_file(spelled, data, **kw), f'add_file(existing {spelled!r})')
                elif kind == 'del':
                    def do():
                        del ro[spelled]
                    must_reject(do, f'del vpk[{spelled!r}]')
            kinds.add(kind)
            ctx.label('ro:' + kind)
            after = snapshot(tmp)
            if after != before:
                diff = sorted(k for k in set(after) | set(before) if after.get(k) != before.get(k))
                ctx.fail('readonly_disk', f'{where} files on disk changed by {kind} on a mode-"r" VPK: {diff}')
            # the read-only object still shows the archive
            got_names = sorted(ro.filenames())
            want_names = sorted(vpkref.join_name(*k) for k in model)
            ctx.check(got_names == want_names, 'readonly_listing',
                      f'{where} after rejected {kind}: read-only VPK lists {got_names!r}, archive has {want_names!r}')
        for key in keys:
            got = ro[spell(key, 2)].read()
            ctx.check(got == model[key], 'readonly_data',
                      f'{where} after rejected mutations {vpkref.join_name(*key)!r} reads {short(got)}, archive has {short(model[key])}')
        ctx.nontrivial(bool(model) and len(kinds) >= 3)
    finally:
        shutil.rmtree(tmp, ignore_errors=True)


# ---------------------------------------------------------------------------------------------- big directories

def bigdir_strategy(tier: str):
    """Archives whose directory tree is larger than any I/O buffer (hundreds to thousands of entries)."""
    return st.fixed_dictionaries({
        'single': st.booleans(),
        'base': st.sampled_from(BASES),
        'n': st.sampled_from([150, 400, 900, 1700, 2600] if tier == 'quick' else [150, 400, 900, 1700, 2600, 5000]),
        'folders': st.integers(1, 40),
        'exts': st.integers(1, 6),
        'pad': st.integers(0, 24),          # shifts where strings fall relative to 4 KiB / 8 KiB boundaries
        'limit': st.sampled_from([0, 3, 1024]),
        'arch': st.sampled_from([0, 1, None]),
        'del_every': st.sampled_from([0, 0, 3, 7]),
        'over_every': st.sampled_from([0, 0, 5]),
    })


def execute_bigdir(desc, ctx):
    from srctools.vpk import VPK
    tmp = tempfile.mkdtemp(prefix='verif_c13_')
    try:
        path = os.path.join(tmp, arch_filename(desc.get('base', 'x'), desc['single']))
        model = {}
        pad = 'p' * desc['pad']
        with VPK(path, mode='w', dir_data_limit=desc['limit']) as vpk:
            for i in range(desc['n']):
                folder = f'f{i % desc["folders"]}{pad}' if i % 11 else ''
                stem, ext = f'n{i}{pad[:i % 5]}', f'e{i % desc["exts"]}'
                data = expand([i % 9, i])
                vpk.add_file((folder, stem, ext), data, arch_index=desc['arch'])
                model[folder, stem, ext] = data
            keys = list(model)
            if desc['over_every']:
                for key in keys[::desc['over_every']]:
                    data = expand([5 + len(key[1]) % 4, len(key[1])])
                    vpk[key].write(data, desc['arch'])
                    model[key] = data
            if desc['del_every']:
                for key in keys[1::desc['del_every']]:
                    del vpk[key]
                    del model[key]
        ctx.label(f'n:{desc["n"]}', 'single' if desc['single'] else 'dir')
        tree_size = os.path.getsize(path)
        ctx.label('dirfile>8k' if tree_size > 8192 else 'dirfile<=8k')
        ctx.nontrivial(tree_size > 8192)
        where = f'[bigdir {desc}]'
        fresh = VPK(path, mode='r')
        got_names = sorted(fresh.filenames())
        want_names = sorted(vpkref.join_name(*k) for k in model)
        if not ctx.check(got_names == want_names, 'listing',
                         f'{where} reopened archive lists {len(got_names)} names, model has {len(want_names)}; '
                         f'first difference: {next(((a, b) for a, b in zip(got_names, want_names) if a != b), None)}'):
            return
        ctx.check(len(fresh) == len(model), 'listing', f'{where} len() = {len(fresh)}, model {len(model)}')
        for key, data in model.items():
            got = fresh[key].read()
            if got != data:
                ctx.fail('readback', f'{where} {vpkref.join_name(*key)!r} reads {short(got)}, last written {short(data)}')
                return
        ctx.check(fresh.verify_all(), 'verify', f'{where} verify_all() failed')
        decoded = vpkref.read_vpk_keys(path)
        ctx.check(decoded == model, 'independent_decoder', f'{where} independent decoder recovers {len(decoded)} files, '
                  f'model has {len(model)} (or contents differ)')
    finally:
        shutil.rmtree(tmp, ignore_errors=True)


SUBCHECKS = [
    Sub('placement', execute_placement, strategy=placement_strategy, quick=1600, thorough=40000, floor=50,
        quick_shards=8, thorough_shards=16,
        must_hit=('base:ends_in_dir_chars', 'loc:preload', 'loc:tail', 'loc:numbered', 'loc:single-preload', 'loc:single-tail', 'split',
                  'size>=64k', 'limit:none', 'limit:over64k', 'loc:tail|lim:none', 'loc:numbered|lim:over64k',
                  'op:add', 'op:new', 'op:over', 'op:del', 'open:w', 'open:a', 'open:r',
                  'end:write', 'end:exit', 'end:abandon', 'arch:None', 'arch:dflt', 'arch:999',
                  'op:add_folder', 'addfolder:trail_sep+subfolders', 'addfolder:prefix', 'addfolder:no_prefix',
                  'addfolder:nested_subfolders', 'addfolder:toplevel_file', 'addfolder:arg_relative', 'extract_all',
                  'noncanonical:pair', 'noncanonical:triple',
                  'route:VPK_a', 'route:VPKFileSystem', 'route:get_filesystem', 'route:chain', 'route:chain_add_sys',
                  'fsroute:preload', 'fsroute:tail', 'fsroute:numbered', 'fsroute:single-preload', 'fsroute:single-tail')),
    Sub('names', execute_names, strategy=names_strategy, quick=1200, thorough=30000, floor=50,
        quick_shards=4, thorough_shards=16,
        must_hit=('name:empty_folder', 'name:empty_ext', 'name:empty_stem', 'name:dotted_stem', 'name:nested_folder',
                  'name:space', 'spelling:str', 'spelling:pair', 'spelling:triple', 'spelling:triple_unsplit',
                  'op:over', 'op:del', 'loc:numbered', 'loc:preload', 'loc:single-preload',
                  'noncanonical:str', 'noncanonical:pair', 'noncanonical:triple') +
                 tuple('folderspelling:' + v for v in FOLDER_VARIANTS[1:]) +
                 ('op:add_folder', 'addfolder:trail_sep+subfolders', 'addfolder:prefix', 'extract_all')),
    Sub('readonly', execute_readonly, strategy=readonly_strategy, quick=600, thorough=12000, floor=50,
        quick_shards=2, thorough_shards=8,
        must_hit=tuple('ro:' + k for k in RO_MUTATIONS) + ('missing_file',)),
    Sub('failed', execute_failed, strategy=failed_strategy, quick=1000, thorough=24000, floor=50,
        quick_shards=2, thorough_shards=16,
        must_hit=('fail:duplicate', 'fail:del_missing', 'fail:nonascii', 'fail:blocked_add', 'fail:blocked_over')),
    Sub('collide', execute_collide, strategy=collide_strategy, quick=400, thorough=8000, floor=30,
        quick_shards=2, thorough_shards=8, must_hit=('collide:over', 'collide:crc_of_empty')),
    Sub('moves', execute_placement, strategy=moves_strategy, quick=1200, thorough=30000, floor=50,
        quick_shards=4, thorough_shards=16, must_hit=('op:over', 'loc:numbered', 'loc:tail')),
    Sub('bigdir', execute_bigdir, strategy=bigdir_strategy, quick=48, thorough=1600, floor=10,
        quick_shards=8, thorough_shards=16, must_hit=('dirfile>8k', 'single', 'dir')),
]

MATCHERS = {}
