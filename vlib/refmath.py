"""Independent 3x3 reference arithmetic (row vectors, Source convention), written from the property text.

``v @ M`` for a row vector ``v`` is ``v[0]*M[0] + v[1]*M[1] + v[2]*M[2]``; the rows of the matrix of an
Euler angle are the forward, left and up axes:  roll about X, then pitch about Y, then yaw about Z
(Source SDK ``AngleMatrix``/``AngleVectors``).  Plain Python floats, no srctools import.
"""
from __future__ import annotations

import math


def mat_from_angle(pitch: float, yaw: float, roll: float) -> list[list[float]]:
    p, y, r = math.radians(pitch), math.radians(yaw), math.radians(roll)
    sp, cp = math.sin(p), math.cos(p)
    sy, cy = math.sin(y), math.cos(y)
    sr, cr = math.sin(r), math.cos(r)
    return [
        [cp * cy, cp * sy, -sp],
        [sr * sp * cy - cr * sy, sr * sp * sy + cr * cy, sr * cp],
        [cr * sp * cy + sr * sy, cr * sp * sy - sr * cy, cr * cp],
    ]


IDENT = [[1.0, 0.0, 0.0], [0.0, 1.0, 0.0], [0.0, 0.0, 1.0]]


def mat_mul(a, b):
    return [[sum(a[i][k] * b[k][j] for k in range(3)) for j in range(3)] for i in range(3)]


def vec_mat(v, m):
    return [v[0] * m[0][j] + v[1] * m[1][j] + v[2] * m[2][j] for j in range(3)]


def transpose(m):
    return [[m[j][i] for j in range(3)] for i in range(3)]


def det(m) -> float:
    return (
        m[0][0] * (m[1][1] * m[2][2] - m[1][2] * m[2][1])
        - m[0][1] * (m[1][0] * m[2][2] - m[1][2] * m[2][0])
        + m[0][2] * (m[1][0] * m[2][1] - m[1][1] * m[2][0])
    )


def max_diff(a, b) -> float:
    return max(abs(a[i][j] - b[i][j]) for i in range(3) for j in range(3))


def vadd(a, b):
    return [a[0] + b[0], a[1] + b[1], a[2] + b[2]]


def vsub(a, b):
    return [a[0] - b[0], a[1] - b[1], a[2] - b[2]]


def dot(a, b) -> float:
    return a[0] * b[0] + a[1] * b[1] + a[2] * b[2]


def vlen(a) -> float:
    return math.sqrt(dot(a, a))


def transform(v, rot, off):
    """v rotated by ``rot`` and then offset by ``off``."""
    return vadd(vec_mat(v, rot), off)
