import time
from hypothesis import given, settings, HealthCheck, seed, Phase, strategies as st
from vlib import bspgen as G, gens
def timeit(name, strat, n=200):
    out=[]
    @seed(5)
    @settings(max_examples=n, database=None, deadline=None, suppress_health_check=list(HealthCheck), phases=[Phase.generate])
    @given(strat)
    def t(d): out.append(1)
    t0=time.time(); t(); print(f'{name:20s} {1000*(time.time()-t0)/len(out):.2f} ms/ex')
f = gens.f32(-65536.0, 65536.0)
timeit('f32 x100', st.lists(f, min_size=100, max_size=100))
fi = st.integers(-(1<<22), 1<<22).map(lambda i: i/64.0)
timeit('fint x100', st.lists(fi, min_size=100, max_size=100))
timeit('int x100', st.lists(st.integers(0,65535), min_size=100, max_size=100))
u16 = st.one_of(st.sampled_from([0, 1, 2, 255, 256, 0x7FFF, 0xFFFF]), st.integers(0, 0xFFFF))
timeit('u16 oneof x100', st.lists(u16, min_size=100, max_size=100))
timeit('world', G.world_strategy('quick'), 60)
timeit('world poor', G.world_strategy('quick', rich=False), 60)
