"""DMX element graphs for the property checks (C14; reused by the particles check in C20).

Three independent pieces, all working on one JSON-able *graph descriptor*::

    {'elems': [{'type': str, 'name': str, 'uuid': '<32 hex>', 'attrs': [[name, vtype, is_array, value], ...]}, ...]}

* an element may carry ``'post': {'noname': 'del'|'pop'|'clear'|'popitem', 'edits': [['readd', i] |
  ['retype', i, vtype, is_array, value] | ['setdefault', name, vtype, is_array, value], ...]}``: edits applied after
  building through the Mapping-style mutators of `Element` (so graphs are not only freshly constructed ones), and the
  removal of the ``name`` attribute through one of four public routes (``Element.name`` is then '').
* element 0 is the root; ``vtype`` is a `srctools.dmx.ValueType` *value* string (``'int'``, ``'vector3'``, ...);
  ``value`` is one item (scalar) or a list of items (array).  Items per type:
  ``element`` ``['e', index]`` (index is taken modulo the number of elements) | ``['null']`` | ``['stub', '<32 hex>']``;
  ``int`` int; ``float`` float; ``bool`` bool; ``string`` str; ``binary`` hex str; ``time`` int number of 1/10000 s
  (the wire unit, so every generated Time is representable); ``color`` [r, g, b, a]; ``vector2/3/4``, ``quaternion``,
  ``qangle`` lists of floats; ``vmatrix`` 9 floats (row major 3x3 - srctools' matrices are 3x3).

* `graph_descs()`  - Hypothesis strategy for descriptors.
* `build_graph()`  - descriptor -> `srctools.dmx.Element` (root) through the public API only.
* `canon_desc()`   - descriptor -> canonical form, *without* touching srctools (the expected value).
* `canon_graph()`  - `Element` -> canonical form by an own walk from the root (first-visit numbering).
* `canon_diff()`   - compare two canonical forms (exact, or with the text-format tolerances).
* `decode_binary()` - independent decoder of the binary DMX stream (versions 1-5), written from the format
  description (Valve's ``dmserializerbinary``), returning a graph descriptor; never calls srctools.

Canonical form::

    {'nodes': [{'type', 'name', 'uuid', 'attrs': [[name, vtype, is_array, value], ...]}, ...]}   # node 0 = root

with element items ``['elem', node_number]``, ``['null', '0'*32]``, ``['stub', uuid_hex]``; ``time`` as float seconds.
"""
from __future__ import annotations

import functools
import math
import re
import struct
from typing import Any, Optional

import warnings

from hypothesis import strategies as st
from hypothesis.errors import HypothesisWarning

from vlib import gens

# The graph strategy is a large (cached) tree of strategies; its repr is never looked at.
warnings.filterwarnings('ignore', message='Generating overly large repr', category=HypothesisWarning)

VTYPES = [
    'element', 'int', 'float', 'bool', 'string', 'binary', 'time', 'color',
    'vector2', 'vector3', 'vector4', 'qangle', 'quaternion', 'vmatrix',
]
FLOAT_LEN = {'vector2': 2, 'vector3': 3, 'vector4': 4, 'qangle': 3, 'quaternion': 4, 'vmatrix': 9}
NULL_HEX = '0' * 32
TIME_SCALE = 10000.0

# Words that are syntax in the KeyValues2 encoding when they appear where an element *type* is written.
KV2_KEYWORDS = frozenset(VTYPES) | {v + '_array' for v in VTYPES} | {'elementid', 'elementid_array'}


def type_is_kv2_keyword(type_name: str) -> bool:
    """An element type that KeyValues2 cannot tell from a value-type keyword (compared case-insensitively)."""
    return type_name.casefold() in KV2_KEYWORDS


# ------------------------------------------------------------------------------------------------------------------
# Strategy

def _text(ascii_only: bool, nul: bool, max_size: int):
    """Strings: syntax-heavy ASCII, arbitrary characters, or a mix.  (A `str`/`characters()` alphabet keeps
    each string a single Hypothesis choice - an order of magnitude cheaper than per-character strategies.)"""
    esc = ''.join(c for c in gens.ESCAPE_ALPHABET + gens.LETTERS
                  if (not ascii_only or ord(c) < 128) and (nul or c != '\x00'))
    syntax = st.text(esc, max_size=max_size)
    if ascii_only:
        anychar = st.text(st.characters(min_codepoint=0 if nul else 1, max_codepoint=127), max_size=max_size)
    else:
        anychar = st.text(st.characters(exclude_categories=['Cs'], exclude_characters='' if nul else '\x00'),
                          max_size=max_size)
    half = max(1, max_size // 2)
    mixed = st.tuples(st.text(esc, max_size=half), anychar).map(lambda p: (p[0] + p[1])[:max_size])
    return st.one_of(syntax, anychar, mixed)


def _f32():
    return st.one_of(
        st.floats(allow_nan=False, allow_infinity=False, width=32),
        st.floats(-1000.0, 1000.0, allow_nan=False, width=32),
        st.sampled_from([0.0, 1.0, -1.0, 0.5, 0.1015625, 16384.0, -2.5]),
        # both signed zeros (equal, same hash, different bits) and 1.0 (== True == 1): values that compare equal but
        # are not the same must stay apart when they meet in one document / one process
        st.sampled_from([0.0, -0.0, -0.0, 1.0]),
        # magnitudes whose text form has many digits or (with a different formatter) an exponent: every decade up to the
        # float32 maximum and down to the smallest normal, with a mantissa of 1, 1.5 or 9.999...
        st.builds(lambda m, e, sign: gens.to_f32(sign * min(m * 10.0 ** e, 3.4e38)),
                  st.sampled_from([1.0, 1.5, 9.9999]), st.integers(-38, 38), st.sampled_from([1, -1])),
    )


def _angle_comp():
    # [0, 360): the range an Angle stores (construction normalises; keeps the expected value independent of that).
    return st.one_of(
        st.floats(0.0, gens.to_f32(359.9999), allow_nan=False, width=32),
        st.sampled_from([0.0, 90.0, 180.0, 270.0, 45.5]),
    )


N_STUB_POOL = 3
_ELEM_REF = st.integers(0, 11).map(lambda i: ['e', i])
_ELEM_ITEM = st.one_of(
    _ELEM_REF, _ELEM_REF, _ELEM_REF, _ELEM_REF,
    st.just(['null']),
    st.integers(0, N_STUB_POOL - 1).map(lambda k: ['stub', k]),   # replaced by a pool UUID in _finish()
)


def _item_strategies(text) -> dict:
    f = _f32()
    return {
        'element': _ELEM_ITEM,
        'int': st.one_of(st.integers(-2 ** 31, 2 ** 31 - 1), st.integers(-3, 300), st.sampled_from([0, 1])),
        'float': f,
        'bool': st.booleans(),
        'string': text,
        'binary': gens.hexbytes(0, 12),
        'time': st.one_of(st.integers(-2 ** 31, 2 ** 31 - 1), st.integers(-20000, 200000)),
        'color': st.lists(st.integers(0, 255), min_size=4, max_size=4),
        'vector2': st.lists(f, min_size=2, max_size=2),
        'vector3': st.lists(f, min_size=3, max_size=3),
        'vector4': st.lists(f, min_size=4, max_size=4),
        'qangle': st.lists(_angle_comp(), min_size=3, max_size=3),
        'quaternion': st.lists(f, min_size=4, max_size=4),
        'vmatrix': st.lists(f, min_size=9, max_size=9),
    }


COMMON_ATTR_NAMES = ['id', 'ID', 'keyName', 'subkeys', 'value', 'Children', 'operators', 'functionName', 'x']
# Characters for which str.lower() != str.casefold() (keys are documented to be casefolded), and names using them.
FOLD_CHARS = '\u00df\u017f\u03c2\u0149\u01f0\ufb01\ufb06\u1e9e\u0390'
FOLD_ATTR_NAMES = ['Ma\u00dfe', '\u017fize', '\u039f\u0394\u039f\u03c2', '\u0149', '\u01f0x', '\ufb01le', 'STRA\u1e9eE']
COMMON_TYPES = ['DmElement', 'DmeParticleSystemDefinition', 'DmeParticleOperator', 'DmElementLeaf', 'dmelement', '']
# Element types that *resemble* the in-band KeyValues2 syntax without being a keyword: a stem (arbitrary, or itself a
# value-type word) followed by something like the "_array" suffix in any letter case, doubled, or nearly that suffix.
# (Types that are exactly a keyword are removed afterwards by the kv2_safe_types filter.)
KWLIKE_STEMS = ['', 'Dme', 'DmeFloat', 'sample', 'x', 'Int', 'element', 'elementid', 'float_array', 'Vector3', ' ']
KWLIKE_TAILS = ['_array', '_Array', '_ARRAY', '_array_array', '_arra', '_arrays', 'array', '_array ', '_', 'id']


def _finish(pair):
    """Give the elements their (distinct) UUIDs and turn stub pool indices into UUIDs."""
    elems, ids = pair
    hexes = [f'{i:032x}' for i in ids]
    pool = hexes[len(hexes) - N_STUB_POOL:]

    def fix(item):
        return ['stub', pool[item[1]]] if item[0] == 'stub' else item

    # Every element i >= 1 hangs off an earlier element (a spanning tree, so the whole graph is reachable from the
    # root): two thirds as members of the parent's "children" array, one third as the value of a scalar element
    # attribute of the parent (the only way an element is written *inline as an attribute value* by the nested text
    # layout).  The drawn links and element attributes add sharing, cycles, NULLs and stubs.
    def taken(alist, name):
        return name.casefold() == 'name' or any(a[0].casefold() == name.casefold() for a in alist)

    alists = []
    for etype, ename, attrs, link_name, _, link_pos, _, post in elems:
        alist = []
        for nm, (vt, (is_arr, val)) in attrs:
            if vt == 'element':
                val = [fix(x) for x in val] if is_arr else fix(val)
            alist.append([nm, vt, is_arr, val])
        alists.append(alist)
    children = [[fix(x) for x in e[4]] for e in elems]
    for i in range(1, len(elems)):
        draw = elems[i][6]
        parent = draw % i
        if (draw // 12) % 3 == 0:
            name = elems[i][3]
            while taken(alists[parent], name):
                name += '_'
            alists[parent].insert(elems[i][5] % (len(alists[parent]) + 1), [name, 'element', False, ['e', i]])
        else:
            kids = children[parent]
            kids.insert((draw // 12) % (len(kids) + 1), ['e', i])
    out = []
    for i, (etype, ename, attrs, link_name, _, link_pos, _, post) in enumerate(elems):
        alist = alists[i]
        if children[i]:
            while taken(alist, link_name):
                link_name += '_'
            alist.insert(link_pos % (len(alist) + 1), [link_name, 'element', True, children[i]])
        ed = {'type': etype, 'name': ename, 'uuid': hexes[i], 'attrs': alist}
        if post is not None:
            noname, edits = post
            fixed = []
            for edit in edits:
                if edit[0] == 'readd':
                    fixed.append(list(edit))
                    continue
                kind, key, (vt, (is_arr, val)) = edit
                if vt == 'element':
                    val = [fix(x) for x in val] if is_arr else fix(val)
                fixed.append([kind, key, vt, is_arr, val])
            if noname or fixed:
                ed['post'] = {'noname': noname, 'edits': fixed}
        out.append(ed)
    return {'elems': out}


@functools.lru_cache(maxsize=None)
def _graphs(max_elems, max_attrs, max_array, ascii_only, nul, vtypes, kv2_safe_types, text_size, post_edits):
    text = _text(ascii_only, nul, text_size)
    items = _item_strategies(text)

    def typed(vt):
        return st.tuples(st.just(vt), st.one_of(
            st.tuples(st.just(False), items[vt]),
            st.tuples(st.just(True), st.lists(items[vt], max_size=max_array)),
        ))

    # Element attributes are what makes a graph: they get about a third of the weight.
    choices = [typed(vt) for vt in vtypes]
    if 'element' in vtypes:
        choices += [typed('element')] * max(1, len(vtypes) // 2 - 1)
    # Names are drawn independently of the value type, so every kind of name meets every kind of value (in particular
    # element values, which the nested text layout writes inline through a separate code path).
    name_choices = [text, text, st.sampled_from(COMMON_ATTR_NAMES)]
    if not ascii_only:
        name_choices += [st.sampled_from(FOLD_ATTR_NAMES), st.text(FOLD_CHARS + 'aZ', min_size=1, max_size=4)]
    attr_name = st.one_of(name_choices).filter(lambda s: s.casefold() != 'name')
    kwlike = st.tuples(st.one_of(st.sampled_from(KWLIKE_STEMS), text), st.sampled_from(KWLIKE_TAILS)).map(''.join)
    type_name = st.one_of(text, st.sampled_from(COMMON_TYPES), kwlike)
    if kv2_safe_types:
        type_name = type_name.filter(lambda s: not type_is_kv2_keyword(s))
    attrs = st.lists(st.tuples(attr_name, st.one_of(choices)), max_size=max_attrs, unique_by=lambda a: a[0].casefold())
    if 'element' in vtypes:
        links = st.lists(_ELEM_ITEM, max_size=max(2, max_array - 2))
    else:
        links = st.just([])
    edit = st.one_of(
        st.tuples(st.just('readd'), st.integers(0, max_attrs)),
        st.tuples(st.just('retype'), st.integers(0, max_attrs), st.one_of(choices)),
        st.tuples(st.just('setdefault'), attr_name, st.one_of(choices)),
    )
    post = st.one_of(
        st.none(), st.none(), st.none(),
        st.tuples(st.sampled_from([None, 'del', 'pop', 'clear', 'popitem']), st.lists(edit, max_size=2)),
    ) if post_edits else st.none()
    elem = st.tuples(type_name, text, attrs, attr_name, links, st.integers(0, max_attrs), st.integers(0, 143), post)
    n_ids = max_elems + N_STUB_POOL
    # 15 random bytes + a distinct non-zero last byte each: distinct, non-zero UUIDs from a single choice.
    ids = st.binary(min_size=15 * n_ids, max_size=15 * n_ids).map(
        lambda b: [int.from_bytes(b[15 * i:15 * i + 15] + bytes([i + 1]), 'big') for i in range(n_ids)])
    # The element count is drawn first (lists of composite items are otherwise heavily biased to length 1).
    sizes = sorted({min(max_elems, k) for k in (1, 2, 3, 4, 5, 6, 8, 10, 12, max_elems)})
    by_size = {k: st.lists(elem, min_size=k, max_size=k) for k in sizes}
    weighted = [k for k in sizes for _ in range(1 if k == 1 else 2)]
    return st.tuples(st.sampled_from(weighted).flatmap(by_size.__getitem__), ids).map(_finish)


def graph_descs(
    max_elems: int = 12,
    max_attrs: int = 6,
    max_array: int = 5,
    ascii_only: Optional[bool] = None,
    nul: bool = False,
    vtypes: Optional[list] = None,
    kv2_safe_types: bool = True,
    text_size: int = 8,
    post_edits: bool = True,
):
    """Strategy for graph descriptors.  ``ascii_only=None``: decided per graph (half of the graphs are pure ASCII).

    Respected by construction: distinct UUIDs for all elements, stub UUIDs distinct from them and non-zero;
    attribute names distinct case-insensitively and never ``name`` (that key *is* the element name);
    strings hold no lone surrogates and (unless ``nul``) no NUL; with ``kv2_safe_types`` an element type is never
    a KeyValues2 keyword.  Element references are indices taken modulo the number of elements.  With ``post_edits``
    about a quarter of the elements carry post-build edits / a removed ``name`` attribute (see the module docstring).
    """
    args = (max_elems, max_attrs, max_array)
    rest = (nul, tuple(vtypes or VTYPES), kv2_safe_types, text_size, post_edits)
    if ascii_only is None:
        return st.one_of(_graphs(*args, True, *rest), _graphs(*args, False, *rest))
    return _graphs(*args, bool(ascii_only), *rest)


# ------------------------------------------------------------------------------------------------------------------
# Descriptor -> srctools objects (public API only)

def build_graph(desc: dict):
    """Build the element graph; returns the root `Element` (element 0)."""
    from uuid import UUID
    from srctools.dmx import NULL, Attribute, Color, Element, Quaternion, StubElement, Time, ValueType, Vec2, Vec4
    from srctools.math import FrozenAngle, FrozenVec, Matrix

    edescs = desc['elems']
    n = len(edescs)
    elems = [Element(e['name'], e['type'], UUID(hex=e['uuid'])) for e in edescs]
    stubs: dict = {}

    def matrix(vals):
        mat = Matrix()
        for r in range(3):
            for c in range(3):
                mat[r, c] = vals[r * 3 + c]
        return mat.freeze()

    def ref(item):
        if item[0] == 'e':
            return elems[item[1] % n]
        if item[0] == 'null':
            return NULL
        if item[0] == 'stub':
            if item[1] not in stubs:
                stubs[item[1]] = StubElement.stub(UUID(hex=item[1]))
            return stubs[item[1]]
        raise ValueError(f'bad element item {item!r}')

    conv = {
        'element': ref,
        'int': int, 'float': float, 'bool': bool, 'string': str,
        'binary': bytes.fromhex,
        'time': lambda k: Time(k / TIME_SCALE),
        'color': lambda c: Color(c[0], c[1], c[2], c[3]),
        'vector2': lambda v: Vec2(v[0], v[1]),
        'vector3': lambda v: FrozenVec(v[0], v[1], v[2]),
        'vector4': lambda v: Vec4(v[0], v[1], v[2], v[3]),
        'qangle': lambda v: FrozenAngle(v[0], v[1], v[2]),
        'quaternion': lambda v: Quaternion(v[0], v[1], v[2], v[3]),
        'vmatrix': matrix,
    }
    scalar_ctor = {
        'int': Attribute.int, 'float': Attribute.float, 'bool': Attribute.bool, 'string': Attribute.string,
        'binary': Attribute.binary, 'time': Attribute.time,
        'color': lambda nm, c: Attribute.color(nm, c.r, c.g, c.b, c.a),
        'vector2': lambda nm, v: Attribute.vec2(nm, v.x, v.y),
        'vector3': lambda nm, v: Attribute.vec3(nm, v.x, v.y, v.z),
        'vector4': lambda nm, v: Attribute.vec4(nm, v.x, v.y, v.z, v.w),
        'qangle': lambda nm, a: Attribute.angle(nm, a.pitch, a.yaw, a.roll),
        'quaternion': lambda nm, q: Attribute.quaternion(nm, q.x, q.y, q.z, q.w),
    }
    def make(nm, vt, is_arr, val):
        """An `Attribute`, or (element / matrix scalars, which have no constructor method) the bare value whose type
        `Element.__setitem__` / `setdefault` deduce."""
        if is_arr:
            return Attribute.array(nm, ValueType(vt), [conv[vt](x) for x in val])
        if vt in scalar_ctor:
            return scalar_ctor[vt](nm, conv[vt](val))
        return conv[vt](val)

    for elem, ed in zip(elems, edescs):
        seen = set()
        for nm, vt, is_arr, val in ed['attrs']:
            key = nm.casefold()
            if key == 'name' or key in seen:
                raise ValueError(f'descriptor has reserved/duplicate attribute name {nm!r}')
            seen.add(key)
            elem[nm] = make(nm, vt, is_arr, val)
        post = ed.get('post') or {}
        # Post-build edits through the Mapping-style mutators (the model is `effective_attrs`).
        model = [list(a) for a in ed['attrs']]
        for edit in post.get('edits', ()):
            if edit[0] == 'readd' and model:            # delete, then add again: moves to the end
                a = model.pop(edit[1] % len(model))
                model.append(a)
                del elem[a[0]]
                elem[a[0]] = make(*a)
            elif edit[0] == 'retype' and model:         # assignment over an existing key: keeps its position
                i = edit[1] % len(model)
                model[i] = [model[i][0]] + list(edit[2:5])
                elem[model[i][0]] = make(*model[i])
            elif edit[0] == 'setdefault':
                key = edit[1].casefold()
                if key == 'name':
                    raise ValueError('setdefault edit on the reserved name')
                got = elem.setdefault(edit[1], make(*edit[1:5]))
                if all(a[0].casefold() != key for a in model):
                    model.append(list(edit[1:5]))
                elif got is not elem[edit[1]]:
                    raise ValueError('setdefault returned a foreign attribute')
        how = post.get('noname')
        if how == 'del':
            del elem['name']
        elif how == 'pop':
            elem.pop('name')
        elif how == 'clear':
            elem.clear()
            for a in model:
                elem[a[0]] = make(*a)
        elif how == 'popitem':
            popped = []
            while len(elem):
                popped.append(elem.popitem())
            for nm, attr in reversed(popped):
                if nm != 'name':
                    elem[nm] = attr
        elif how is not None:
            raise ValueError(f'bad noname route {how!r}')
    return elems[0]


def effective_attrs(ed: dict) -> list:
    """Pure model of an element descriptor's attribute list after its ``post`` edits."""
    model = [list(a) for a in ed['attrs']]
    for edit in (ed.get('post') or {}).get('edits', ()):
        if edit[0] == 'readd' and model:
            model.append(model.pop(edit[1] % len(model)))
        elif edit[0] == 'retype' and model:
            i = edit[1] % len(model)
            model[i] = [model[i][0]] + list(edit[2:5])
        elif edit[0] == 'setdefault':
            if all(a[0].casefold() != edit[1].casefold() for a in model):
                model.append(list(edit[1:5]))
    return model


def effective_name(ed: dict) -> str:
    """``Element.name`` is documented to be '' once the name attribute has been removed."""
    return '' if (ed.get('post') or {}).get('noname') else ed['name']


# ------------------------------------------------------------------------------------------------------------------
# Canonical forms

def _canon_item_desc(vt: str, item: Any) -> Any:
    if vt == 'time':
        return item / TIME_SCALE
    if vt in FLOAT_LEN:
        return [float(x) for x in item]
    if vt == 'float':
        return float(item)
    if vt == 'color':
        return list(item)
    return item


def canon_desc(desc: dict) -> dict:
    """Expected canonical graph computed from the descriptor alone."""
    edescs = desc['elems']
    n = len(edescs)
    number = {0: 0}
    order = [0]
    nodes = []
    pos = 0
    while pos < len(order):
        ed = edescs[order[pos]]
        pos += 1
        attrs = []
        for nm, vt, is_arr, val in effective_attrs(ed):
            if vt == 'element':
                def ref(item):
                    if item[0] == 'e':
                        idx = item[1] % n
                        if idx not in number:
                            number[idx] = len(order)
                            order.append(idx)
                        return ['elem', number[idx]]
                    if item[0] == 'null':
                        return ['null', NULL_HEX]
                    return ['stub', item[1]]
                cval = [ref(x) for x in val] if is_arr else ref(val)
            elif is_arr:
                cval = [_canon_item_desc(vt, x) for x in val]
            else:
                cval = _canon_item_desc(vt, val)
            attrs.append([nm, vt, bool(is_arr), cval])
        node = {'type': ed['type'], 'name': effective_name(ed), 'uuid': ed['uuid'], 'attrs': attrs}
        post = ed.get('post') or {}
        if post.get('noname'):
            node['name_removed'] = post['noname']      # provenance only; canon_diff ignores these keys
        if post.get('edits'):
            node['edited'] = [e[0] for e in post['edits']]
        nodes.append(node)
    return {'nodes': nodes}


def canon_graph(root) -> dict:
    """Canonical graph of live srctools objects: own breadth-first walk over the public API.

    Element identity is object identity (not the UUID), so two elements that wrongly share a UUID, or one element
    that was duplicated, show up as a different graph.  Values whose Python type is not the one the value type
    promises are recorded as ``['badtype', ...]`` so that they never compare equal.
    """
    from srctools.dmx import Color, Element, Quaternion, StubElement, Time, ValueType, Vec2, Vec4
    from srctools.math import FrozenAngle, FrozenMatrix, FrozenVec

    number = {id(root): 0}
    order = [root]

    def ref(child):
        if not isinstance(child, Element):
            return ['badtype', type(child).__name__]
        if isinstance(child, StubElement):
            if child.is_null:
                return ['null', child.uuid.hex]
            if child.is_stub:
                return ['stub', child.uuid.hex]
            return ['badtype', repr(child)]
        if id(child) not in number:
            number[id(child)] = len(order)
            order.append(child)
        return ['elem', number[id(child)]]

    def flt(x):
        return x if type(x) is float else ['badtype', type(x).__name__, repr(x)]

    def typed(cls, fn):
        def conv(x):
            if type(x) is not cls:
                return ['badtype', type(x).__name__, repr(x)]
            return fn(x)
        return conv

    items = {
        ValueType.ELEMENT: ('element', 'elem', ref),
        ValueType.INT: ('int', 'int', typed(int, lambda x: x)),
        ValueType.FLOAT: ('float', 'float', flt),
        ValueType.BOOL: ('bool', 'bool', typed(bool, lambda x: x)),
        ValueType.STRING: ('string', 'str', typed(str, lambda x: x)),
        ValueType.BINARY: ('binary', 'bin', typed(bytes, bytes.hex)),
        ValueType.TIME: ('time', 'time', typed(Time, lambda t: flt(t.value))),
        ValueType.COLOR: ('color', 'color', typed(Color, lambda c: [c.r, c.g, c.b, c.a])),
        ValueType.VEC2: ('vector2', 'vec2', typed(Vec2, lambda v: [flt(v.x), flt(v.y)])),
        ValueType.VEC3: ('vector3', 'vec3', typed(FrozenVec, lambda v: [flt(v.x), flt(v.y), flt(v.z)])),
        ValueType.VEC4: ('vector4', 'vec4', typed(Vec4, lambda v: [flt(v.x), flt(v.y), flt(v.z), flt(v.w)])),
        ValueType.ANGLE: ('qangle', 'angle', typed(FrozenAngle, lambda a: [flt(a.pitch), flt(a.yaw), flt(a.roll)])),
        ValueType.QUATERNION: ('quaternion', 'quat',
                               typed(Quaternion, lambda q: [flt(q.x), flt(q.y), flt(q.z), flt(q.w)])),
        ValueType.MATRIX: ('vmatrix', 'mat',
                           typed(FrozenMatrix, lambda m: [flt(m[r, c]) for r in range(3) for c in range(3)])),
    }

    nodes = []
    pos = 0
    while pos < len(order):
        elem = order[pos]
        pos += 1
        attrs = []
        for key, attr in zip(elem.keys(), elem.values()):
            if key == 'name':
                continue  # the element name, reported below
            vt, suffix, conv = items[attr.type]
            if attr.is_array:
                val = [conv(x) for x in getattr(attr, 'iter_' + suffix)()]
            else:
                val = conv(getattr(attr, 'val_' + suffix))
            entry = [attr.name, vt, attr.is_array, val]
            if key != attr.name.casefold():
                entry.append(['badkey', key])
            else:
                try:
                    found = elem[attr.name]
                except KeyError:
                    found = None
                if found is not attr:
                    entry.append(['badlookup', attr.name])
            attrs.append(entry)
        nodes.append({'type': elem.type, 'name': elem.name, 'uuid': elem.uuid.hex, 'attrs': attrs})
    return {'nodes': nodes}


def _float_close(a: Any, b: Any, tol: float, circle: bool) -> bool:
    if type(a) is not float or type(b) is not float:
        return False
    if a == b:
        # Exact (binary) comparison is bitwise: +0.0 and -0.0 are different float32 values.  Angles are exempt (an
        # Angle normalises its components on construction) and so is text ("to 6 decimals").
        return tol > 0.0 or circle or math.copysign(1.0, a) == math.copysign(1.0, b)
    if tol <= 0.0:
        return False
    d = abs(a - b)
    if circle:
        d = d % 360.0
        d = min(d, 360.0 - d)
    return d <= tol * max(1.0, abs(a), abs(b))


def canon_diff(want: dict, got: dict, float_tol: float = 0.0, uuid_free=frozenset()) -> Optional[str]:
    """None if the canonical graphs agree, else a description of the first difference.

    ``float_tol`` > 0 (text formats): floats agree within ``float_tol * max(1, |x|)``, angles on the circle.
    ``uuid_free``: node numbers whose UUID is not compared (``cull_uuid``).
    """
    wn, gn = want['nodes'], got['nodes']
    if len(wn) != len(gn):
        return f'{len(wn)} elements reachable from the root expected, got {len(gn)}'
    for i, (w, g) in enumerate(zip(wn, gn)):
        where = f'element #{i} (type {w["type"]!r}, name {w["name"]!r})'
        for field in ('type', 'name', 'uuid'):
            if field == 'uuid' and i in uuid_free:
                continue
            if w[field] != g[field]:
                return f'{where}: {field} {w[field]!r} became {g[field]!r}'
        wa, ga = w['attrs'], g['attrs']
        if [a[0] for a in wa] != [a[0] for a in ga]:
            return f'{where}: attribute names/order {[a[0] for a in wa]!r} became {[a[0] for a in ga]!r}'
        for a, b in zip(wa, ga):
            awhere = f'{where} attribute {a[0]!r}'
            if len(b) != 4:
                return f'{awhere}: stored under the wrong key {b[4:]!r}'
            if a[1] != b[1] or a[2] != b[2]:
                return (f'{awhere}: type {a[1]}{"[]" if a[2] else ""} became {b[1]}{"[]" if b[2] else ""}')
            vt = a[1]
            if a[2]:
                if not isinstance(b[3], list) or len(a[3]) != len(b[3]):
                    return f'{awhere}: array {a[3]!r} became {b[3]!r}'
                pairs = list(zip(a[3], b[3]))
            else:
                pairs = [(a[3], b[3])]
            for x, y in pairs:
                if vt in FLOAT_LEN:
                    ok = (isinstance(y, list) and len(x) == len(y)
                          and all(_float_close(p, q, float_tol, vt == 'qangle') for p, q in zip(x, y)))
                elif vt in ('float', 'time'):
                    ok = _float_close(x, y, float_tol, False)
                else:
                    ok = type(x) is type(y) and x == y
                if not ok:
                    return f'{awhere} ({vt}{"[]" if a[2] else ""}): value {x!r} became {y!r}'
    return None


def graph_facts(canon: dict) -> dict:
    """Shape statistics of a canonical graph (for non-triviality rules and histograms)."""
    nodes = canon['nodes']
    indeg = [0] * len(nodes)
    succ: list = [set() for _ in nodes]
    facts = {
        'elements': len(nodes), 'shared': False, 'cycle': False, 'self_ref': False, 'array': False,
        'empty_array': False, 'stub': False, 'stub_in_array': False, 'null': False, 'null_in_array': False,
        'non_ascii': False, 'has_time': False, 'nul': False, 'cells': set(), 'indegree': indeg,
        'name_removed': set(), 'name_removed_with_attrs': False, 'edits': set(),
        'zero_signs': set(), 'fold_name_elem': [], 'scalar_elem_targets': [],
    }

    def text(s):
        if any(ord(ch) > 127 for ch in s):
            facts['non_ascii'] = True
        if '\x00' in s:
            facts['nul'] = True

    for i, node in enumerate(nodes):
        text(node['type'])
        text(node['name'])
        if node.get('name_removed'):
            facts['name_removed'].add(node['name_removed'])
            if node['attrs']:
                facts['name_removed_with_attrs'] = True
        facts['edits'].update(node.get('edited', ()))
        for nm, vt, is_arr, val in node['attrs']:
            text(nm)
            facts['cells'].add((vt, is_arr))
            if is_arr:
                facts['array'] = True
                if not val:
                    facts['empty_array'] = True
            if vt == 'time':
                facts['has_time'] = True
            if vt == 'string':
                for s in (val if is_arr else [val]):
                    text(s)
            if vt == 'float' or (vt in FLOAT_LEN and vt != 'qangle'):
                for item in (val if is_arr else [val]):
                    for x in ([item] if vt == 'float' else item):
                        if x == 0.0:
                            facts['zero_signs'].add(math.copysign(1.0, x))
            if vt == 'element':
                if not is_arr and nm.lower() != nm.casefold() and val[0] == 'elem':
                    facts['fold_name_elem'].append([val[1]])
                if not is_arr and val[0] == 'elem':
                    facts['scalar_elem_targets'].append(val[1])
                for item in (val if is_arr else [val]):
                    if item[0] == 'elem':
                        indeg[item[1]] += 1
                        succ[i].add(item[1])
                        if item[1] == i:
                            facts['self_ref'] = True
                    elif item[0] == 'stub':
                        facts['stub'] = True
                        if is_arr:
                            facts['stub_in_array'] = True
                    elif item[0] == 'null':
                        facts['null'] = True
                        if is_arr:
                            facts['null_in_array'] = True
    facts['shared'] = any(d >= 2 for d in indeg[1:]) or indeg[0] >= 1
    facts['signed_zeros'] = len(facts['zero_signs']) == 2
    # a scalar element value under a name with lower() != casefold() that the nested text layout writes inline
    facts['fold_name_inline'] = any(t != 0 and indeg[t] == 1 for targets in facts['fold_name_elem'] for t in targets)
    # an element whose type ends in "_array" (any case) and that the nested text layout writes inline as the value of
    # a scalar element attribute - where the parser has to tell `"attr" "<type>"` from `"attr" "<valuetype>_array"`
    facts['array_suffix_type_inline'] = any(
        t != 0 and indeg[t] == 1 and nodes[t]['type'].casefold().endswith('_array')
        for t in facts['scalar_elem_targets'])
    # cycle: iterative three-colour DFS
    colour = [0] * len(nodes)
    for start in range(len(nodes)):
        if colour[start]:
            continue
        stack = [(start, iter(sorted(succ[start])))]
        colour[start] = 1
        while stack:
            node, it = stack[-1]
            for nxt in it:
                if colour[nxt] == 1:
                    facts['cycle'] = True
                elif colour[nxt] == 0:
                    colour[nxt] = 1
                    stack.append((nxt, iter(sorted(succ[nxt]))))
                    break
            else:
                colour[node] = 2
                stack.pop()
    return facts


# ------------------------------------------------------------------------------------------------------------------
# Independent decoder of the binary encoding

class DecodeError(Exception):
    """The byte stream is not a well-formed binary DMX document."""


_HEADER = re.compile(rb'<!-- dmx encoding (unicode_)?binary ([0-9]+) format (\S+) ([0-9]+) -->\n\x00')
_FIXED = {  # wire code -> (vtype, struct format)
    2: ('int', '<i'), 3: ('float', '<f'), 4: ('bool', '<B'), 7: ('time', '<i'), 8: ('color', '<4B'),
    9: ('vector2', '<2f'), 10: ('vector3', '<3f'), 11: ('vector4', '<4f'), 12: ('qangle', '<3f'),
    13: ('quaternion', '<4f'), 14: ('vmatrix', '<16f'),
}
_N_SCALAR = 14  # codes 1..14 are scalars, 15..28 the matching arrays


def decode_binary(data: bytes, encoding: str) -> dict:
    """Decode a binary DMX stream (encoding versions 1-5) into a graph descriptor plus format facts.

    Layout (little endian): header comment line + NUL; v>=2 string table (count: int16 for v2/v3, int32 for v4/v5;
    NUL-terminated strings); element count int32; per element: type (table index for v>=2, else inline string),
    name (table index for v>=4, else inline string), 16-byte GUID; then per element: attribute count int32 and per
    attribute: name (table index for v>=2, else inline), type code byte (1-14 scalar, 15-28 array = scalar + 14,
    arrays are followed by an int32 count), values.  Table indices are int32 in v5 and int16 before.  Values:
    element = int32 index (-1 null, -2 external reference followed by the GUID as NUL-terminated text); int, time
    (1/10000 s, v>=3) = int32; float = float32; bool = 1 byte; string = table index for a scalar in v>=4, otherwise
    inline NUL-terminated text; binary = int32 length + bytes; color = 4 bytes; vectors/angles/quaternions =
    float32s; matrix = 16 float32 (row major 4x4).

    Returns ``{'elems': [...], 'version', 'unicode_flag', 'fmt_name', 'fmt_ver', 'strings', 'trailing'}``.
    """
    m = _HEADER.match(data)
    if m is None:
        raise DecodeError(f'bad header {data[:80]!r}')
    version = int(m.group(2))
    if not 1 <= version <= 5:
        raise DecodeError(f'unsupported version {version}')
    pos = m.end()

    def take(fmt):
        nonlocal pos
        size = struct.calcsize(fmt)
        if pos + size > len(data):
            raise DecodeError(f'stream ends inside a {fmt!r} field at offset {pos}')
        res = struct.unpack_from(fmt, data, pos)
        pos += size
        return res

    def raw(count):
        nonlocal pos
        if count < 0 or pos + count > len(data):
            raise DecodeError(f'stream ends inside a {count}-byte block at offset {pos}')
        res = data[pos:pos + count]
        pos += count
        return res

    def cstr(enc=encoding):
        nonlocal pos
        end = data.find(b'\x00', pos)
        if end < 0:
            raise DecodeError(f'unterminated string at offset {pos}')
        try:
            res = data[pos:end].decode(enc)
        except UnicodeDecodeError as exc:
            raise DecodeError(f'string at offset {pos} is not {enc}: {data[pos:end]!r}') from exc
        pos = end + 1
        return res

    strings = None
    if version >= 2:
        [count] = take('<i' if version >= 4 else '<h')
        if count < 0:
            raise DecodeError('negative string table size')
        strings = [cstr() for _ in range(count)]
    idx_fmt = '<i' if version >= 5 else '<h'

    def table():
        [i] = take(idx_fmt)
        if not 0 <= i < len(strings):
            raise DecodeError(f'string index {i} outside the table of {len(strings)} at offset {pos}')
        return strings[i]

    [n_elem] = take('<i')
    if n_elem < 1:
        raise DecodeError(f'{n_elem} elements')
    elems = []
    for _ in range(n_elem):
        etype = table() if version >= 2 else cstr()
        ename = table() if version >= 4 else cstr()
        guid = raw(16)
        d1, d2, d3 = struct.unpack('<IHH', guid[:8])
        elems.append({'type': etype, 'name': ename, 'uuid': f'{d1:08x}{d2:04x}{d3:04x}' + guid[8:].hex(), 'attrs': []})

    def item(code):
        if code == 1:
            [i] = take('<i')
            if i == -1:
                return ['null']
            if i == -2:
                text = cstr('ascii')
                hexed = text.replace('-', '')
                if not re.fullmatch(r'[0-9a-fA-F]{32}', hexed):
                    raise DecodeError(f'external element reference is followed by {text!r}, not a GUID')
                return ['stub', hexed.lower()]
            if not 0 <= i < n_elem:
                raise DecodeError(f'element index {i} outside the table of {n_elem}')
            return ['e', i]
        if code == 6:
            [size] = take('<i')
            return raw(size).hex()
        vt, fmt = _FIXED[code]
        vals = take(fmt)
        if vt == 'time':
            if version < 3:
                raise DecodeError('time attribute in a version < 3 stream')
            return vals[0]
        if vt in ('int', 'float'):
            return vals[0]
        if vt == 'bool':
            if vals[0] not in (0, 1):
                raise DecodeError(f'bool byte {vals[0]}')
            return bool(vals[0])
        if vt == 'vmatrix':
            return [vals[r * 4 + c] for r in range(3) for c in range(3)]
        return list(vals)

    for ed in elems:
        [n_attr] = take('<i')
        if n_attr < 0:
            raise DecodeError('negative attribute count')
        for _ in range(n_attr):
            aname = table() if version >= 2 else cstr()
            [code] = take('<B')
            if not 1 <= code <= 2 * _N_SCALAR:
                raise DecodeError(f'attribute {aname!r}: unknown type code {code}')
            is_arr = code > _N_SCALAR
            if is_arr:
                code -= _N_SCALAR
                [count] = take('<i')
                if count < 0:
                    raise DecodeError('negative array size')
            vt = 'element' if code == 1 else 'string' if code == 5 else 'binary' if code == 6 else _FIXED[code][0]
            if code == 5:
                if is_arr:
                    val = [cstr() for _ in range(count)]
                else:
                    val = table() if version >= 4 else cstr()
            elif is_arr:
                val = [item(code) for _ in range(count)]
            else:
                val = item(code)
            ed['attrs'].append([aname, vt, is_arr, val])
    return {
        'elems': elems, 'version': version, 'unicode_flag': m.group(1) is not None,
        'fmt_name': m.group(3).decode('ascii'), 'fmt_ver': int(m.group(4)),
        'strings': strings, 'trailing': len(data) - pos,
    }
