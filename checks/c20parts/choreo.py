"""C20 part: choreographed scenes (VCD text, BVCD binary, scenes.image) - DESIGN.md section 2, C20.

Descriptor -> (a) srctools objects through the public constructors, (b) an *expected shape* computed from the
descriptor alone (plain lists/dicts).  The objects are written, read back and walked by an independent
walker; the walked shape must equal the expected shape for that form (text / binary), and a second write must
give identical output.  ``scenes.image`` output is additionally decoded by an independent reader written
from the file layout (header, string offset table, sorted directory, summaries, LZMA blocks).
"""
from __future__ import annotations

import io
import json
import lzma
import os
import struct
import zlib

from hypothesis import strategies as st

from vlib.core import Sub, REPO_DIR
from vlib import gens

ASSUMPTIONS = [
    'text form: event times are multiples of 1e-6 s and distancetotarget a non-negative multiple of 0.01 (the writer '
    'uses %.6f / %.2f and omits the key unless > 0); all other floats are written with repr() and are any finite '
    'double of magnitude < 1e15 (no exponent with a "+" sign); fps within FPS_MIN..FPS_MAX (the reader clamps); '
    'text_crc and time_zoom_lookup are not stored in text (expected 0 / {})',
    'text form: an event ramp is written only when it has samples (as Valve\'s writer does), so active ramp edges are '
    'generated on events only together with >= 1 sample; default_curve_type is only stored in the flexanimations header, '
    'so it is non-default only on events that have flex tracks',
    'an event\'s relative tag is the pair (tag_name, tag_wav_name): both set or both None (both forms store the pair as one unit); '
    'scalesettings keys are distinct (a dict); strings may contain quotes, backslashes, braces, newlines and tabs - the '
    'writer escapes them with escape_text() and the reader un-escapes',
    'SpeakEvent.use_combined_file is only stored when caption_type is not Disabled (both writers mask it); the '
    'expected value is masked the same way',
    'binary form: times, distancetotarget, flex min/max, sequenceduration are float32; ramp/flex sample values and tag '
    'values are k/255, absolute tag values k/4096 (k <= 65535); loop_count is a signed byte; flags use the six defined '
    'EventFlags bits; at most 255 items per 1-byte counted list; fields only the text form stores (curve edges, ramp '
    'sample curve types, timing-tag lock, default_curve_type, pitch, yaw, faceposermodel, map_name, fps, snap, '
    'scalesettings) are expected back as their defaults',
    'text->binary->text agreement is checked on the intersection domain: times k/64 s, distances k/4, values k/255',
    'scenes.image: file names are ASCII and distinct after normalisation (lower case, "\\\\" separators, "scenes\\\\" '
    'prefix) since the CRC of that name is the key; strings are latin-1 without NUL (the pool is NUL-terminated '
    'latin-1); event times are >= 0 (duration is stored as an unsigned millisecond count); entries are built with '
    'Entry.from_scene; a version 2 file has no last_speak field, the reader reports duration for it; merging is exercised with unparsed '
    'entries of one image plus new scenes, and with unparsed entries of two images (two pools)',
    'Tokenizer with its default options (as srctools.scripts.build_scenes_image constructs it)',
]

TEXT_ALPHA = 'abXY01 _.-!/\\"\'{}[]()#$%*:;=+,\n\té¿λ☃'
POOL_ALPHA = 'abXY01 _.-!/\\"\'{}[]()#$%*:;=+,\n\té¿'
BASE_TYPES = [0, 1, 2, 3, 4, 7, 8, 9, 10, 11, 13, 14, 15, 16, 17, 18]
TYPE_NAMES = {
    0: 'Unspecified', 1: 'Section', 2: 'Expression', 3: 'LookAt', 4: 'MoveTo', 5: 'Speak', 6: 'Gesture', 7: 'Sequence',
    8: 'Face', 9: 'FireTrigger', 10: 'FlexAnimation', 11: 'SubScene', 12: 'Loop', 13: 'Interrupt', 14: 'StopPoint',
    15: 'PermitResponses', 16: 'Generic', 17: 'Camera', 18: 'Script',
}
SAMPLE_DIR = os.path.join(REPO_DIR, 'tests', 'test_choreo')


# ------------------------------------------------------------------------------------------------ strategies

# A small shared vocabulary so that strings of different events / scenes collide in a string pool: case variants of one
# word, prefixes / suffixes of each other, the empty string, latin-1 letters with case (and 'ß', whose casefold is 'ss').
SHARED_WORDS = ['Alyx', 'alyx', 'ALYX', 'aLyx', 'audio', 'Audio', 'AUDIO', 'aud', 'audio2', 'dio', '', 'a', 'A',
                '\xe9t\xe9', '\xc9t\xe9', '\xc9T\xc9', 'stra\xdfe', 'strasse', 'STRASSE', 'Alyx ', ' alyx']


def s_str(mode):
    free = st.text(POOL_ALPHA if mode in ('q', 'img') else TEXT_ALPHA, max_size=5)
    if mode in ('img', 'bin', 'q'):
        return st.one_of(st.sampled_from(SHARED_WORDS), free)
    return st.one_of(free, free, st.sampled_from(SHARED_WORDS))


def s_time(mode):
    if mode == 'text':
        return st.integers(-2_000_000, 90_000_000).map(lambda n: n / 1e6)
    if mode == 'bin':
        return gens.f32(-100.0, 4000.0)
    if mode == 'img':
        return st.one_of(st.integers(0, 64 * 600).map(lambda k: k / 64.0), gens.f32(0.0, 4000.0))
    return st.integers(-256, 64 * 600).map(lambda k: k / 64.0)


def s_free(mode):
    """Sample times, flex ranges, zero positions, sequence durations."""
    if mode == 'text':
        return st.one_of(gens.finite(-1000.0, 1000.0), st.integers(-64, 640).map(lambda k: k / 64.0))
    if mode in ('bin', 'img'):
        return gens.f32(-1000.0, 1000.0)
    return st.integers(-640, 6400).map(lambda k: k / 64.0)


def s_unit(mode):
    if mode == 'text':
        return st.floats(0.0, 1.0)
    return st.integers(0, 255).map(lambda k: k / 255.0)


def s_sample_value(mode):
    if mode == 'text':
        return st.one_of(st.floats(0.0, 1.0), gens.finite(-4.0, 4.0))
    return st.integers(0, 255).map(lambda k: k / 255.0)


def s_abs(mode):
    if mode == 'text':
        return st.floats(0.0, 16.0, exclude_max=True)
    return st.integers(0, 65535).map(lambda k: k / 4096.0)


def s_dist(mode):
    if mode == 'text':
        return st.one_of(st.just(0.0), st.integers(0, 500000).map(lambda n: n / 100.0))
    if mode in ('bin', 'img'):
        return st.one_of(st.just(0.0), gens.f32(-100.0, 5000.0))
    return st.one_of(st.just(0.0), st.integers(0, 4000).map(lambda k: k / 4.0))


def s_curve_type():
    return st.one_of(st.just([0, 0]), st.tuples(st.integers(0, 15), st.integers(0, 15)).map(list))


def s_edge(mode):
    return st.one_of(st.none(), st.none(), st.tuples(s_free(mode), s_curve_type()).map(list))


def s_samples(mode, max_size=4):
    return st.lists(st.tuples(s_free(mode), s_sample_value(mode), s_curve_type()).map(list), max_size=max_size)


def s_curve(mode, on_event):
    """{'samples': [[t, v, [a, b]]], 'left': None|[zero, [a, b]], 'right': ...}"""
    def fix(c):
        if on_event and not c['samples']:
            c = dict(c, left=None, right=None)   # see ASSUMPTIONS: event ramps are stored only with samples
        return c
    return st.one_of(
        st.just({'samples': [], 'left': None, 'right': None}),
        st.fixed_dictionaries({'samples': s_samples(mode), 'left': s_edge(mode), 'right': s_edge(mode)}).map(fix),
    )


def s_track(mode):
    return st.fixed_dictionaries({
        'name': s_str(mode), 'active': st.booleans(),
        'range': st.one_of(st.just([0.0, 1.0]), st.tuples(s_free(mode), s_free(mode)).map(list)),
        'mag': s_samples(mode, 3),
        'dir': st.one_of(st.none(), s_samples(mode, 3)),
        'left': s_edge(mode), 'right': s_edge(mode),
    })


def s_tags(value, max_size=3, extra=None):
    name = st.one_of(st.text('abT_ 1"', max_size=4), st.sampled_from(SHARED_WORDS))
    item = st.tuples(name, value) if extra is None else st.tuples(name, value, extra)
    return st.one_of(st.just([]), st.lists(item.map(list), max_size=max_size))


def s_event(mode, flex_weight):
    if mode == 'text':
        loop = st.integers(-1000, 1000)
    else:
        loop = st.integers(-128, 127)
    flex = st.lists(s_track(mode), min_size=1, max_size=2)
    flex_s = st.one_of(*([st.just([])] * flex_weight[0] + [flex] * flex_weight[1]))

    def fix(e):
        if not e['flex']:
            e = dict(e, default_curve=[0, 0])
        return e
    return st.fixed_dictionaries({
        'kind': st.sampled_from(['base', 'base', 'speak', 'gesture', 'loop']),
        'type': st.sampled_from(BASE_TYPES),
        'name': s_str(mode),
        'flags': st.one_of(st.sampled_from([8, 0, 12]), st.integers(0, 63)),
        'params': st.tuples(s_str(mode), st.one_of(st.just(''), s_str(mode)), st.one_of(st.just(''), s_str(mode))).map(list),
        'start': s_time(mode),
        'end': st.one_of(st.just(-1.0), s_time(mode)),
        'ramp': s_curve(mode, True),
        'tag': st.one_of(st.none(), st.none(), st.tuples(s_str(mode), s_str(mode)).map(list)),
        'dist': s_dist(mode),
        'rel_tags': s_tags(s_unit(mode)),
        'timing_tags': s_tags(s_unit(mode), extra=st.booleans()),
        'abs_play': s_tags(s_abs(mode), 2),
        'abs_shift': s_tags(s_abs(mode), 2),
        'flex': flex_s,
        'default_curve': s_curve_type(),
        'pitch': st.one_of(st.just(0), st.integers(-100, 100)),
        'yaw': st.one_of(st.just(0), st.integers(-100, 100)),
        # subclass fields (used according to 'kind')
        'seq_dur': st.one_of(st.just(0.0), s_free(mode)),
        'loop_count': loop,
        'cc_type': st.integers(0, 2),
        'cc_token': s_str(mode),
        'no_atten': st.booleans(), 'combined': st.booleans(), 'gender': st.booleans(),
    }).map(fix)


def s_scene(mode, flex_weight=(1, 1), flex_scenes=(0, 1)):
    """`flex_scenes` = (weight of scenes whose flex tracks are removed, weight of scenes that keep them)."""
    ev = s_event(mode, flex_weight)
    channel = st.fixed_dictionaries({'name': s_str(mode), 'active': st.booleans(), 'events': st.lists(ev, max_size=3)})
    actor = st.fixed_dictionaries({
        'name': s_str(mode), 'active': st.booleans(), 'model': st.one_of(st.just(''), s_str(mode)),
        'channels': st.lists(channel, max_size=2),
    })

    def strip(d):
        d = dict(d)
        if not d.pop('_flex'):
            for e in all_events(d):
                e['flex'] = []
                e['default_curve'] = [0, 0]
        return d
    extra = {}
    # about 1 scene in 12: one string field replaced by a string of a boundary length, built by repeating a short unit
    unit = st.text(POOL_ALPHA if mode in ('q', 'img') else TEXT_ALPHA, min_size=1, max_size=3)
    long = st.fixed_dictionaries({'unit': unit, 'len': st.sampled_from(LONG_LENGTHS), 'slot': st.integers(0, 40),
                                  'all': st.just(mode == 'text')})
    extra['long'] = st.tuples(st.integers(0, 11), long).map(lambda t: t[1] if t[0] == 11 else None)
    if mode in ('bin', 'img'):
        # about 1 scene in 40 gets one counted list blown up to a width boundary of its count field (see COUNT_FIELDS)
        fields = sorted(COUNT_FIELDS) if mode == 'bin' else sorted(f for f, w in COUNT_FIELDS.items() if w == 'B')
        which = ['smax', 'smax+1', 'umax', 'over'] if mode == 'bin' else ['smax', 'smax+1', 'umax']
        boost = st.fixed_dictionaries({'field': st.sampled_from(fields), 'count': st.sampled_from(which)})
        extra['boost'] = st.tuples(st.integers(0, 39), boost).map(lambda t: t[1] if t[0] == 39 else None)
    return st.fixed_dictionaries({
        **extra,
        '_flex': st.sampled_from([False] * flex_scenes[0] + [True] * flex_scenes[1]),
        'events': st.lists(ev, max_size=2),
        'actors': st.lists(actor, max_size=2),
        'ramp': s_curve(mode, False),
        'ignore_phonemes': st.booleans(),
        'text_crc': st.one_of(st.just(0), st.integers(0, 0xFFFFFFFF)),
        'map_name': st.one_of(st.just(''), s_str(mode)),
        'fps': st.one_of(st.just(60), st.integers(10, 240)),
        'snap': st.booleans(),
        'scale': st.one_of(st.just([]), st.lists(st.tuples(s_str(mode), s_str(mode)).map(list), max_size=3,
                                                  unique_by=lambda kv: kv[0])),
    }).map(strip)


# ------------------------------------------------------------------------------------------------ count-width boundaries

# Every list the BVCD writer stores behind a fixed-width count (from export_binary): struct code of the count field.
#   Scene '<4sbIB' events, 'B' actors; Actor '<hB' channels; Channel '<hB' events; Curve 'B' ramp samples;
#   Tag.export_binary 'B' (relative / timing / absolute playback / absolute shifted); Event '<B' flex tracks;
#   FlexAnimTrack '<hBffh' magnitude samples (signed 16), '<H' direction samples (unsigned 16).
# (scenes.image itself packs its counts - scenes, strings, sounds - as 32-bit 'i'; no 8/16-bit count there.)
COUNT_FIELDS = {
    'scene_events': 'B', 'actors': 'B', 'channels': 'B', 'channel_events': 'B', 'scene_ramp': 'B', 'event_ramp': 'B',
    'rel_tags': 'B', 'timing_tags': 'B', 'abs_play': 'B', 'abs_shift': 'B', 'flex_tracks': 'B', 'mag': 'h', 'dir': 'H',
}
WIDTH_LIMIT = {'B': 255, 'h': 32767, 'H': 65535}      # largest count the field can hold
WIDTH_SMAX = {'B': 127, 'h': 32767, 'H': 32767}       # largest count a *signed* field of that size could hold
WIDTH_UMAX = {'B': 255, 'h': 65535, 'H': 65535}


def boost_count(boost):
    width = COUNT_FIELDS[boost['field']]
    return {'smax': WIDTH_SMAX[width], 'smax+1': WIDTH_SMAX[width] + 1, 'umax': WIDTH_UMAX[width],
            'over': WIDTH_UMAX[width] + 1}[boost['count']]


# String-length boundaries: block sizes a reader might use (128, 256, 1024, 4096) +-1, and one beyond 16 bits.
LONG_LENGTHS = [127, 128, 129, 255, 256, 257, 1023, 1024, 1025, 4095, 4096, 4097, 65537, 70001]


def strlen_class(n):
    for lo, hi in ((127, 129), (255, 257), (1023, 1025), (4095, 4097)):
        if lo <= n <= hi:
            return f'strlen:{lo}-{hi}'
    return 'strlen:>65536' if n > 65536 else 'strlen:other'


def label_long(d, ctx):
    if d.get('long'):
        ctx.label(strlen_class(d['long']['len']), 'strlen:boundary')


def string_slots(d, every):
    """(container, key) of each string field of a scene descriptor; pooled (binary-stored) ones, or every one."""
    slots = []
    for a in d['actors']:
        slots.append((a, 'name'))
        if every:
            slots.append((a, 'model'))
        for c in a['channels']:
            slots.append((c, 'name'))
    for e in all_events(d):
        slots.append((e, 'name'))
        slots.extend((e['params'], i) for i in range(3))
        if e['tag']:
            slots.extend((e['tag'], i) for i in range(2))
        for key in ('rel_tags', 'timing_tags', 'abs_play', 'abs_shift'):
            slots.extend((t, 0) for t in e[key])
        slots.extend((t, 'name') for t in e['flex'])
        if e['kind'] == 'speak':
            slots.append((e, 'cc_token'))
    if every:
        slots.append((d, 'map_name'))
        slots.extend((kv, 1) for kv in d['scale'])
    return slots


def expand(d):
    """Scene descriptor with its 'long' (one string of a boundary length) and 'boost' (see expand_boost) applied."""
    long = d.get('long')
    d = expand_boost({k: v for k, v in d.items() if k != 'long'})
    if not long:
        return d
    d = json.loads(json.dumps(d))
    slots = string_slots(d, long['all'])
    if not slots:
        d['events'].append(blank_event('speak'))
        slots = string_slots(d, long['all'])
    box, key = slots[long['slot'] % len(slots)]
    unit = long['unit']
    box[key] = (unit * (long['len'] // len(unit) + 1))[:long['len']]
    return d


def expand_boost(d):
    """Scene descriptor with its 'boost' applied: one counted list repeated (cheap items) to exactly the boundary count."""
    boost = d.get('boost')
    d = {k: v for k, v in d.items() if k != 'boost'}
    if not boost:
        return d
    d = json.loads(json.dumps(d))
    n = boost_count(boost)
    field = boost['field']

    def fill(lst, blank):
        item = lst[0] if lst else blank
        return [item] * n

    def first_event():
        if not d['events']:
            d['events'].append(blank_event())
        return d['events'][0]

    def first_actor():
        if not d['actors']:
            d['actors'].append({'name': 'act', 'active': True, 'model': '', 'channels': []})
        return d['actors'][0]

    def first_track():
        ev = first_event()
        if not ev['flex']:
            ev['flex'].append({'name': 'trk', 'active': True, 'range': [0.0, 1.0], 'mag': [], 'dir': None,
                               'left': None, 'right': None})
        return ev['flex'][0]

    sample = [0.5, 128 / 255.0, [3, 4]]
    if field == 'scene_events':
        d['events'] = fill(d['events'], blank_event())
    elif field == 'actors':
        d['actors'] = fill([], {'name': 'act', 'active': True, 'model': '', 'channels': []})
    elif field == 'channels':
        first_actor()['channels'] = fill([], {'name': 'chan', 'active': False, 'events': []})
    elif field == 'channel_events':
        act = first_actor()
        if not act['channels']:
            act['channels'].append({'name': 'chan', 'active': True, 'events': []})
        act['channels'][0]['events'] = fill([], blank_event('loop'))
    elif field == 'scene_ramp':
        d['ramp'] = dict(d['ramp'], samples=fill(d['ramp']['samples'], sample))
    elif field == 'event_ramp':
        ev = first_event()
        ev['ramp'] = dict(ev['ramp'], samples=fill(ev['ramp']['samples'], sample))
    elif field == 'rel_tags':
        ev = first_event()
        ev[field] = fill(ev[field], ['tg', 51 / 255.0])
    elif field in ('abs_play', 'abs_shift'):
        ev = first_event()
        ev[field] = fill(ev[field], ['tg', 2.5])
    elif field == 'timing_tags':
        ev = first_event()
        ev[field] = fill(ev[field], ['tg', 102 / 255.0, False])
    elif field == 'flex_tracks':
        first_track()
        first_event()['flex'] = fill(first_event()['flex'], None)
    elif field == 'mag':
        trk = first_track()
        trk['mag'] = fill(trk['mag'], sample)
    elif field == 'dir':
        trk = first_track()
        trk['dir'] = fill(trk['dir'] or [], sample)
    else:
        raise AssertionError(field)
    return d


# ------------------------------------------------------------------------------------------------ build objects

class BuildRejected(Exception):
    """A public constructor refused a value that the format can represent."""
    def __init__(self, clause, msg):
        super().__init__(msg)
        self.clause = clause


def b_curve_type(pair):
    from srctools.choreo import CurveType, Interpolation
    return CurveType(Interpolation(pair[0]), Interpolation(pair[1]))


def b_edge(e):
    from srctools.choreo import CurveEdge
    if e is None:
        return CurveEdge(False)
    return CurveEdge(True, e[0], b_curve_type(e[1]))


def b_samples(samples):
    from srctools.choreo import ExpressionSample
    return [ExpressionSample(t, v, b_curve_type(c)) for t, v, c in samples]


def b_curve(c):
    from srctools.choreo import Curve
    return Curve(b_samples(c['samples']), b_edge(c['left']), b_edge(c['right']))


def b_event(e):
    from srctools import choreo
    abs_tags = {}
    for key in ('abs_play', 'abs_shift'):
        lst = []
        for name, value in e[key]:
            try:
                lst.append(choreo.AbsoluteTag(name, value))
            except ValueError as exc:
                raise BuildRejected(
                    'abstag_range',
                    f'AbsoluteTag({name!r}, {value!r}) rejected ({exc}); the class documents range [0, 16) and the '
                    f'binary form stores value*4096 in 16 bits',
                ) from None
        abs_tags[key] = lst
    common = dict(
        name=e['name'], flags=choreo.EventFlags(e['flags']), parameters=tuple(e['params']),
        start_time=e['start'], end_time=e['end'], ramp=b_curve(e['ramp']),
        tag_name=e['tag'][0] if e['tag'] else None, tag_wav_name=e['tag'][1] if e['tag'] else None,
        dist_to_targ=e['dist'],
        relative_tags=[choreo.Tag(n, v) for n, v in e['rel_tags']],
        timing_tags=[choreo.TimingTag(n, v, lk) for n, v, lk in e['timing_tags']],
        absolute_playback_tags=abs_tags['abs_play'], absolute_shifted_tags=abs_tags['abs_shift'],
        flex_anim_tracks=[
            choreo.FlexAnimTrack(
                name=t['name'], active=t['active'], min=t['range'][0], max=t['range'][1], mag_track=b_samples(t['mag']),
                dir_track=None if t['dir'] is None else b_samples(t['dir']), left=b_edge(t['left']), right=b_edge(t['right']),
            ) for t in e['flex']
        ],
        default_curve_type=b_curve_type(e['default_curve']), pitch=e['pitch'], yaw=e['yaw'],
    )
    kind = e['kind']
    if kind == 'speak':
        cc = choreo.CaptionType(e['cc_type'])
        return choreo.SpeakEvent(
            caption_type=cc, cc_token=e['cc_token'], suppress_caption_attenuation=e['no_atten'],
            use_combined_file=e['combined'] and e['cc_type'] != 2, use_gender_token=e['gender'], **common)
    if kind == 'gesture':
        return choreo.GestureEvent(gesture_sequence_duration=e['seq_dur'], **common)
    if kind == 'loop':
        return choreo.LoopEvent(loop_count=e['loop_count'], **common)
    return choreo.Event(type=choreo.EventType(e['type']), **common)


def b_scene(d):
    from srctools import choreo
    return choreo.Scene(
        events=[b_event(e) for e in d['events']],
        actors=[
            choreo.Actor(a['name'], a['active'], [
                choreo.Channel(c['name'], c['active'], [b_event(e) for e in c['events']]) for c in a['channels']
            ], a['model']) for a in d['actors']
        ],
        ramp=b_curve(d['ramp']), ignore_phonemes=d['ignore_phonemes'], text_crc=d['text_crc'],
        map_name=d['map_name'], fps=d['fps'], use_frame_snap=d['snap'], scale_settings={k: v for k, v in d['scale']},
    )


# ------------------------------------------------------------------------------------------------ expected shapes

NO_EDGE = [False, 0.0, [0, 0]]


def x_edge(e):
    return NO_EDGE if e is None else [True, e[0], list(e[1])]


def x_samples(samples):
    return [[t, v, list(c)] for t, v, c in samples]


def x_curve(c):
    return {'samples': x_samples(c['samples']), 'left': x_edge(c['left']), 'right': x_edge(c['right'])}


def x_event(e):
    kind = e['kind']
    cls = {'base': 'Event', 'speak': 'SpeakEvent', 'gesture': 'GestureEvent', 'loop': 'LoopEvent'}[kind]
    typ = {'base': e['type'], 'speak': 5, 'gesture': 6, 'loop': 12}[kind]
    res = {
        'class': cls, 'type': typ, 'name': e['name'], 'flags': e['flags'], 'params': list(e['params']),
        'start': e['start'], 'end': e['end'], 'ramp': x_curve(e['ramp']),
        'tag': list(e['tag']) if e['tag'] else None, 'dist': e['dist'],
        'rel_tags': [['Tag', n, v] for n, v in e['rel_tags']],
        'timing_tags': [['TimingTag', n, v, lk] for n, v, lk in e['timing_tags']],
        'abs_play': [['AbsoluteTag', n, v] for n, v in e['abs_play']],
        'abs_shift': [['AbsoluteTag', n, v] for n, v in e['abs_shift']],
        'flex': [{
            'name': t['name'], 'active': t['active'], 'min': t['range'][0], 'max': t['range'][1],
            'mag': x_samples(t['mag']), 'dir': None if t['dir'] is None else x_samples(t['dir']),
            'left': x_edge(t['left']), 'right': x_edge(t['right']),
        } for t in e['flex']],
        'default_curve': list(e['default_curve']), 'pitch': e['pitch'], 'yaw': e['yaw'],
    }
    if kind == 'speak':
        res.update(cc_type=e['cc_type'], cc_token=e['cc_token'], no_atten=e['no_atten'],
                   combined=e['combined'] and e['cc_type'] != 2, gender=e['gender'])
    elif kind == 'gesture':
        res.update(seq_dur=e['seq_dur'])
    elif kind == 'loop':
        res.update(loop_count=e['loop_count'])
    return res


def x_scene(d):
    """The full value (what the text form must give back, apart from text_crc)."""
    return {
        'events': [x_event(e) for e in d['events']],
        'actors': [{
            'name': a['name'], 'active': a['active'], 'model': a['model'],
            'channels': [{'name': c['name'], 'active': c['active'], 'events': [x_event(e) for e in c['events']]}
                         for c in a['channels']],
        } for a in d['actors']],
        'ramp': x_curve(d['ramp']), 'ignore_phonemes': d['ignore_phonemes'], 'text_crc': d['text_crc'],
        'map_name': d['map_name'], 'fps': d['fps'], 'snap': d['snap'], 'scale': [list(kv) for kv in d['scale']],
        'time_zoom': [],
    }


def to_text_form(shape):
    return dict(shape, text_crc=0)


def f32(x):
    return struct.unpack('<f', struct.pack('<f', x))[0]


def q_byte(v, factor=255.0, top=255):
    return min(top, max(0, round(v * factor))) / factor


def to_binary_form(shape):
    """What the BVCD layout can hold of a full value (independent statement of the binary field widths)."""
    def samples(lst, keep_curve):
        return [[f32(t), q_byte(v), list(c) if keep_curve else [0, 0]] for t, v, c in lst]

    def curve(c):
        return {'samples': samples(c['samples'], False), 'left': NO_EDGE, 'right': NO_EDGE}

    def event(e):
        r = dict(e)
        r['start'], r['end'], r['dist'] = f32(e['start']), f32(e['end']), f32(e['dist'])
        r['ramp'] = curve(e['ramp'])
        r['rel_tags'] = [[c, n, q_byte(v)] for c, n, v in e['rel_tags']]
        r['timing_tags'] = [[c, n, q_byte(v), False] for c, n, v, _lk in e['timing_tags']]
        r['abs_play'] = [[c, n, q_byte(v, 4096.0, 65535)] for c, n, v in e['abs_play']]
        r['abs_shift'] = [[c, n, q_byte(v, 4096.0, 65535)] for c, n, v in e['abs_shift']]
        r['flex'] = [{
            'name': t['name'], 'active': t['active'], 'min': f32(t['min']), 'max': f32(t['max']),
            'mag': samples(t['mag'], True), 'dir': None if t['dir'] is None else samples(t['dir'], True),
            'left': NO_EDGE, 'right': NO_EDGE,
        } for t in e['flex']]
        r['default_curve'], r['pitch'], r['yaw'] = [0, 0], 0, 0
        if e['tag'] is not None:
            r['tag'] = list(e['tag'])
        if 'seq_dur' in e:
            r['seq_dur'] = f32(e['seq_dur'])
        return r

    return {
        'events': [event(e) for e in shape['events']],
        'actors': [{
            'name': a['name'], 'active': a['active'], 'model': '',
            'channels': [{'name': c['name'], 'active': c['active'], 'events': [event(e) for e in c['events']]}
                         for c in a['channels']],
        } for a in shape['actors']],
        'ramp': curve(shape['ramp']), 'ignore_phonemes': shape['ignore_phonemes'], 'text_crc': shape['text_crc'],
        'map_name': '', 'fps': 60, 'snap': False, 'scale': [], 'time_zoom': [],
    }


# ------------------------------------------------------------------------------------------------ walker (objects -> shape)

def w_ct(ct):
    return [ct.first.value, ct.second.value]


def w_edge(e):
    return [bool(e.active), e.zero_pos, w_ct(e.curve_type)]


def w_samples(lst):
    return [[s.time, s.value, w_ct(s.curve_type)] for s in lst]


def w_curve(c):
    return {'samples': w_samples(c.ramp), 'left': w_edge(c.left), 'right': w_edge(c.right)}


def w_tags(lst):
    out = []
    for t in lst:
        item = [type(t).__name__, t.name, t.value]
        if type(t).__name__ == 'TimingTag':
            item.append(t.locked)
        out.append(item)
    return out


def w_event(e):
    cls = type(e).__name__
    res = {
        'class': cls, 'type': e.type.value, 'name': e.name, 'flags': e.flags.value, 'params': list(e.parameters),
        'start': e.start_time, 'end': e.end_time, 'ramp': w_curve(e.ramp),
        'tag': None if e.tag_name is None and e.tag_wav_name is None else [e.tag_name, e.tag_wav_name],
        'dist': e.dist_to_targ,
        'rel_tags': w_tags(e.relative_tags), 'timing_tags': w_tags(e.timing_tags),
        'abs_play': w_tags(e.absolute_playback_tags), 'abs_shift': w_tags(e.absolute_shifted_tags),
        'flex': [{
            'name': t.name, 'active': t.active, 'min': t.min, 'max': t.max, 'mag': w_samples(t.mag_track),
            'dir': None if t.dir_track is None else w_samples(t.dir_track),
            'left': w_edge(t.left), 'right': w_edge(t.right),
        } for t in e.flex_anim_tracks],
        'default_curve': w_ct(e.default_curve_type), 'pitch': e.pitch, 'yaw': e.yaw,
    }
    if cls == 'SpeakEvent':
        res.update(cc_type=e.caption_type.value, cc_token=e.cc_token, no_atten=e.suppress_caption_attenuation,
                   combined=e.use_combined_file, gender=e.use_gender_token)
    elif cls == 'GestureEvent':
        res.update(seq_dur=e.gesture_sequence_duration)
    elif cls == 'LoopEvent':
        res.update(loop_count=e.loop_count)
    return res


def w_scene(s):
    return {
        'events': [w_event(e) for e in s.events],
        'actors': [{
            'name': a.name, 'active': a.active, 'model': a.faceposer_model,
            'channels': [{'name': c.name, 'active': c.active, 'events': [w_event(e) for e in c.events]} for c in a.channels],
        } for a in s.actors],
        'ramp': w_curve(s.ramp), 'ignore_phonemes': s.ignore_phonemes, 'text_crc': s.text_crc,
        'map_name': s.map_name, 'fps': s.fps, 'snap': s.use_frame_snap,
        'scale': [[k, v] for k, v in s.scale_settings.items()],
        'time_zoom': [[k, v] for k, v in s.time_zoom_lookup.items()],
    }


def first_diff(want, got, path='scene'):
    """Path and values of the first difference between two shapes (None if equal; bool != int)."""
    if path == 'scene':
        try:   # fast path (matters for the 65535-sample boundary cases): identical JSON text means identical shapes
            if json.dumps(want) == json.dumps(got):
                return None
        except (TypeError, ValueError):
            pass
    if isinstance(want, dict) and isinstance(got, dict):
        for k in want:
            if k not in got:
                return f'{path}.{k}: missing in result'
            d = first_diff(want[k], got[k], f'{path}.{k}')
            if d:
                return d
        for k in got:
            if k not in want:
                return f'{path}.{k}: unexpected in result'
        return None
    if isinstance(want, list) and isinstance(got, list):
        if len(want) != len(got):
            return f'{path}: length want {len(want)} got {len(got)} (want={want!r} got={got!r})'[:600]
        for i, (a, b) in enumerate(zip(want, got)):
            d = first_diff(a, b, f'{path}[{i}]')
            if d:
                return d
        return None
    if isinstance(want, bool) != isinstance(got, bool) or type(want) is not type(got) and not (
            isinstance(want, (int, float)) and isinstance(got, (int, float)) and not isinstance(want, bool)):
        return f'{path}: want {want!r} ({type(want).__name__}) got {got!r} ({type(got).__name__})'
    if want != got:
        return f'{path}: want {want!r} got {got!r}'
    return None


# ------------------------------------------------------------------------------------------------ classification

def all_events(d):
    for e in d['events']:
        yield e
    for a in d['actors']:
        for c in a['channels']:
            for e in c['events']:
                yield e


def pooled_strings(d):
    """Every string of a scene descriptor that the binary form stores through the string pool."""
    out = set()
    for a in d['actors']:
        out.add(a['name'])
        for c in a['channels']:
            out.add(c['name'])
    for e in all_events(d):
        out.add(e['name'])
        out.update(e['params'])
        if e['tag']:
            out.update(e['tag'])
        for key in ('rel_tags', 'timing_tags', 'abs_play', 'abs_shift'):
            out.update(t[0] for t in e[key])
        out.update(t['name'] for t in e['flex'])
        if e['kind'] == 'speak':
            out.add(e['cc_token'])
    return out


def case_variants(a, b):
    """Some string of `a` and some string of `b` are different spellings of the same folded text."""
    folded = {}
    for x in a:
        folded.setdefault(x.casefold(), set()).add(x)
    return any(y.casefold() in folded and folded[y.casefold()] - {y} for y in b)


def has_flex(d):
    return 'file' not in d and any(e['flex'] for e in all_events(d))


def classify(d, ctx, prefix=''):
    labs = set()
    if d['ramp']['samples']:
        labs.add('scene_ramp')
    if d['ramp']['left'] or d['ramp']['right']:
        labs.add('edge')
    if d['scale']:
        labs.add('scalesettings')
    if d['actors']:
        labs.add('actor')
    n = 0
    for e in all_events(d):
        n += 1
        labs.add('ev:' + e['kind'])
        if e['kind'] == 'base':
            labs.add('type:' + TYPE_NAMES[e['type']])
        if e['rel_tags']:
            labs.add('tags:rel')
        if e['timing_tags']:
            labs.add('tags:timing')
        if e['abs_play'] or e['abs_shift']:
            labs.add('tags:abs')
            if any(v > 1.0 for _n, v in e['abs_play'] + e['abs_shift']):
                labs.add('tags:abs>1')
        if e['flex']:
            labs.add('flex')
            if any(t['dir'] is not None for t in e['flex']):
                labs.add('flex:dir')
            if any(c != [0, 0] for t in e['flex'] for s in t['mag'] + (t['dir'] or []) for c in [s[2]]):
                labs.add('curve:nondefault')
        if e['ramp']['samples']:
            labs.add('ramp')
            if any(s[2] != [0, 0] for s in e['ramp']['samples']):
                labs.add('curve:nondefault')
        if e['ramp']['left'] or e['ramp']['right']:
            labs.add('edge')
        if e['flags'] not in (0, 8):
            labs.add('flags:other')
        if e['tag']:
            labs.add('reltag')
        if e['end'] != -1.0:
            labs.add('end_time')
    for lab in sorted(labs):
        ctx.label(prefix + lab)
    ctx.label(prefix + ('events:0' if n == 0 else 'events:1-3' if n <= 3 else 'events:4+'))
    ctx.nontrivial(n > 0 and bool(labs - {'actor', 'ev:base'} - {x for x in labs if x.startswith('type:')}))


# ------------------------------------------------------------------------------------------------ helpers

def braces_balanced(text):
    """Quote-aware scan (own scanner, not the tokenizer): braces outside quoted strings must nest and close."""
    depth = 0
    in_str = False
    i = 0
    while i < len(text):
        c = text[i]
        if in_str:
            if c == '\\':
                i += 1
            elif c == '"':
                in_str = False
        elif c == '"':
            in_str = True
        elif c == '/' and text[i:i + 2] == '//':
            j = text.find('\n', i)
            i = len(text) if j < 0 else j
        elif c == '{':
            depth += 1
        elif c == '}':
            depth -= 1
            if depth < 0:
                return False
        i += 1
    return depth == 0 and not in_str


def export_text(scene):
    buf = io.StringIO()
    scene.export_text(buf)
    return buf.getvalue()


def parse_text(text):
    from srctools.choreo import Scene
    from srctools.tokenizer import Tokenizer
    return Scene.parse_text(Tokenizer(text, 'scene.vcd'))


def make_pool():
    """The string pool callback as the test-suite and save_scenes_image_sync build it."""
    pool = []
    index = {}

    def add(value):
        assert isinstance(value, str), value
        try:
            return index[value]
        except KeyError:
            index[value] = len(pool)
            pool.append(value)
            return index[value]
    return pool, add


def export_binary(scene):
    pool, add = make_pool()
    data = scene.export_binary(add)
    return data, pool


def parse_binary(data, pool):
    from srctools.choreo import Scene
    f = io.BytesIO(data)
    scene = Scene.parse_binary(f, pool)
    return scene, len(data) - f.tell()


def build_or_fail(d, ctx):
    try:
        return b_scene(d)
    except BuildRejected as exc:
        ctx.fail(exc.clause, str(exc))
        return None


# ------------------------------------------------------------------------------------------------ text

def text_cycle(ctx, scene, want, label):
    """export_text -> parse_text equal to `want`, second export identical.  Returns (text, parsed) or None."""
    text = export_text(scene)
    if not ctx.check(braces_balanced(text), 'text_balanced',
                     f'{label}: export_text() wrote unbalanced braces/quotes:\n{text}', flex=True):
        return None
    parsed = parse_text(text)
    diff = first_diff(want, w_scene(parsed))
    if not ctx.check(diff is None, 'text_equal', f'{label}: parse_text(export_text(s)) differs: {diff}\ntext:\n{text}',
                     diff=str(diff)):
        return None
    text2 = export_text(parsed)
    ctx.check(text2 == text, 'text_fixed_point',
              f'{label}: second export_text differs\nfirst:\n{text}\nsecond:\n{text2}')
    return text, parsed


def exec_text(desc, ctx):
    if 'file' in desc:
        return exec_text_file(desc, ctx)
    label_long(desc, ctx)
    desc = expand(desc)
    classify(desc, ctx)
    scene = build_or_fail(desc, ctx)
    if scene is None:
        return
    want = to_text_form(x_scene(desc))
    # the walker and the expectation agree on the freshly built value (checks build/walker, not srctools I/O)
    diff = first_diff(x_scene(desc), w_scene(scene))
    ctx.check(diff is None, 'constructed_value', f'constructed scene differs from its descriptor: {diff}')
    text_cycle(ctx, scene, want, 'generated')


def exec_text_file(desc, ctx):
    path = os.path.join(SAMPLE_DIR, desc['file'])
    with open(path, encoding='utf8') as f:
        src = f.read()
    ctx.label('file:' + desc['file'])
    ctx.nontrivial(True)
    s0 = parse_text(src)
    want = w_scene(s0)
    ctx.check(len(want['events']) + len(want['actors']) > 0, 'sample_nonempty', 'sample parsed to an empty scene')
    text_cycle(ctx, s0, want, desc['file'])
    if desc['file'] == 'test_save_text.vcd':
        # this file is export_text() output (the repository's own snapshot): writing its parse gives it back
        ctx.check(export_text(s0) == src, 'text_fixed_point', 'test_save_text.vcd: export_text(parse_text(file)) != file')
    # the walked sample, rebuilt from plain values through the constructors, writes the same text
    text0 = export_text(s0)
    for needle in ('loopcount "8"', 'distancetotarget 59.00', 'cc_noattenuate', '"a_tag" 0.138743', 'pitch "61"',
                   'resumecondition', 'forceshortmovement', 'time 0.780000 3.322585'):
        ctx.check(needle in text0, 'sample_content', f'{desc["file"]}: re-export lost {needle!r}:\n{text0}')


def fixed_text(tier):
    yield {'file': 'sample.vcd'}
    yield {'file': 'test_save_text.vcd'}
    # every Interpolation pair, as ramp sample curve types and edge curve types
    for first in range(16):
        d = blank_scene()
        ev = blank_event()
        ev['ramp'] = {'samples': [[i / 16.0, 0.5, [first, i]] for i in range(16)],
                      'left': [0.25, [first, 15 - first]], 'right': [0.5, [15 - first, first]]}
        d['events'].append(ev)
        d['ramp'] = {'samples': [[1.0, 1.0, [i, first]] for i in range(16)], 'left': None, 'right': [0.0, [first, first]]}
        yield d


def blank_event(kind='base'):
    return {
        'kind': kind, 'type': 2, 'name': 'ev', 'flags': 8, 'params': ['p', '', ''], 'start': 0.5, 'end': 1.5,
        'ramp': {'samples': [], 'left': None, 'right': None}, 'tag': None, 'dist': 0.0, 'rel_tags': [],
        'timing_tags': [], 'abs_play': [], 'abs_shift': [], 'flex': [], 'default_curve': [0, 0], 'pitch': 0, 'yaw': 0,
        'seq_dur': 0.0, 'loop_count': 0, 'cc_type': 0, 'cc_token': '', 'no_atten': False, 'combined': False,
        'gender': False,
    }


def blank_scene():
    return {
        'events': [], 'actors': [], 'ramp': {'samples': [], 'left': None, 'right': None}, 'ignore_phonemes': False,
        'text_crc': 0, 'map_name': '', 'fps': 60, 'snap': False, 'scale': [],
    }


# ------------------------------------------------------------------------------------------------ binary

def binary_cycle(ctx, scene, want, label):
    data, pool = export_binary(scene)
    ctx.check(data[:5] == b'bvcd\x04', 'binary_header', f'{label}: bad header {data[:5]!r}')
    ctx.check(len(pool) == len(set(pool)), 'binary_pool', f'{label}: pool has duplicates {pool!r}')
    parsed, left = parse_binary(data, pool)
    ctx.check(left == 0, 'binary_length', f'{label}: parse_binary left {left} unread bytes of {len(data)}: {data.hex()}')
    diff = first_diff(want, w_scene(parsed))
    if not ctx.check(diff is None, 'binary_equal',
                     f'{label}: parse_binary(export_binary(s)) differs: {diff}\npool={pool!r}\ndata={data.hex()}',
                     diff=str(diff)):
        return None
    data2, pool2 = export_binary(parsed)
    ctx.check(data2 == data and pool2 == pool, 'binary_fixed_point',
              f'{label}: second export_binary differs\n{data.hex()} {pool!r}\n{data2.hex()} {pool2!r}')
    # exporting into the already filled pool must find every string again
    before = list(pool)
    data3 = parsed.export_binary(_finder(pool))
    ctx.check(data3 == data and pool == before, 'binary_pool_reuse',
              f'{label}: export into the existing pool changed bytes or grew the pool ({before!r} -> {pool!r})')
    return data, pool, parsed


def _finder(pool):
    from srctools import binformat
    return binformat.find_or_insert(pool, lambda x: x)


def exec_binary(desc, ctx):
    if 'file' in desc:
        return exec_binary_file(desc, ctx)
    boost = desc.get('boost')
    label_long(desc, ctx)
    desc = expand(desc)
    classify(desc, ctx)
    strs = pooled_strings(desc)
    if case_variants(strs, strs):
        ctx.label('binary:case_variant_strings')
    scene = build_or_fail(desc, ctx)
    if scene is None:
        return
    if boost:
        width = COUNT_FIELDS[boost['field']]
        n = boost_count(boost)
        if n > WIDTH_LIMIT[width]:
            # more items than the count field can hold: the writer must refuse, not truncate / wrap
            ctx.label('binary:count_over_limit_rejected')
            try:
                data, pool = export_binary(scene)
            except (struct.error, ValueError, OverflowError):
                return
            ctx.fail('binary_count_overflow',
                     f'{n} items in {boost["field"]} (count field {width!r}, max {WIDTH_LIMIT[width]}) were written without an '
                     f'error: {len(data)} bytes', field=boost['field'])
            return
        ctx.label('binary:count_over_signed_max' if n > WIDTH_SMAX[width] else 'binary:count_at_signed_max')
    full = x_scene(desc)
    want = to_binary_form(full)
    if not boost:
        # in this sub-check's domain quantisation changes no stored number (the generator is already quantised)
        for a, b in zip(_numbers(_strip_text_only(want)), _numbers(_strip_text_only(full))):
            ctx.check(a == b, 'domain_quantised', f'generator emitted a value the binary form would alter: {b!r} -> {a!r}')
    binary_cycle(ctx, scene, want, 'generated')


def _strip_text_only(full):
    """Text-only fields reset, numbers untouched (to compare against to_binary_form on the quantised domain)."""
    def samples(lst, keep):
        return [[t, v, list(c) if keep else [0, 0]] for t, v, c in lst]

    def curve(c):
        return {'samples': samples(c['samples'], False)}

    def event(e):
        r = {k: e[k] for k in ('start', 'end', 'dist', 'rel_tags', 'abs_play', 'abs_shift') }
        r['timing_tags'] = [[c, n, v, False] for c, n, v, _ in e['timing_tags']]
        r['ramp'] = curve(e['ramp'])
        r['flex'] = [{'min': t['min'], 'max': t['max'], 'mag': samples(t['mag'], True),
                      'dir': None if t['dir'] is None else samples(t['dir'], True)} for t in e['flex']]
        r['seq_dur'] = e.get('seq_dur')
        return r
    return {'events': [event(e) for e in full['events']],
            'actors': [[[event(e) for e in c['events']] for c in a['channels']] for a in full['actors']],
            'ramp': curve(full['ramp'])}


def _numbers(x):
    if isinstance(x, dict):
        for k in sorted(x):
            if k in ('start', 'end', 'dist', 'min', 'max', 'seq_dur', 'samples', 'mag', 'dir', 'rel_tags', 'timing_tags',
                     'abs_play', 'abs_shift', 'ramp', 'flex', 'events', 'actors', 'channels'):
                yield from _numbers(x[k])
    elif isinstance(x, list):
        for v in x:
            yield from _numbers(v)
    elif isinstance(x, (int, float)) and not isinstance(x, bool):
        yield x


def exec_binary_file(desc, ctx):
    ctx.label('file:' + desc['file'])
    ctx.nontrivial(True)
    path = os.path.join(SAMPLE_DIR, desc['file'])
    if desc['file'].endswith('.vcd'):
        with open(path, encoding='utf8') as f:
            s0 = parse_text(f.read())
        want = to_binary_form(w_scene(s0))
        res = binary_cycle(ctx, s0, want, desc['file'])
        if res is not None:
            # float32 quantisation only: every event time within float32 rounding of the text value
            for a, b in zip(_numbers(_strip_text_only(w_scene(s0))), _numbers(_strip_text_only(w_scene(res[2])))):
                ctx.check(abs(a - b) <= max(abs(a) * 2 ** -23, 1.0 / 255 / 2 + 1e-9), 'binary_precision',
                          f'{desc["file"]}: {a!r} came back as {b!r}')
        return
    with open(path, 'rb') as f:
        blob = f.read()
    cut = blob.index(b']bvcd') + 1
    pool = json.loads(blob[:cut].decode('utf8'))
    data = blob[cut:]
    parsed, left = parse_binary(data, pool)
    ctx.check(left == 0, 'binary_length', f'{desc["file"]}: {left} bytes unread')
    data2, pool2 = export_binary(parsed)
    ctx.check(data2 == data and pool2 == pool, 'binary_fixed_point',
              f'{desc["file"]}: re-export differs\n{data.hex()} {pool!r}\n{data2.hex()} {pool2!r}')
    names = [e['name'] for e in w_scene(parsed)['events']]
    ctx.check(names == ['some loop', 'puase', 'a_fire'], 'sample_content', f'{desc["file"]}: events {names!r}')


def fixed_binary(tier):
    yield {'file': 'sample.vcd'}
    yield {'file': 'test_save_binary.bvcd'}
    # every Interpolation pair as flex sample curve types (the only place the binary form stores them)
    for first in range(16):
        d = blank_scene()
        ev = blank_event()
        ev['flex'] = [{'name': 'trk', 'active': True, 'range': [0.0, 1.0],
                       'mag': [[i / 16.0, i / 255.0, [first, i]] for i in range(16)],
                       'dir': [[i / 16.0, (255 - i) / 255.0, [i, first]] for i in range(16)],
                       'left': None, 'right': None}]
        d['events'].append(ev)
        yield d
    # count-width boundaries, one set per counted list (see COUNT_FIELDS)
    for field in sorted(COUNT_FIELDS):
        for which in ('smax+1', 'umax', 'over'):
            yield dict(blank_scene(), boost={'field': field, 'count': which})
    # every flag bit alone, on every event class
    for bit in range(6):
        d = blank_scene()
        for kind in ('base', 'speak', 'gesture', 'loop'):
            ev = blank_event(kind)
            ev['flags'] = 1 << bit
            d['events'].append(ev)
        yield d


# ------------------------------------------------------------------------------------------------ text -> binary -> text

def exec_cross(desc, ctx):
    label_long(desc, ctx)
    desc = expand(desc)
    classify(desc, ctx)
    scene = build_or_fail(desc, ctx)
    if scene is None:
        return
    full = x_scene(desc)
    res = text_cycle(ctx, scene, to_text_form(full), 'cross/text')
    if res is None:
        return
    text, from_text = res
    # binary written from the text-parsed scene == binary written from the original (text_crc aside)
    from_text.text_crc = desc['text_crc']
    data_a, pool_a = export_binary(from_text)
    data_b, pool_b = export_binary(scene)
    ctx.check(data_a == data_b and pool_a == pool_b, 'cross_text_to_binary',
              f'binary from parse_text(export_text(s)) differs from binary of s\n{data_a.hex()} {pool_a!r}\n'
              f'{data_b.hex()} {pool_b!r}\ntext:\n{text}')
    want_bin = to_binary_form(full)
    res = binary_cycle(ctx, from_text, want_bin, 'cross/binary')
    if res is None:
        return
    from_bin = res[2]
    # back to text: equals the text of the same value with the text-only fields at their defaults
    want_text = to_text_form(want_bin)
    text_b = export_text(from_bin)
    ctx.check(braces_balanced(text_b), 'text_balanced', f'cross: text from the binary-parsed scene unbalanced:\n{text_b}',
              flex=True)
    back = parse_text(text_b)
    diff = first_diff(want_text, w_scene(back))
    ctx.check(diff is None, 'cross_binary_to_text',
              f'text -> binary -> text changed the scene: {diff}\nfirst text:\n{text}\nfinal text:\n{text_b}', diff=str(diff))


# ------------------------------------------------------------------------------------------------ scenes.image

def norm_filename(name):
    name = name.lower().replace('/', '\\')
    if not name.startswith('scenes\\'):
        name = 'scenes\\' + name
    return name


def crc_of(name):
    return zlib.crc32(norm_filename(name).encode('ascii')) & 0xFFFFFFFF


def s_filename():
    part = st.text('abcXYZ019_', min_size=1, max_size=6)
    return st.tuples(st.sampled_from(['', 'scenes/', 'Scenes\\', 'SCENES/']), st.lists(part, min_size=1, max_size=3),
                     st.sampled_from(['/', '\\'])).map(lambda t: t[0] + t[2].join(t[1]) + '.vcd')


def s_image_op():
    return st.one_of(
        st.tuples(st.just('rename'), st.integers(0, 7), s_filename()).map(list),
        st.tuples(st.just('rename'), st.integers(0, 7), s_filename()).map(list),
        st.tuples(st.just('replace'), st.integers(0, 7), st.integers(0, 7)).map(list),
    )


def apply_image_ops(ops, container, model, ents, ctx):
    """Run a history on a container (ScenesImage dict or list of Entry) and on its model in step.

    `model` is a list of {'filename', 'scene'} records in the container's iteration order.  Returns False if a scene could
    not be built.  A rename that would collide with another entry's CRC is skipped (CRCs are the key of the format).
    """
    from srctools import choreo
    n = len(model)
    if n == 0:
        return True
    for op in ops:
        pos = op[1] % n
        keys = list(container) if isinstance(container, dict) else None
        entry = container[keys[pos]] if keys is not None else container[pos]
        if op[0] == 'rename':
            new = op[2]
            if any(crc_of(new) == crc_of(r['filename']) for r in model):
                continue
            entry.filename = new           # documented: recalculates entry.checksum
            model[pos] = dict(model[pos], filename=new)
            ctx.label('history:rename')
            if keys is not None:
                ctx.label('history:stale_dict_key')
        else:
            src = ents[op[2] % len(ents)]['scene']
            scene = build_or_fail(src, ctx)
            if scene is None:
                return False
            fresh = choreo.Entry.from_scene(model[pos]['filename'], scene)
            if keys is not None:
                container[keys[pos]] = fresh
            else:
                container[pos] = fresh
            model[pos] = dict(model[pos], scene=src)
            ctx.label('history:replace')
    return True


def save_container(container, version):
    from srctools import choreo
    buf = io.BytesIO()
    choreo.save_scenes_image_sync(buf, container if isinstance(container, dict) else iter(container), version=version)
    return buf.getvalue()


def strategy_image(tier):
    entry = st.fixed_dictionaries({'filename': s_filename(), 'scene': s_scene('img')})
    return st.fixed_dictionaries({
        'version': st.sampled_from([2, 3]),
        'as_dict': st.booleans(),
        'mode': st.sampled_from(['reexport', 'mixed', 'two_pools', 'history']),
        # histories on the container between build / parse and save: ['rename', entry, new file name] through the
        # documented Entry.filename setter (recomputes Entry.checksum; a dict key goes stale), ['replace', entry, scene of
        # entry j]; pre_ops before the first save, post_ops (mode 'history') on the parsed image before saving it again
        'pre_ops': st.one_of(st.just([]), st.lists(s_image_op(), max_size=3)),
        'post_ops': st.lists(s_image_op(), min_size=1, max_size=3),
        # 2-5 scenes per container (0 and 1 are fixed cases): cross-scene pool collisions need company
        'entries': st.lists(entry, min_size=2, max_size=4, unique_by=lambda e: crc_of(e['filename'])),
    })


def read_image(raw):
    """Independent reader of the VSIF container, from the layout only (no srctools code)."""
    magic, version, n_scenes, n_strings, scene_off = struct.unpack_from('<4s4i', raw, 0)
    assert magic == b'VSIF', magic
    offsets = struct.unpack_from(f'<{n_strings}i', raw, 20)
    strings = []
    for off in offsets:
        end = raw.index(b'\0', off)
        strings.append(raw[off:end].decode('latin1'))
    entries = []
    for i in range(n_scenes):
        crc, data_off, data_len, summ_off = struct.unpack_from('<Iiii', raw, scene_off + 16 * i)
        if version == 3:
            dur, last, n_snd = struct.unpack_from('<Iii', raw, summ_off)
            pos = summ_off + 12
        else:
            dur, n_snd = struct.unpack_from('<Ii', raw, summ_off)
            last = None
            pos = summ_off + 8
        snd = [strings[j] for j in struct.unpack_from(f'<{n_snd}i', raw, pos)]
        blob = raw[data_off:data_off + data_len]
        if blob[:4] == b'LZMA':
            _sig, real, comp, props = struct.unpack_from('<4sII5s', blob, 0)
            lc = props[0] % 9
            rest = props[0] // 9
            lp, pb = rest % 5, rest // 5
            dict_size = struct.unpack('<I', props[1:])[0]
            dec = lzma.LZMADecompressor(lzma.FORMAT_RAW, None, [
                {'id': lzma.FILTER_LZMA1, 'dict_size': max(dict_size, 4096), 'lc': lc, 'lp': lp, 'pb': pb}])
            body = dec.decompress(blob[17:17 + comp], real)
            assert len(body) == real, (len(body), real)
            packed = True
        else:
            body, packed = blob, False
        entries.append({'crc': crc, 'duration': dur, 'last_speak': last, 'sounds': snd, 'data': body, 'packed': packed,
                        'data_off': data_off, 'data_len': data_len, 'summary_off': summ_off})
    return {'version': version, 'strings': strings, 'entries': entries, 'scene_off': scene_off}


def expected_summary(scene_desc):
    """duration, last-speak (seconds) and sounds, recomputed from the descriptor by the documented rules."""
    sounds = set()
    ends = [(e['end'] if e['end'] != -1.0 else e['start']) for e in all_events(scene_desc)]
    sp_ends = [(e['end'] if e['end'] != -1.0 else e['start']) for e in all_events(scene_desc) if e['kind'] == 'speak']
    dur = max(ends) if ends else 0.0
    speak = max(sp_ends) if sp_ends else 0.0
    for e in all_events(scene_desc):
        if e['kind'] != 'speak':
            continue
        sounds.add(e['params'][0])
        combined = e['combined'] and e['cc_type'] != 2
        if e['cc_type'] == 0 or (e['cc_type'] == 1 and not combined):
            sounds.add(e['cc_token'] or e['params'][0])
    return dur, speak, sorted(sounds)


def ms_ok(ms, seconds):
    return isinstance(ms, int) and abs(ms - seconds * 1000.0) <= 0.5 + 1e-6


def save_image(entries, version, as_dict=False):
    from srctools import choreo
    buf = io.BytesIO()
    arg = {e.checksum: e for e in entries} if as_dict else iter(entries)
    choreo.save_scenes_image_sync(buf, arg, version=version)
    return buf.getvalue()


def exec_image(desc, ctx):
    from srctools import choreo
    version = desc['version']
    if any(e['scene'].get('boost') for e in desc['entries']):
        ctx.label('image:count_boundary_scene')
    for e in desc['entries']:
        label_long(e['scene'], ctx)
    ents = [dict(e, scene=expand(e['scene'])) for e in desc['entries']]
    ctx.label(f'version:{version}', 'entries:' + ('0' if not ents else '1' if len(ents) == 1 else '2+'),
              'arg:dict' if desc['as_dict'] else 'arg:iter')
    for e in ents:
        classify(e['scene'], ctx, prefix='')
    pools = [pooled_strings(e['scene']) for e in ents]
    if any(case_variants(pools[i], pools[j]) for i in range(len(pools)) for j in range(len(pools)) if i != j):
        ctx.label('image:case_variant_strings_across_scenes')
    if any(case_variants(p, p) for p in pools):
        ctx.label('image:case_variant_strings_in_scene')
    ctx.nontrivial(len(ents) >= 1 and any(True for e in ents for _ in all_events(e['scene'])))
    built = []
    for e in ents:
        scene = build_or_fail(e['scene'], ctx)
        if scene is None:
            return
        built.append(choreo.Entry.from_scene(e['filename'], scene))
    container = {e.checksum: e for e in built} if desc['as_dict'] else list(built)
    model = [{'filename': e['filename'], 'scene': e['scene']} for e in ents]
    if not apply_image_ops(desc.get('pre_ops', []), container, model, ents, ctx):
        return
    built = list(container.values()) if desc['as_dict'] else list(container)
    by_crc = {crc_of(r['filename']): r for r in model}
    input_sorted = [crc_of(r['filename']) for r in model] == sorted(by_crc)
    ctx.label('input_sorted' if input_sorted else 'input_unsorted')

    raw = save_container(container, version)

    # ---- independent reading of the bytes
    img = read_image(raw)
    ctx.check(img['version'] == version, 'image_header', f'version field {img["version"]} != {version}')
    crcs = [e['crc'] for e in img['entries']]
    ctx.check(crcs == sorted(by_crc), 'image_sorted',
              f'directory CRCs {crcs} are not the sorted CRCs of the file names {sorted(by_crc)}')
    ctx.check(len(img['strings']) == len(set(img['strings'])), 'image_pool', f'duplicate pool strings {img["strings"]!r}')
    if any(e['packed'] for e in img['entries']):
        ctx.label('lzma')
    for ent in img['entries']:
        d = by_crc.get(ent['crc'])
        if d is None:
            continue
        dur, speak, sounds = expected_summary(d['scene'])
        ctx.check(ms_ok(ent['duration'], dur), 'image_duration',
                  f'{d["filename"]}: stored duration {ent["duration"]} ms, events end at {dur} s')
        if version == 3:
            ctx.check(ms_ok(ent['last_speak'], speak), 'image_last_speak',
                      f'{d["filename"]}: stored last_speak {ent["last_speak"]} ms, last speak event ends at {speak} s')
        ctx.check(ent['sounds'] == sounds, 'image_sounds', f'{d["filename"]}: stored sounds {ent["sounds"]!r}, want {sounds!r}')
        ctx.check(ent['data'][:5] == b'bvcd\x04', 'image_data', f'{d["filename"]}: scene block starts {ent["data"][:8]!r}')
        ctx.check(not ent['packed'] or ent['data_len'] < len(ent['data']), 'image_compression',
                  f'{d["filename"]}: LZMA block ({ent["data_len"]}) not smaller than the data ({len(ent["data"])})')
        # the block is the scene's BVCD against the shared pool
        sc, left = parse_binary(ent['data'], img['strings'])
        diff = first_diff(to_binary_form(x_scene(d['scene'])), w_scene(sc))
        ctx.check(diff is None and left == 0, 'image_scene', f'{d["filename"]}: stored scene differs: {diff} (unread {left})',
                  diff=str(diff))

    # ---- the library's reader
    parsed = choreo.parse_scenes_image(io.BytesIO(raw))
    ctx.check(list(parsed) == sorted(by_crc), 'image_parse_keys', f'parsed keys {list(parsed)} want {sorted(by_crc)}')
    for ent in img['entries']:
        got = parsed.get(ent['crc'])
        if got is None:
            continue
        want_last = ent['last_speak'] if version == 3 else ent['duration']
        ctx.check((got.checksum, got.duration_ms, got.last_speak_ms, got.sounds, got.filename) ==
                  (ent['crc'], ent['duration'], want_last, ent['sounds'], ''), 'image_parse_entry',
                  f'parsed entry {got!r} differs from the stored fields {ent["crc"]}, {ent["duration"]}, {want_last}, {ent["sounds"]!r}')
        ctx.check(abs(got.duration - ent['duration'] / 1000.0) < 1e-9 and abs(got.last_speak - want_last / 1000.0) < 1e-9,
                  'image_parse_entry', 'duration / last_speak properties are not ms/1000')

    # ---- second generation, copying the unparsed blocks: identical file
    raw2 = save_image(list(parsed.values()), version)
    ctx.check(raw2 == raw, 'image_fixed_point_copy',
              f'save(parse(file)) without touching the scenes differs from the file ({len(raw)} vs {len(raw2)} bytes)')
    mode = desc['mode']
    ctx.label('mode:' + mode)
    key = lambda im: [(e['crc'], e['duration'], e['last_speak'], e['sounds']) for e in im['entries']]
    if mode == 'reexport':
        # ---- forcing every scene to be parsed and re-exported: equal scenes, and a fixed point from then on
        for ent in parsed.values():
            d = by_crc[ent.checksum]
            diff = first_diff(to_binary_form(x_scene(d['scene'])), w_scene(ent.data))
            ctx.check(diff is None, 'image_entry_data', f'{d["filename"]}: Entry.data differs: {diff}', diff=str(diff))
        raw3 = save_image(list(parsed.values()), version)
        if input_sorted:
            ctx.check(raw3 == raw, 'image_fixed_point_reexport',
                      'save(parse(file)) after parsing every scene differs from the file (input was in CRC order)')
        again = choreo.parse_scenes_image(io.BytesIO(raw3))
        for ent in again.values():
            ent.data
        raw4 = save_image(list(again.values()), version)
        ctx.check(raw4 == raw3, 'image_fixed_point_reexport', 'third generation differs from the second')
        ctx.check(key(read_image(raw3)) == key(img), 'image_regen', 'regenerated file stores different directory/summary fields')
        return
    if mode == 'history':
        # ---- a history on the parsed image (renames through Entry.filename, replacements), then the same dict (or its
        #      entries) saved again: table sorted by checksum, same entries back, save(parse(.)) byte-identical
        container2 = dict(parsed) if desc['as_dict'] else list(parsed.values())
        model2 = [by_crc[crc] for crc in parsed]
        if not apply_image_ops(desc['post_ops'], container2, model2, ents, ctx):
            return
        by_crc2 = {crc_of(r['filename']): r for r in model2}
        raw_h = save_container(container2, version)
        img_h = read_image(raw_h)
        crcs_h = [e['crc'] for e in img_h['entries']]
        ctx.check(crcs_h == sorted(by_crc2), 'image_sorted',
                  f'history: directory CRCs {crcs_h} are not the sorted checksums of the entries {sorted(by_crc2)} '
                  f'(ops {desc["post_ops"]!r}, container {"dict" if desc["as_dict"] else "iterable"})')
        for ent in img_h['entries']:
            r = by_crc2.get(ent['crc'])
            if r is None:
                continue
            dur, speak, sounds = expected_summary(r['scene'])
            ctx.check(ms_ok(ent['duration'], dur) and ent['sounds'] == sounds, 'image_history',
                      f'history: {r["filename"]}: summary {ent["duration"]} ms {ent["sounds"]!r}, want {dur} s {sounds!r}')
            sc, left = parse_binary(ent['data'], img_h['strings'])
            diff = first_diff(to_binary_form(x_scene(r['scene'])), w_scene(sc))
            ctx.check(diff is None and left == 0, 'image_history',
                      f'history: scene {r["filename"]} differs: {diff} (unread {left})', diff=str(diff))
        parsed_h = choreo.parse_scenes_image(io.BytesIO(raw_h))
        ctx.check(list(parsed_h) == sorted(by_crc2), 'image_parse_keys',
                  f'history: re-read keys {list(parsed_h)} want {sorted(by_crc2)}')
        ctx.check([e.checksum for e in parsed_h.values()] == list(parsed_h), 'image_parse_keys',
                  'history: re-read dict keys differ from the entries\' checksums')
        raw_h2 = save_container(parsed_h, version)
        ctx.check(raw_h2 == raw_h, 'image_fixed_point_copy',
                  f'history: save(parse(save(x))) differs from save(x) ({len(raw_h)} vs {len(raw_h2)} bytes)')
        return
    # ---- merging: entries of an existing image (unparsed blocks + its pool) together with
    #      'mixed': freshly built scenes / 'two_pools': the entries of a second image (forces re-export of all)
    half_a = [e for i, e in enumerate(built) if i % 2 == 0]
    half_b = [e for i, e in enumerate(built) if i % 2 == 1]
    part_a = list(choreo.parse_scenes_image(io.BytesIO(save_image(half_a, version))).values())
    if mode == 'mixed':
        part_b = half_b
    else:
        part_b = list(choreo.parse_scenes_image(io.BytesIO(save_image(half_b, version))).values())
    merged_raw = save_image(part_b + part_a, version)
    merged = read_image(merged_raw)
    ctx.check([e['crc'] for e in merged['entries']] == sorted(by_crc), 'image_sorted',
              f'{mode}: merged directory {[e["crc"] for e in merged["entries"]]} is not sorted / complete {sorted(by_crc)}')
    ctx.check(key(merged) == key(img), 'image_merge', f'{mode}: merged image stores other summaries: {key(merged)} vs {key(img)}')
    for ent in merged['entries']:
        d = by_crc.get(ent['crc'])
        if d is None:
            continue
        sc, left = parse_binary(ent['data'], merged['strings'])
        diff = first_diff(to_binary_form(x_scene(d['scene'])), w_scene(sc))
        ctx.check(diff is None and left == 0, 'image_merge',
                  f'{mode}: scene {d["filename"]} differs after merging: {diff} (unread {left})', diff=str(diff))


def fixed_image(tier):
    """The sample scene (quantised by the binary form) in both container versions."""
    for version in (2, 3):
        yield {'file': 'sample.vcd', 'version': version}
        yield {'version': version, 'as_dict': version == 2, 'mode': 'reexport', 'entries': []}   # the empty container
        one = blank_scene()
        one['events'].append(blank_event('speak'))
        yield {'version': version, 'as_dict': version == 3, 'mode': 'mixed', 'entries': [{'filename': 'One.vcd', 'scene': one}]}
    # string-length boundaries in the shared pool: a sound name (event parameter -> scene, summary and pool) and an
    # event name of each boundary length
    modes = ['reexport', 'mixed', 'two_pools', 'history']
    for i, length in enumerate(LONG_LENGTHS):
        snd = blank_scene()
        snd['events'].append(blank_event('speak'))
        snd['long'] = {'unit': 'Vo/', 'len': length, 'slot': 1, 'all': False}
        nam = blank_scene()
        nam['events'].append(blank_event('gesture'))
        nam['long'] = {'unit': '\xe9b', 'len': LONG_LENGTHS[(i + 3) % len(LONG_LENGTHS)], 'slot': 0, 'all': False}
        yield {'version': 2 + i % 2, 'as_dict': i % 3 == 0, 'mode': modes[i % 4], 'pre_ops': [], 'post_ops': [['rename', 0, 'moved.vcd']],
               'entries': [{'filename': 'snd.vcd', 'scene': snd}, {'filename': 'Name.vcd', 'scene': nam}]}


def exec_image_any(desc, ctx):
    if 'file' not in desc:
        return exec_image(desc, ctx)
    from srctools import choreo
    ctx.label('file:' + desc['file'], f'version:{desc["version"]}')
    ctx.nontrivial(True)
    with open(os.path.join(SAMPLE_DIR, desc['file']), encoding='utf8') as f:
        src = f.read()
    names = ['scenes/npc/Sample_B.vcd', 'a.vcd', 'scenes\\z\\last.vcd']
    entries = [choreo.Entry.from_scene(n, parse_text(src)) for n in names]
    raw = save_image(entries, desc['version'])
    img = read_image(raw)
    crcs = [e['crc'] for e in img['entries']]
    ctx.check(crcs == sorted(crc_of(n) for n in names), 'image_sorted', f'{crcs} not sorted CRCs of {names}')
    want = to_binary_form(w_scene(parse_text(src)))
    for ent in img['entries']:
        ctx.check(ms_ok(ent['duration'], 4.406667), 'image_duration',
                  f'sample: duration {ent["duration"]} ms, latest event is the loop at 4.406667 s')
        if desc['version'] == 3:
            ctx.check(ms_ok(ent['last_speak'], 3.322585), 'image_last_speak',
                      f'sample: last_speak {ent["last_speak"]} ms, last speak event ends at 3.322585 s')
        ctx.check(ent['sounds'] == ['barn.ditchcar', 'npc_gman.welcome'], 'image_sounds', f'sample: sounds {ent["sounds"]!r}')
        sc, left = parse_binary(ent['data'], img['strings'])
        diff = first_diff(want, w_scene(sc))
        ctx.check(diff is None and left == 0, 'image_scene', f'sample: stored scene differs: {diff}')
    parsed = choreo.parse_scenes_image(io.BytesIO(raw))
    ctx.check(list(parsed) == crcs, 'image_parse_keys', f'{list(parsed)} vs {crcs}')
    ctx.check(save_image(list(parsed.values()), desc['version']) == raw, 'image_fixed_point_copy', 'sample: resave differs')


# ------------------------------------------------------------------------------------------------ registration

def strategy_text(tier):
    return s_scene('text', flex_weight=(1, 1), flex_scenes=(6, 1))


def strategy_binary(tier):
    return s_scene('bin', flex_weight=(1, 1))


def strategy_cross(tier):
    return s_scene('q', flex_weight=(1, 1), flex_scenes=(9, 1))


COMMON_HIT = ('ev:base', 'ev:speak', 'ev:gesture', 'ev:loop', 'tags:rel', 'tags:timing', 'tags:abs', 'tags:abs>1',
              'ramp', 'scene_ramp', 'curve:nondefault', 'flags:other', 'reltag', 'end_time', 'actor')

SUBS = [
    Sub('choreo_text', exec_text, strategy=strategy_text, fixed=fixed_text, quick=800, thorough=8000, floor=100, quick_shards=16,
        must_hit=COMMON_HIT + ('edge', 'scalesettings', 'file:sample.vcd')),
    Sub('choreo_binary', exec_binary, strategy=strategy_binary, fixed=fixed_binary, quick=800, thorough=8000, floor=100,
        quick_shards=16,
        must_hit=COMMON_HIT + ('strlen:boundary', 'flex', 'flex:dir', 'binary:case_variant_strings', 'binary:count_over_signed_max',
                             'binary:count_over_limit_rejected', 'file:sample.vcd', 'file:test_save_binary.bvcd')),
    Sub('choreo_cross', exec_cross, strategy=strategy_cross, quick=600, thorough=6000, floor=100, quick_shards=16,
        must_hit=COMMON_HIT),
    Sub('choreo_image', exec_image_any, strategy=strategy_image, fixed=fixed_image, quick=112, thorough=2000, floor=40,
        quick_shards=16,
        must_hit=('strlen:127-129', 'strlen:255-257', 'strlen:1023-1025', 'strlen:4095-4097', 'strlen:>65536',
                  'version:2', 'version:3', 'mode:reexport', 'mode:mixed', 'mode:two_pools', 'mode:history', 'history:rename',
                  'history:replace', 'history:stale_dict_key', 'entries:2+', 'image:case_variant_strings_across_scenes', 'arg:dict', 'arg:iter', 'input_unsorted', 'ev:speak', 'lzma')),
]


def m_flexanim_text(desc, clause, facts):
    """Open finding: Event.parse_text raises NotImplementedError at the 'flexanimations' key (parser is a TODO)."""
    if clause != 'exception:NotImplementedError' or not str(facts.get('where', '')).endswith('choreo.py:parse_text'):
        return False
    if 'entries' in desc or 'file' in desc:
        return False
    return has_flex(desc)


MATCHERS = {'choreo_flexanim_text_unparsed': m_flexanim_text}
