"""C20 part: SMD meshes (``Mesh.export`` / ``Mesh.parse_smd``).

``Mesh(bones, animation, triangles)`` built from ``Bone``/``BoneFrame``/``Vertex``/``Triangle`` -> ``export`` ->
``parse_smd`` -> own walker equality at 6 decimals -> ``export`` again: identical bytes for single-bone meshes,
identical after an independent canonical re-reading keyed by bone name otherwise.
"""
from __future__ import annotations

import io
import math

from hypothesis import strategies as st

from vlib.core import Sub
from checks.c20parts._walkguard import guard

ASSUMPTIONS = [
    'bone names are ASCII without double quote, line breaks or the comment introducers "#", ";", "//" (the reader '
    'strips comments from every line before looking at quotes), distinct, and Mesh.bones maps each name to its Bone; '
    'a single interior space is allowed in a bone name (classic "Bip01 L Hand" style) since the reader matches the '
    'quoted name as a whole; parents are bones of the same mesh and form a forest (no loops)',
    'materials are non-empty ASCII without double quote, whitespace, "#", ";", "//", not the word "end", not ending '
    'in a path separator and without an extension-like suffix (no "." in the last path component): the reader '
    'strips trailing separators and os.path.splitext()s the name',
    'every vertex has 1-3 links to bones of the mesh; a single-link vertex has weight 1.0 (the one-bone short form '
    'of the format carries no weight); multi-link weights are floats in [0, 1]',
    'coordinates, normals, UVs are finite floats |x| <= 4096 compared with absolute tolerance 5e-7 (+1e-9 relative) '
    '- the writer prints %.6f; rotations are compared at 5e-7 in the stored unit (radians) on the circle; frame times '
    'are distinct non-negative ints',
    'second-generation output: the writer numbers bones by iterating a set (order depends on string hashing and '
    'insertion history), so byte identity is required only for single-bone meshes; for larger skeletons both outputs '
    'are re-read by an independent line reader into a structure keyed by bone name and must then be identical '
    '(numeric fields as printed text); whether the raw bytes happened to be identical is recorded in the histogram',
    'no SMD sample exists under /repo/tests; fixed inputs are Mesh.blank() and Mesh.build_bbox() values',
]

MAX_COORD = 4096.0
TOL = 5e-7

_BONE_CHARS = 'abcdefXYZ0123_.-'
_MAT_CHARS = 'abcdefXYZ0123_-'


def _bone_name():
    word = st.text(st.sampled_from(_BONE_CHARS), min_size=1, max_size=8)
    free = st.text(st.sampled_from("abcXYZ019_.-+$%&'()*,:<=>?@[]^`{|}~!/\\"), min_size=1, max_size=8).filter(
        lambda s: '//' not in s)
    return st.one_of(
        word, word,
        st.tuples(st.sampled_from(['ValveBiped.Bip01_', 'static_prop', 'bone']), word).map(''.join),
        st.tuples(word, word).map(' '.join),
        free,
    )


def _material():
    word = st.text(st.sampled_from(_MAT_CHARS), min_size=1, max_size=8)
    path = st.lists(word, min_size=1, max_size=3).map('/'.join)
    dotted_dir = st.tuples(word, word, word).map(lambda t: f'{t[0]}.{t[1]}/{t[2]}')
    backslash = st.lists(word, min_size=2, max_size=3).map('\\'.join)
    return st.one_of(word, path, path, dotted_dir, backslash).filter(lambda s: s != 'end')


def _coord():
    return st.one_of(
        st.floats(-MAX_COORD, MAX_COORD, allow_nan=False, allow_infinity=False),
        st.integers(-512, 512).map(float),
        st.integers(-512000, 512000).map(lambda i: i / 1000.0),
        st.sampled_from([0.0, -0.0, 1.0, -1.0, 0.5, 1e-7, -1e-7, 4.9e-7, 5.1e-7, 0.0000005, 0.9999995, 1234.5678915]),
    )


def _unit():
    return st.one_of(st.floats(-1.0, 1.0, allow_nan=False, allow_infinity=False),
                     st.sampled_from([0.0, 1.0, -1.0, 0.70710678118, -0.57735026919]))


def _angle():
    return st.one_of(
        st.floats(0.0, 359.999, allow_nan=False, allow_infinity=False),
        st.sampled_from([0.0, 90.0, 180.0, 270.0, 45.0, 359.999, 0.001, 57.29577951308232]),
        st.integers(0, 359).map(float),
    )


def _vec(elem):
    return st.tuples(elem, elem, elem).map(list)


def _weight():
    return st.one_of(st.floats(0.0, 1.0, allow_nan=False, allow_infinity=False),
                     st.sampled_from([0.5, 0.25, 0.75, 1.0, 0.333333, 0.0]))


def _links():
    ix = st.integers(0, 1 << 16)
    multi = st.lists(st.tuples(ix, _weight()).map(list), min_size=2, max_size=3)
    single = ix.map(lambda i: [[i, 1.0]])
    return st.one_of(single, multi)


def _vertex():
    return st.fixed_dictionaries({
        'pos': _vec(_coord()), 'norm': _vec(_unit()),
        'uv': st.tuples(_coord(), _coord()).map(list),
        'links': _links(),
    })


def _triangle():
    return st.tuples(_material(), st.lists(_vertex(), min_size=3, max_size=3)).map(list)


def _frame_entry():
    return st.tuples(st.integers(0, 1 << 16), _vec(_coord()), _vec(_angle())).map(list)


def strategy(tier: str):
    max_bones = 5 if tier == 'quick' else 8
    def bones():
        # a fresh strategy object per call: one_of() drops repeated identical alternatives
        parent = st.one_of(st.just(-1), st.integers(0, 1 << 16).map(lambda i: i), st.integers(0, 1 << 16))
        return st.lists(
            st.tuples(_bone_name(), parent).map(list),
            min_size=2, max_size=max_bones, unique_by=lambda b: b[0],
        )
    frames = st.lists(
        st.tuples(st.integers(0, 30), st.lists(_frame_entry(), max_size=max_bones)).map(list),
        min_size=0, max_size=3, unique_by=lambda f: f[0],
    )
    return st.fixed_dictionaries({
        'bones': st.one_of(bones(), bones(), bones(),
                           st.lists(st.tuples(_bone_name(), st.just(-1)).map(list), min_size=1, max_size=1)),
        # order in which the bones are put into the Mesh.bones dict (indices modulo remaining count)
        'dict_order': st.lists(st.integers(0, 1 << 16), max_size=max_bones),
        'frames': frames,
        'tris': st.one_of(st.lists(_triangle(), max_size=3), st.lists(_triangle(), min_size=1, max_size=2)),
    })


def fixed(tier: str):
    yield {'ctor': 'blank', 'root': 'static_prop'}
    yield {'ctor': 'bbox', 'root': 'static_prop', 'mat': 'tools/toolsnodraw', 'mins': [-16.0, -8.5, 0.0],
           'maxs': [16.0, 8.25, 72.125]}
    yield {
        'bones': [['root', -1], ['ValveBiped.Bip01_Spine', 0], ['Bip01 L Hand', 1]],
        'dict_order': [2, 0, 0],
        'frames': [[0, [[0, [0.0, 0.0, 0.0], [0.0, 0.0, 0.0]], [1, [0.0, 0.0, 32.5], [0.0, 90.0, 0.0]],
                        [2, [4.0, -2.0, 8.25], [15.5, 270.0, 359.0]]]],
                   [1, [[2, [4.0, -2.0, 9.0], [16.0, 271.0, 0.5]]]]],
        'tris': [['models/props/metal01', [
            {'pos': [0.0, 0.0, 0.0], 'norm': [0.0, 0.0, 1.0], 'uv': [0.0, 0.0], 'links': [[0, 1.0]]},
            {'pos': [16.0, 0.0, 0.0], 'norm': [0.0, 0.0, 1.0], 'uv': [1.0, 0.0], 'links': [[1, 0.75], [2, 0.25]]},
            {'pos': [0.0, 16.0, 0.0], 'norm': [0.0, 0.0, 1.0], 'uv': [0.0, 1.0],
             'links': [[0, 0.5], [1, 0.25], [2, 0.25]]},
        ]]],
    }


# ---- resolving a descriptor into plain data (no srctools objects) ------------------------------------------------

def resolve(desc):
    """Descriptor -> (bone list [(name, parent_name|None)] in *dict order*, frames, triangles) with names for bones."""
    raw = desc['bones']
    n = len(raw)
    names = [b[0] for b in raw]
    parents = []
    for i, (_, p) in enumerate(raw):
        # parent must be an earlier bone (forest by construction); -1 or no earlier bone -> root
        parents.append(None if (p < 0 or i == 0) else names[p % i])
    remaining = list(range(n))
    order = []
    for k in desc['dict_order']:
        if not remaining:
            break
        order.append(remaining.pop(k % len(remaining)))
    order.extend(remaining)
    bones = [(names[i], parents[i]) for i in order]
    frames = {}
    for time, entries in desc['frames']:
        frames[time] = [(names[bi % n], tuple(pos), tuple(rot)) for bi, pos, rot in entries]
    tris = []
    for mat, verts in desc['tris']:
        vs = []
        for v in verts:
            links = [(names[bi % n], float(w)) for bi, w in v['links']]
            vs.append((tuple(v['pos']), tuple(v['norm']), v['uv'][0], v['uv'][1], links))
        tris.append((mat, vs))
    return bones, frames, tris


def build(bones, frames, tris):
    from srctools.math import Angle, Vec
    from srctools.smd import Bone, BoneFrame, Mesh, Triangle, Vertex
    objs = {}
    by_name = dict(bones)

    def get(name):
        if name not in objs:
            parent = by_name[name]
            objs[name] = Bone(name, None if parent is None else get(parent))
        return objs[name]
    bone_dict = {name: get(name) for name, _ in bones}
    anim = {
        time: [BoneFrame(bone_dict[b], Vec(*pos), Angle(*rot)) for b, pos, rot in entries]
        for time, entries in frames.items()
    }
    triangles = [
        Triangle(mat, *[
            Vertex(Vec(*pos), Vec(*norm), u, v, [(bone_dict[b], w) for b, w in links])
            for pos, norm, u, v, links in verts
        ])
        for mat, verts in tris
    ]
    return Mesh(bone_dict, anim, triangles)


# ---- walker over a Mesh --------------------------------------------------------------------------------------

def walk(mesh):
    bones = {}
    problems = []
    for key, bone in mesh.bones.items():
        if key != bone.name:
            problems.append(f'bones[{key!r}].name == {bone.name!r}')
        bones[bone.name] = None if bone.parent is None else bone.parent.name
    frames = {}
    for time, entries in mesh.animation.items():
        frames[time] = [
            (bf.bone.name, (bf.position.x, bf.position.y, bf.position.z),
             (bf.rotation.pitch, bf.rotation.yaw, bf.rotation.roll))
            for bf in entries
        ]
    tris = []
    for tri in mesh.triangles:
        vs = []
        for v in (tri.point1, tri.point2, tri.point3):
            vs.append(((v.pos.x, v.pos.y, v.pos.z), (v.norm.x, v.norm.y, v.norm.z), v.tex_u, v.tex_v,
                       [(b.name, w) for b, w in v.links]))
        tris.append((tri.mat, vs))
    return {'bones': bones, 'frames': frames, 'tris': tris, 'problems': problems}


def _close(a: float, b: float) -> bool:
    return abs(a - b) <= TOL + 1e-9 * max(abs(a), abs(b))


def _close_angle_deg(a: float, b: float) -> bool:
    d = math.fmod(abs(math.radians(a) - math.radians(b)), 2 * math.pi)
    d = min(d, 2 * math.pi - d)
    return d <= TOL + 1e-9


def compare(want, got, exact: bool):
    """Differences between two walker results.  exact=False: 6-decimal tolerance; exact=True: identical floats."""
    out = []
    close = (lambda a, b: a == b) if exact else _close
    close_ang = (lambda a, b: a == b) if exact else _close_angle_deg
    if got['problems']:
        out.append(('bones', 'dict key == Bone.name', got['problems']))
    if want['bones'] != got['bones']:
        out.append(('bones', want['bones'], got['bones']))
    if sorted(want['frames']) != sorted(got['frames']):
        out.append(('frame times', sorted(want['frames']), sorted(got['frames'])))
    else:
        for time in sorted(want['frames']):
            we, ge = want['frames'][time], got['frames'][time]
            if len(we) != len(ge):
                out.append((f'frame {time} length', len(we), len(ge)))
                continue
            for i, (w, g) in enumerate(zip(we, ge)):
                if w[0] != g[0]:
                    out.append((f'frame {time}[{i}].bone', w[0], g[0]))
                if not all(close(a, b) for a, b in zip(w[1], g[1])):
                    out.append((f'frame {time}[{i}].position', w[1], g[1]))
                if not all(close_ang(a, b) for a, b in zip(w[2], g[2])):
                    out.append((f'frame {time}[{i}].rotation(deg)', w[2], g[2]))
    if len(want['tris']) != len(got['tris']):
        out.append(('triangle count', len(want['tris']), len(got['tris'])))
    else:
        for ti, ((wm, wv), (gm, gv)) in enumerate(zip(want['tris'], got['tris'])):
            if wm != gm:
                out.append((f'tri[{ti}].mat', wm, gm))
            for vi, (w, g) in enumerate(zip(wv, gv)):
                where = f'tri[{ti}].point{vi + 1}'
                if not all(close(a, b) for a, b in zip(w[0], g[0])):
                    out.append((where + '.pos', w[0], g[0]))
                if not all(close(a, b) for a, b in zip(w[1], g[1])):
                    out.append((where + '.norm', w[1], g[1]))
                if not close(w[2], g[2]):
                    out.append((where + '.tex_u', w[2], g[2]))
                if not close(w[3], g[3]):
                    out.append((where + '.tex_v', w[3], g[3]))
                if [b for b, _ in w[4]] != [b for b, _ in g[4]] or not all(
                        close(a[1], b[1]) for a, b in zip(w[4], g[4])):
                    out.append((where + '.links', w[4], g[4]))
    return out


# ---- independent canonical reader of the written bytes (numbers kept as printed text) ---------------------------

def canon(data: bytes):
    lines = data.decode('ascii').split('\n')
    pos = 0

    def nxt():
        nonlocal pos
        ln = lines[pos]
        pos += 1
        return ln
    if nxt() != 'version 1' or nxt() != 'nodes':
        raise ValueError('canon: bad header')
    idx_name = {}
    bones = {}
    while True:
        ln = nxt()
        if ln == 'end':
            break
        a = ln.index('"')
        b = ln.rindex('"')
        idx, name, parent = int(ln[:a]), ln[a + 1:b], int(ln[b + 1:])
        if idx in idx_name or name in bones:
            raise ValueError(f'canon: duplicate bone {ln!r}')
        idx_name[idx] = name
        bones[name] = None if parent == -1 else idx_name[parent]
    if nxt() != 'skeleton':
        raise ValueError('canon: no skeleton')
    frames = {}
    cur = None
    while True:
        ln = nxt()
        if ln == 'end':
            break
        if ln.startswith('time '):
            cur = frames.setdefault(int(ln[5:]), [])
            continue
        f = ln.split()
        cur.append([idx_name[int(f[0])]] + f[1:])
    tris = []
    if pos < len(lines) and lines[pos] == 'triangles':
        pos += 1
        while True:
            ln = nxt()
            if ln == 'end':
                break
            verts = []
            for _ in range(3):
                f = nxt().split()
                first = idx_name[int(f[0])]
                links = []
                if len(f) > 9:
                    cnt = int(f[9])
                    rest = f[10:]
                    if len(rest) != 2 * cnt:
                        raise ValueError(f'canon: link count mismatch {f!r}')
                    links = [[idx_name[int(rest[i])], rest[i + 1]] for i in range(0, len(rest), 2)]
                verts.append([first, f[1:9], links])
            tris.append([ln, verts])
    rest = [ln for ln in lines[pos:] if ln]
    return {'bones': bones, 'frames': frames, 'tris': tris, 'rest': rest}


def classify(bones, frames, tris, ctx) -> bool:
    n = len(bones)
    ctx.label('bones:' + ('1' if n == 1 else '2-3' if n <= 3 else '4+'))
    roots = sum(1 for _, p in bones if p is None)
    if roots > 1:
        ctx.label('several_roots')
    depth = {}
    by = dict(bones)

    def d(name):
        if name not in depth:
            depth[name] = 0 if by[name] is None else d(by[name]) + 1
        return depth[name]
    if max(d(b) for b, _ in bones) >= 2:
        ctx.label('bone_chain_depth>=2')
    seen = set()
    child_first = False
    for name, parent in bones:
        if parent is not None and parent not in seen:
            child_first = True
        seen.add(name)
    if child_first:
        ctx.label('child_before_parent_in_dict')
    if any(' ' in b for b, _ in bones):
        ctx.label('bone_name_with_space')
    ctx.label('frames:' + str(min(len(frames), 3)))
    if any(not e for e in frames.values()):
        ctx.label('empty_frame')
    if sorted(frames) != list(frames):
        ctx.label('frames_unsorted_in_dict')
    ctx.label('tris:' + ('0' if not tris else '1+'))
    link_counts = {len(v[4]) for _, vs in tris for v in vs}
    for c in sorted(link_counts):
        ctx.label(f'links:{c}')
    if any('\\' in m for m, _ in tris):
        ctx.label('material_backslash')
    if any('.' in m for m, _ in tris):
        ctx.label('material_dotted_dir')
    return n > 1 or bool(tris) or len(frames) > 1


def execute(desc, ctx):
    from srctools.smd import Mesh
    from srctools.math import Vec
    if 'ctor' in desc:
        if desc['ctor'] == 'blank':
            mesh = Mesh.blank(desc['root'])
            ctx.label('ctor:blank')
        else:
            mesh = Mesh.build_bbox(desc['root'], desc['mat'], Vec(*desc['mins']), Vec(*desc['maxs']))
            ctx.label('ctor:build_bbox')
        want = guard(ctx, 'constructors', walk, mesh)
        if want is None:
            return
        single_bone = True
        ctx.nontrivial(True)
    else:
        bones, frames, tris = resolve(desc)
        ctx.nontrivial(classify(bones, frames, tris, ctx))
        mesh = build(bones, frames, tris)
        want = guard(ctx, 'constructors', walk, mesh)
        if want is None:
            return
        # The constructed mesh must be what was asked for (exactly; only Angle normalisation may act, and the
        # generator keeps angles in [0, 360)).
        asked = {'bones': dict(bones), 'frames': frames, 'tris': tris, 'problems': []}
        dd = guard(ctx, 'constructors', compare, asked, want, exact=True)
        ctx.check(not dd, 'constructors', f'constructed Mesh differs from the request: {dd!r}')
        single_bone = len(bones) == 1

    buf = io.BytesIO()
    mesh.export(buf)
    data = buf.getvalue()
    dd = guard(ctx, 'no_mutation', lambda: compare(want, walk(mesh), exact=True))
    ctx.check(not dd, 'no_mutation', f'export() changed the Mesh: {dd!r}')

    parsed = Mesh.parse_smd(io.BytesIO(data).readlines())
    dd = guard(ctx, 'roundtrip', lambda: compare(want, walk(parsed), exact=False))
    if dd is None:
        return
    fields = sorted({f.rsplit('.', 1)[-1] for f, _, _ in dd})
    max_links = max([len(v[4]) for _, vs in want['tris'] for v in vs], default=0)
    if not ctx.check(not dd, 'roundtrip',
                     'Mesh.parse_smd(export(m)) differs:\n'
                     + '\n'.join(f'  {f}: want {a!r}\n  {" " * len(f)}   got {b!r}' for f, a, b in dd[:8])
                     + f'\n file:\n{data.decode("ascii", "replace")}', fields=fields, max_links=max_links):
        return

    buf2 = io.BytesIO()
    parsed.export(buf2)
    data2 = buf2.getvalue()
    same = data2 == data
    if single_bone:
        ctx.check(same, 'second_export_identical',
                  f'single-bone mesh: second-generation bytes differ:\n--- first\n{data.decode("ascii", "replace")}'
                  f'\n--- second\n{data2.decode("ascii", "replace")}')
    else:
        ctx.label('second_bytes_identical' if same else 'second_bytes_differ_only_in_bone_numbering')
        c1, c2 = canon(data), canon(data2)
        ctx.check(c1 == c2, 'second_export_canonical',
                  'second-generation output differs beyond bone numbering (independent re-reading keyed by bone name):\n'
                  f'--- first\n{data.decode("ascii", "replace")}\n--- second\n{data2.decode("ascii", "replace")}')
        ctx.check(not c1['rest'], 'second_export_canonical', f'unread trailing lines: {c1["rest"]!r}')


SUBS = [
    Sub('smd_roundtrip', execute, strategy=strategy, fixed=fixed, quick=800, thorough=15000, floor=150, quick_shards=8,
        must_hit=('bones:1', 'bones:2-3', 'bones:4+', 'bone_chain_depth>=2', 'child_before_parent_in_dict',
                  'several_roots', 'frames:0', 'frames:1', 'frames:3', 'links:1', 'links:2', 'links:3', 'tris:0',
                  'tris:1+', 'material_backslash', 'material_dotted_dir', 'bone_name_with_space', 'ctor:blank',
                  'ctor:build_bbox', 'frames_unsorted_in_dict')),
]
MATCHERS = {}
