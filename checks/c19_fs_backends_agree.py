"""C19 - all filesystem backends resolve names alike; chains honour priority (DESIGN.md section 2, C19).

A generated *file set* (paths with mixed case, nested folders, names that are prefixes of other names) is
materialised as VirtualFileSystem(dict), ZipFileSystem (written with zipfile), VPKFileSystem (written with
srctools.vpk on its well-tested path and re-read with the harness's own decoder) and RawFileSystem (a scratch
directory).  The oracle is the file-set descriptor itself:

* names:   `name in fs`, `fs[name]`, `open_bin`, `open_str` for every spelling (case variants, backslashes) and
           for absent names;
* walk_*:  `walk_folder(p)` lists exactly the files whose folder chain starts with folder `p` at a separator
           boundary, `list(fs)` == `walk_folder('')`, every listed name resolves and opens to its token;
* chain:   FileSystemChain of 1-4 members (constructor order, add_sys, priority=True, subfolder prefixes):
           first member in effective order wins, names are relative to the member's subfolder, walk_folder lists
           each name once, walk_folder_repeat once per containing member.

* case_dups: zip / VPK sets with names that differ only in case - self-consistency of walks, lookups and chains.

RawFileSystem is judged for exact-case spellings only (the host file system is case-sensitive).
"""
from __future__ import annotations

import io
import os
import shutil
import struct
import tempfile
import zipfile

from hypothesis import strategies as st

from vlib.core import HarnessError, Sub

PROPERTY = 'C19'
LEVEL = 'exploration'
RULE = (
    'Hypothesis generates file-set descriptors (0-12 paths, 0-3 folder levels, per-component case variants, folder and '
    'file names that are prefixes of one another, no two paths equal under case folding, one spelling per folded folder) '
    'and materialises them in the four backends; queries are derived from the set: every path in original / upper / '
    'lower / swapped-case / backslash / mixed-slash spelling, absent names, every folder in those spellings with and '
    'without trailing separator, folder-name prefixes and extensions, file paths used as folders, and the empty folder; '
    'chains of 1-4 members over a shared path pool with constructor/add_sys/priority insertion and subfolder prefixes. '
    'case_dups: zip/VPK file sets that hold names differing only in case (file, folder or whole path), directly and '
    'through 1-2 member chains, judged for self-consistency only (each folded name listed once, listed File == lookup of '
    'its name, all spellings give the same bytes), since which duplicate wins is unspecified. '
    'non-trivial = the set has a mixed-case path and two folders/paths where one name is a prefix of the other '
    '(chain: >= 2 members expose the same name); distinct = sha1 of the descriptor JSON'
)
ASSUMPTIONS = [
    'names are ASCII plus a few non-ASCII letters incl. characters with lower() != casefold() (VPK gets the ASCII part '
    'of the set); non-ASCII names are queried in their own spelling and with the case of ASCII letters changed only; '
    'components are non-empty, contain no separator and are '
    'neither "." nor ".." (but may contain consecutive dots: "a..b", "...", "..a"); no two paths are equal under case folding and no path is a folder of another '
    '(needed so that the same set is expressible in all four backends)',
    'each case-folded folder has one spelling inside one backend (a case-sensitive directory would otherwise hold '
    'two folders where the other backends see one)',
    'RawFileSystem is judged only for queries spelled in the exact case of the stored names (statement); queries '
    'whose case-folded form matches a stored name in another case are skipped for it',
    'walk_folder arguments are relative folder names without "." / ".." components; a trailing separator is allowed '
    '(srctools itself calls walk_folder("materials/") and the chain passes "<prefix>/")',
    'chain queries contain no ".." (escaping a member subfolder is not part of the statement)',
    'VPK v2 directory files are made by re-wrapping the v1 bytes srctools wrote (28-byte header, md5 trailer) and are '
    're-read with the harness decoder; zip members are stored, deflated or zip64 (all read through zipfile)',
    'VPK files are written with arch_index 0/1/None and the default dir_data_limit; every third file is 1.1-3 KiB so that '
    'data lands in numbered archives; the result is '
    're-read with an independent decoder before it is used',
]
TECHNIQUE = ('property-based testing (Hypothesis): differential testing of four backends against a reference model '
             '(the file-set descriptor); model-based chain order (list with append / insert(0))')
LEVEL_TEXT = ('Generated-input search: hundreds (quick) to tens of thousands (thorough) of file sets, each queried with '
              'dozens of spellings and folder prefixes in every backend and through generated chains, compared with the '
              'descriptor as reference model; held on everything explored, not a proof.')
LEVEL_NOTE = ('Trusts zipfile, tempfile, the host file system and the harness VPK decoder; ASCII names only; the directory '
              'backend only for exact-case spellings; POSIX host.')
CAPS = (300, 2400)

BACKENDS = ('virtual', 'zip', 'vpk', 'raw')

FOLDERS = ['materials', 'materials2', 'Materials_old', 'mat', 'a', 'b', 'bc', 'Models', 'sub', 'Sub2', 'x.d',
           'Stra\u00dfe', '\u00b5m',      # Strasse with sharp s, micro sign: lower() != casefold()
           # first character above U+FFFF (emoji, Deseret) or at the very top of the BMP (noncharacter U+FFFF,
           # U+FFFD, U+D7FF, private use U+E000): code-point order edge cases for sorted/bisected name tables
           '\U0001F600pics', '\U00010400deseret', '\uffffedge', '\ue000priv',
           # consecutive dots that are not a parent reference
           'v1..v2', '...', '..a', 'b..']
STEMS = ['b', 'bc', 'file', 'File2', 'materials', 'readme', 'X', 'a', 'sub',
         'Pflaster_\u00df', '5\u00b5m_Tone', '\u017ftart', '\ufb01le', '\u03c3\u03b1\u03c2', '\u00dcn\u00efcode', '\u03a9mega',
         '\U0001F600', '\U0001F3B5tune', 'mid\U00010428dle', '\ufffdrepl', '\ud7ffx', 'x\uffff', '\U0010FFFFlast',
         'wait..', 'notes..old', '..a', 'a..', '...', '. ', '.hidden', 'x...y']
EXTS = ['', '.txt', '.txt', '.vmt', '.VTF', '.tar.gz', '.d']
CASEMODES = ['asis', 'asis', 'asis', 'upper', 'lower', 'swap', 'title']

POOL_FOLDERS = ['a', 'ab', 'Sub']
# 'a', 'ab', 'Sub' without extension: the same path can be a file in one member and a folder in another
POOL_STEMS = ['x', 'xy', 'Y', 'a', 'Sub', 'ab']
POOL_EXTS = ['.txt', '.txt', '', '']


_ASCII_UP = {c: c.upper() for c in 'abcdefghijklmnopqrstuvwxyz'}
_ASCII_LO = {v: k for k, v in _ASCII_UP.items()}


def aupper(text: str) -> str:
    """Upper-case the ASCII letters only (nothing is stated about the case mapping of other characters)."""
    return ''.join(_ASCII_UP.get(c, c) for c in text)


def alower(text: str) -> str:
    return ''.join(_ASCII_LO.get(c, c) for c in text)


def aswap(text: str) -> str:
    return ''.join(_ASCII_UP.get(c) or _ASCII_LO.get(c) or c for c in text)


def recase(text: str, mode: str) -> str:
    if mode == 'upper':
        return text.upper()
    if mode == 'lower':
        return text.lower()
    if mode == 'swap':
        return text.swapcase()
    if mode == 'title':
        return text.title()
    return text


# ------------------------------------------------------------------------------------------------
# generation

def component(names):
    return st.tuples(st.sampled_from(names), st.sampled_from(CASEMODES)).map(lambda t: recase(t[0], t[1]))


def path_strategy(folders, stems, exts, max_depth=3):
    return st.tuples(
        st.lists(component(folders), max_size=max_depth),
        component(stems), component(exts),
    ).map(lambda t: '/'.join(t[0] + [t[1] + t[2]]))


def fileset_strategy(tier: str):
    return st.fixed_dictionaries({
        'paths': st.lists(path_strategy(FOLDERS, STEMS, EXTS), max_size=12),
        'virt_str': st.booleans(),          # VirtualFileSystem values given as str instead of bytes
        'zip_dirs': st.booleans(),          # zip also holds entries for the directories
        'zip_mem': st.booleans(),           # ZipFileSystem over an in-memory ZipFile object
        'vpk_single': st.sampled_from([False, False, True]),        # 'x.vpk' instead of 'x_dir.vpk'
        'vpk_v2': st.booleans(),            # directory file re-wrapped in the version 2 layout
        'zip_variant': st.sampled_from(['stored', 'deflated', 'zip64']),
        'qseed': st.integers(0, 1 << 16),   # rotates which extra (absent / prefix) queries are tried
    })


def chain_strategy(tier: str):
    member = st.fixed_dictionaries({
        'backend': st.sampled_from(BACKENDS + ('vpk',)),
        'pick': st.lists(st.integers(0, 63), min_size=0, max_size=8),
        'case': st.sampled_from(['orig', 'orig', 'upper', 'lower']),
        'prefix': st.one_of(st.none(), st.none(), st.integers(0, 15)),   # index into the member's folders
        'prefix_case': st.sampled_from(['orig', 'orig', 'orig', 'upper', 'lower']),
        'prefix_slash': st.booleans(),
        'how': st.sampled_from(['ctor', 'add', 'add', 'priority']),
        'v2': st.booleans(),                # a VPK member is re-wrapped in the version 2 layout
        'zipv': st.sampled_from(['stored', 'deflated', 'zip64']),
    })
    return st.fixed_dictionaries({
        'pool': st.lists(path_strategy(POOL_FOLDERS, POOL_STEMS, POOL_EXTS, max_depth=3), min_size=1, max_size=10),
        'members': st.one_of(st.lists(member, min_size=2, max_size=4), st.lists(member, min_size=3, max_size=4),
                             st.lists(member, min_size=1, max_size=1)),
        'qseed': st.integers(0, 1 << 16),
    })


# ------------------------------------------------------------------------------------------------
# the reference model

def vpk_storable(path: str) -> bool:
    """VPK names are ASCII and split into folder / name / extension; a name that does not survive that split
    (trailing dot, blank extension) cannot be stored, so the VPK backend is exempt from it (C13 judges VPK names)."""
    if not path.isascii():
        return False
    last = path.split('/')[-1]
    if '.' not in last:
        return last.strip() == last
    name, _, ext = last.rpartition('.')
    return ext != '' and name.strip() == name and ext.strip() == ext


def legal_query(q: str) -> bool:
    """Queries never contain '.' / '..' components or empty components (a trailing separator is fine)."""
    comps = q.replace('\\', '/').split('/')
    if comps and comps[-1] == '':
        comps = comps[:-1]
    return all(c not in ('', '.', '..') for c in comps) if comps else True


def fold(path: str) -> str:
    """The documented name equivalence: both slashes alike, letter case insignificant (ASCII names)."""
    return path.replace('\\', '/').casefold()


def normalise(paths, allow_clash: bool = False):
    """Make a generated path list a legal file set: unique under folding, one spelling per folded folder,
    no path that is also a folder.  Deterministic (first occurrence wins).  `allow_clash` keeps paths that are a
    file here and a folder there (for a pool from which every chain member takes its own, legal, subset)."""
    folder_spelling: dict[str, str] = {}
    files: dict[str, str] = {}
    for p in paths:
        comps = p.split('/')
        spelled = []
        cur = ''
        new_folders = {}
        for c in comps[:-1]:
            cur = (cur + '/' if cur else '') + c.casefold()
            known = folder_spelling.get(cur) or new_folders.get(cur)
            if known is None:
                known = c
                new_folders[cur] = c
            spelled.append(known)
        full = '/'.join(spelled + [comps[-1]])
        ffull = full.casefold()
        if ffull in files:
            continue
        if not allow_clash:
            if ffull in folder_spelling or ffull in new_folders:
                continue
            if any(f in files for f in list(new_folders) + [cur] if f):
                continue        # one of its folders is an existing file
        folder_spelling.update(new_folders)
        files[ffull] = full
    return list(files.values())


def expand_token(line: bytes, i: int) -> bytes:
    """Every third file is 1.1-3 KiB (the token line repeated, numbered), so that a VPK with the default 1 KiB
    dir_data_limit has to put its tail into a numbered archive; descriptors stay small."""
    if i % 3 != 1:
        return line
    size = 1100 + (i * 577) % 1900
    out = bytearray()
    k = 0
    while len(out) < size:
        out += b'%d:' % k + line
        k += 1
    return bytes(out)


class FileSet:
    """A legal file set with tokens; the oracle for one backend."""
    def __init__(self, paths, tag: str = '') -> None:
        self.paths = list(paths)
        self.tokens = {p: expand_token(f'DATA{tag} {i} {p}\n'.encode('utf8'), i) for i, p in enumerate(self.paths)}
        self.by_fold = {fold(p): p for p in self.paths}
        if len(self.by_fold) != len(self.paths):
            raise HarnessError(f'file set not unique under folding: {paths!r}')
        self.folders: dict[str, str] = {}       # folded folder path -> spelling
        for p in self.paths:
            comps = p.split('/')
            for i in range(1, len(comps)):
                f = '/'.join(comps[:i])
                old = self.folders.setdefault(fold(f), f)
                if old != f:
                    raise HarnessError(f'two spellings of one folder: {old!r} {f!r}')

    def under(self, folder: str):
        """Paths located inside `folder` (folded comparison at a separator boundary; '' = all)."""
        f = fold(folder).rstrip('/')
        if f == '':
            return list(self.paths)
        return [p for p in self.paths if fold(p).startswith(f + '/')]


def has_mixed_case(paths) -> bool:
    return any(p != p.lower() and p != p.upper() for p in paths)


def has_prefix_pair(fs: FileSet) -> bool:
    names = sorted(set(fs.folders) | set(fs.by_fold))
    for a in names:
        for b in names:
            if a != b and b.startswith(a) and not b.startswith(a + '/'):
                return True
    return False


# ------------------------------------------------------------------------------------------------
# backends

def decode_vpk_dir(path: str) -> dict[str, bytes]:
    """Independent reader for version 1 and 2 VPK directory files (data in preload, after the tree, in archives)."""
    with open(path, 'rb') as f:
        blob = f.read()
    sig, version, tree_len = struct.unpack_from('<III', blob, 0)
    if sig != 0x55AA1234 or version not in (1, 2):
        raise HarnessError(f'bad VPK header {sig:x} v{version}')
    pos = 12
    data_size = None
    if version == 2:
        data_size, md5a, md5o, sigsz = struct.unpack_from('<4I', blob, 12)
        pos = 28
        if pos + tree_len + data_size + md5a + md5o + sigsz != len(blob):
            raise HarnessError('VPK v2 section sizes do not add up to the file size')
    end = pos + tree_len

    def cstr():
        nonlocal pos
        z = blob.index(b'\0', pos)
        s = blob[pos:z].decode('ascii')
        pos = z + 1
        return s

    out: dict[str, bytes] = {}
    while True:
        ext = cstr()
        if ext == '':
            break
        while True:
            folder = cstr()
            if folder == '':
                break
            while True:
                name = cstr()
                if name == '':
                    break
                crc, preload, arch, offset, length, term = struct.unpack_from('<IHHIIH', blob, pos)
                pos += 18
                if term != 0xFFFF:
                    raise HarnessError(f'unexpected VPK entry {name!r}: len={length} term={term:x}')
                data = blob[pos:pos + preload]
                pos += preload
                if length:
                    if arch == 0x7FFF:
                        if data_size is not None and offset + length > data_size:
                            raise HarnessError('VPK v2 entry reaches beyond the embedded data section')
                        data += blob[end + offset:end + offset + length]
                    else:
                        if not path.endswith('_dir.vpk'):
                            raise HarnessError(f'archive index {arch} in a single-file VPK')
                        with open(f'{path[:-8]}_{arch:03}.vpk', 'rb') as af:
                            af.seek(offset)
                            data += af.read(length)
                full = (folder + '/' if folder != ' ' else '') + (name if name != ' ' else '') + ('.' + ext if ext != ' ' else '')
                out[full] = data
    if pos != end:
        raise HarnessError(f'VPK tree length {tree_len} but tree ends at {pos}')
    return out


def vpk_v1_to_v2(v1: bytes) -> bytes:
    """Re-wrap a version 1 directory file (as srctools writes it) in the version 2 layout, which srctools reads but
    never writes: 28-byte header (sig, 2, tree size, embedded data size, archive-md5 size, other-md5 size = 48,
    signature size), tree, embedded data, archive md5 entries, three md5 digests (tree, archive-md5 section, whole)."""
    import hashlib
    sig, version, tree_len = struct.unpack_from('<III', v1)
    if version != 1:
        raise HarnessError('expected a v1 VPK to re-wrap')
    tree = v1[12:12 + tree_len]
    data = v1[12 + tree_len:]
    archive_md5 = b''
    body = struct.pack('<7I', sig, 2, tree_len, len(data), len(archive_md5), 48, 0) + tree + data + archive_md5
    other = hashlib.md5(tree).digest() + hashlib.md5(archive_md5).digest()
    other += hashlib.md5(body + other).digest()
    return body + other


def scratch_parent():
    """Parent for the per-case mkdtemp(): a RAM-backed tmpfs when the host has one (the ext4 /tmp of this sandbox
    needs ~80 ms to create and remove a 25-file tree, tmpfs 1.5 ms); otherwise the tempfile default."""
    for cand in ('/dev/shm',):
        if os.path.isdir(cand) and os.access(cand, os.W_OK | os.X_OK):
            return cand
    return None


class Scratch:
    """One temporary directory per case; everything opened is closed and the directory removed."""
    def __init__(self) -> None:
        self.dir = tempfile.mkdtemp(prefix='verif_c19_', dir=scratch_parent())
        self.closers = []
        self.n = 0
        self.vpk_archived = False       # a VPK of this case keeps file data in a numbered archive
        self.notes: set[str] = set()    # histogram classes of the backend variants built for this case

    def sub(self, name: str) -> str:
        self.n += 1
        d = os.path.join(self.dir, f'{self.n}_{name}')
        os.mkdir(d)
        return d

    def close(self, ctx=None) -> None:
        if ctx is not None and self.vpk_archived:
            ctx.label('vpk:data_in_numbered_archive')
        if ctx is not None:
            ctx.label(*sorted(self.notes))
        for c in self.closers:
            try:
                c()
            except Exception:
                pass
        shutil.rmtree(self.dir, ignore_errors=True)


def make_backend(kind: str, fset: FileSet, scratch: Scratch, opts: dict):
    from srctools.filesys import RawFileSystem, VirtualFileSystem, VPKFileSystem, ZipFileSystem
    from srctools.vpk import VPK
    if kind == 'virtual':
        if opts.get('virt_str'):
            return VirtualFileSystem({p: fset.tokens[p].decode('utf8') for p in fset.paths})
        return VirtualFileSystem({p: fset.tokens[p] for p in fset.paths})
    d = scratch.sub(kind)
    if kind == 'zip':
        target = io.BytesIO() if opts.get('zip_mem') else os.path.join(d, 'files.zip')
        variant = opts.get('zip_variant', 'stored')
        scratch.notes.add('zip:' + variant)
        comp = zipfile.ZIP_STORED if variant == 'stored' else zipfile.ZIP_DEFLATED
        with zipfile.ZipFile(target, 'w', compression=comp) as zf:
            made = set()
            for p in fset.paths:
                if opts.get('zip_dirs'):
                    comps = p.split('/')
                    for i in range(1, len(comps)):
                        dn = '/'.join(comps[:i]) + '/'
                        if dn not in made:
                            made.add(dn)
                            zf.writestr(dn, b'')
                if variant == 'zip64':
                    with zf.open(zipfile.ZipInfo(p), 'w', force_zip64=True) as zw:
                        zw.write(fset.tokens[p])
                else:
                    zf.writestr(p, fset.tokens[p])
        if opts.get('zip_mem'):
            target.seek(0)
            zobj = zipfile.ZipFile(target)
            scratch.closers.append(zobj.close)
            return ZipFileSystem(os.path.join(d, 'memory.zip'), zobj)
        fs = ZipFileSystem(target)
        scratch.closers.append(fs.zip.close)
        return fs
    if kind == 'vpk':
        fname = os.path.join(d, 'pak.vpk' if opts.get('vpk_single') else 'pak_dir.vpk')
        vpk = VPK(fname, mode='w')
        tail = False
        for i, p in enumerate(fset.paths):
            # big files take turns: pak_000, pak_001, and the directory file itself after the tree (index None)
            where = (0, None, 1, None)[(i // 3 + len(fset.paths)) % 4]
            vpk.add_file(p, fset.tokens[p], arch_index=where)
            if len(fset.tokens[p]) > 1024 and not opts.get('vpk_single'):
                if where is None:
                    tail = True
                else:
                    scratch.vpk_archived = True
        vpk.write_dirfile()
        got = decode_vpk_dir(fname)
        want = {p: fset.tokens[p] for p in fset.paths}
        if got != want:
            raise HarnessError(f'VPK writer did not store the file set (a C13 matter): want {want!r} got {got!r}')
        if tail:
            scratch.notes.add('vpk:data_in_dir_tail')
        if opts.get('vpk_v2'):
            # format variant the reader accepts but the writer never produces
            with open(fname, 'rb') as f:
                v1 = f.read()
            with open(fname, 'wb') as f:
                f.write(vpk_v1_to_v2(v1))
            if decode_vpk_dir(fname) != want:
                raise HarnessError('harness v2 re-wrap does not decode to the file set')
            scratch.notes.add('vpk:v2')
            if tail:
                scratch.notes.add('vpk:v2_with_dir_tail')
        else:
            scratch.notes.add('vpk:v1')
        if set(os.listdir(d)) - {os.path.basename(fname), 'pak_000.vpk', 'pak_001.vpk'}:
            raise HarnessError(f'VPK writer made extra files: {os.listdir(d)!r}')
        return VPKFileSystem(fname)
    if kind == 'raw':
        for p in fset.paths:
            full = os.path.join(d, p)
            os.makedirs(os.path.dirname(full), exist_ok=True)
            with open(full, 'wb') as f:
                f.write(fset.tokens[p])
        return RawFileSystem(d)
    raise HarnessError(kind)


# ------------------------------------------------------------------------------------------------
# query construction

def mixed_slashes(path: str) -> str:
    out = []
    n = 0
    for ch in path:
        if ch == '/':
            n += 1
            ch = '\\' if n % 2 else '/'
        out.append(ch)
    return ''.join(out)


def spellings(path: str):
    """(label, text) for every query spelling of a stored name."""
    res = [('orig', path), ('upper', aupper(path)), ('lower', alower(path)), ('swap', aswap(path))]
    if '/' in path:
        res.append(('backslash', path.replace('/', '\\')))
        res.append(('backslash_upper', aupper(path).replace('/', '\\')))
        if path.count('/') > 1:
            res.append(('mixed_slash', mixed_slashes(path)))
    return res


def rotate(items, seed: int, limit: int):
    items = list(dict.fromkeys(items))
    if not items:
        return items
    k = seed % len(items)
    return (items[k:] + items[:k])[:limit]


def absent_names(fset: FileSet, seed: int):
    cand = ['nope.txt', 'missing/nope.txt']
    for p in fset.paths:
        cand += [p + 'x', p[:-1], p + '/x.txt', 'zz/' + p, p.rsplit('.', 1)[0], p.split('/')[-1]]
    for f in fset.folders.values():
        cand += [f, f + '.txt', f + '/', aupper(f)]
    cand = [c for c in cand if c and fold(c).rstrip('/') not in fset.by_fold and not c.startswith('/') and legal_query(c)]
    return rotate(cand, seed, 14)


def folder_queries(fset: FileSet, seed: int):
    """(label, text) folder arguments for walk_folder."""
    res = [('all', '')]
    extra = []
    for f in fset.folders.values():
        res += [('exact', f), ('exact_slash', f + '/')]
        extra += [('upper', aupper(f)), ('lower', alower(f)), ('swap', aswap(f)), ('upper_slash', aupper(f) + '/')]
        if '/' in f:
            extra += [('backslash', f.replace('/', '\\')), ('backslash_trail', f.replace('/', '\\') + '\\')]
        else:
            extra += [('trail_backslash', f + '\\')]
        extra += [('name_prefix', f[:-1]), ('name_extended', f + '2'), ('name_extended', f + 'x'),
                  ('name_prefix', f[:max(1, len(f) // 2)])]
    for p in fset.paths:
        extra += [('file_as_folder', p), ('file_stem', p.rsplit('.', 1)[0]), ('name_prefix', p[:-1])]
    extra.append(('absent', 'nothere'))
    extra = [(lab, q) for lab, q in extra if q and not q.startswith(('/', '\\')) and legal_query(q)]
    seen = set()
    out = []
    for lab, q in res + rotate(extra, seed, 24):
        if q not in seen:
            seen.add(q)
            out.append((lab, q))
    return out


def raw_judgeable(fset: FileSet, q: str) -> bool:
    """RawFileSystem is only judged when every stored name the query could mean is spelled exactly so."""
    nq = q.replace('\\', '/').rstrip('/')
    fq = fold(nq)
    if fq in fset.by_fold:
        return fset.by_fold[fq] == nq
    if fq in fset.folders:
        return fset.folders[fq] == nq
    # not a stored name: every leading folder that exists must be spelled exactly, too (else the host could
    # legitimately fail earlier or later - irrelevant for the answer, which is "absent" either way)
    return True


def classify(ctx, fset: FileSet) -> None:
    mixed = has_mixed_case(fset.paths)
    pref = has_prefix_pair(fset)
    if mixed:
        ctx.label('mixed_case')
    if pref:
        ctx.label('prefix_pair')
    if any(p.lower() != p.casefold() for p in fset.paths):
        ctx.label('name:lower_ne_casefold')
    if any(not p.isascii() for p in fset.paths):
        ctx.label('name:non_ascii')
    comps = [c for p in fset.paths for c in p.split('/')]
    if any(ord(c[0]) > 0xFFFF for c in comps):
        ctx.label('name:astral_first')
    if any(0xD7FF <= ord(c[0]) <= 0xFFFF for c in comps):
        ctx.label('name:bmp_top_first')
    if any('..' in c for c in comps):
        ctx.label('name:consecutive_dots')
    if any('..' in c for p in fset.paths for c in p.split('/')[:-1]):
        ctx.label('name:consecutive_dots_folder')
    if not fset.paths:
        ctx.label('empty_set')
    depth = max((p.count('/') for p in fset.paths), default=0)
    ctx.label(f'depth:{depth}')
    ctx.nontrivial(mixed and pref)


# ------------------------------------------------------------------------------------------------
# names: membership and bytes

def read_all(fobj) -> bytes:
    with fobj:
        data = fobj.read()
    return data.encode('utf8') if isinstance(data, str) else data


def check_present(ctx, fs, backend: str, q: str, want: bytes, spelling: str) -> None:
    from srctools.filesys import File
    facts = {'backend': backend, 'spelling': spelling, 'query': q}
    pre = f'{backend}: stored name queried as {q!r} ({spelling})'
    if not ctx.check(q in fs, 'membership', f'{pre}: `in` says absent', op='in', **facts):
        return
    try:
        f = fs[q]
    except FileNotFoundError:
        ctx.fail('membership', f'{pre}: fs[...] raised FileNotFoundError', op='getitem', **facts)
        return
    ctx.check(isinstance(f, File), 'membership', f'{pre}: fs[...] returned {f!r}', op='getitem', **facts)
    got = read_all(f.open_bin())
    ctx.check(got == want, 'bytes', f'{pre}: File.open_bin() gave {got!r}, want {want!r}', op='File.open_bin', **facts)
    got = read_all(f.open_str())
    ctx.check(got == want, 'bytes', f'{pre}: File.open_str() gave {got!r}, want {want!r}', op='File.open_str', **facts)
    for op in ('open_bin', 'open_str'):
        try:
            got = read_all(getattr(fs, op)(q))
        except FileNotFoundError:
            ctx.fail('membership', f'{pre}: fs.{op}() raised FileNotFoundError', op=op, **facts)
            continue
        ctx.check(got == want, 'bytes', f'{pre}: fs.{op}() gave {got!r}, want {want!r}', op=op, **facts)


def check_absent(ctx, fs, backend: str, q: str) -> None:
    facts = {'backend': backend, 'spelling': 'absent', 'query': q}
    pre = f'{backend}: absent name {q!r}'
    ctx.check(not (q in fs), 'membership', f'{pre}: `in` says present', op='in', **facts)
    try:
        f = fs[q]
    except FileNotFoundError:
        pass
    else:
        ctx.fail('membership', f'{pre}: fs[...] returned {f.path!r}', op='getitem', **facts)
    for op in ('open_bin', 'open_str'):
        try:
            fobj = getattr(fs, op)(q)
        except FileNotFoundError:
            continue
        except OSError:
            if backend == 'raw':      # e.g. IsADirectoryError from the host
                continue
            raise
        got = read_all(fobj)
        ctx.fail('membership', f'{pre}: fs.{op}() returned {got!r}', op=op, **facts)


def execute_names(desc, ctx):
    fset = FileSet(normalise(desc['paths']))
    classify(ctx, fset)
    scratch = Scratch()
    try:
        full_set = fset
        # both VPK header versions every time: the generated flag first, then the other one
        v2 = bool(desc.get('vpk_v2'))
        for backend, opts in (('virtual', desc), ('zip', desc), ('vpk', dict(desc, vpk_v2=v2)),
                              ('vpk', dict(desc, vpk_v2=not v2)), ('raw', desc)):
            # VPK names must be ASCII: that backend gets the ASCII part of the set
            fset = full_set if backend != 'vpk' else FileSet([p for p in full_set.paths if vpk_storable(p)])
            fs = make_backend(backend, fset, scratch, opts)
            if backend == 'vpk':
                backend = 'vpk(v2)' if opts['vpk_v2'] else 'vpk(v1)'
            for p in fset.paths:
                for lab, q in spellings(p):
                    if backend == 'raw' and not raw_judgeable(fset, q):
                        ctx.label('raw_skipped_case')
                        continue
                    ctx.label('spelling:' + lab)
                    check_present(ctx, fs, backend, q, fset.tokens[p], lab)
            for q in absent_names(fset, desc['qseed']):
                if backend == 'raw' and '\\' in q:
                    continue
                ctx.label('absent')
                check_absent(ctx, fs, backend, q)
    finally:
        scratch.close(ctx)


# ------------------------------------------------------------------------------------------------
# walk: one sub-check per backend

def check_walk(ctx, fs, fset: FileSet, backend: str, lab: str, q: str) -> None:
    facts = {'backend': backend, 'folder_kind': lab, 'folder': q}
    want = sorted(fold(p) for p in fset.under(q))
    files = list(fs.walk_folder(q))
    got = sorted(fold(f.path) for f in files)
    if got != want:
        missing = [p for p in want if p not in got]
        extra = [p for p in got if p not in want]
        dup = len(set(got)) != len(got)
        kind = 'missing' if missing and not extra else 'extra' if extra and not missing else 'both'
        # a separate clause name when the argument names no folder of the set (nothing can be "inside" it)
        is_folder = q.replace('\\', '/').rstrip('/') == '' or fold(q).rstrip('/') in fset.folders
        ctx.fail('listing' if is_folder else 'listing_not_a_folder',
                 f'{backend}: walk_folder({q!r}) [{lab}] over {fset.paths!r}\n want {want!r}\n got  {got!r}\n '
                 f'missing {missing!r} extra {extra!r}{" duplicates" if dup else ""}',
                 kind=kind, **facts)
        return
    if want:
        ctx.label('walk_nonempty:' + lab)
    for f in files:
        p = fset.by_fold[fold(f.path)]
        tok = fset.tokens[p]
        pre = f'{backend}: walk_folder({q!r}) listed {f.path!r}'
        got_b = read_all(f.open_bin())
        ctx.check(got_b == tok, 'listed_bytes', f'{pre}: File.open_bin() gave {got_b!r}, want {tok!r}', **facts)
        got_b = read_all(f.open_str())
        ctx.check(got_b == tok, 'listed_bytes', f'{pre}: File.open_str() gave {got_b!r}, want {tok!r}', **facts)
        if not ctx.check(f.path in fs, 'listed_lookup', f'{pre} but `{f.path!r} in fs` is False', **facts):
            continue
        try:
            got_b = read_all(fs[f.path].open_bin())
        except FileNotFoundError:
            ctx.fail('listed_lookup', f'{pre} but fs[{f.path!r}] raises FileNotFoundError', **facts)
            continue
        ctx.check(got_b == tok, 'listed_bytes', f'{pre}: fs[path] opened to {got_b!r}, want {tok!r}', **facts)


def make_walk_execute(backend: str):
    def execute_walk(desc, ctx):
        fset = FileSet(normalise(desc['paths']))
        classify(ctx, fset)
        if backend == 'vpk':        # VPK names must be ASCII
            fset = FileSet([p for p in fset.paths if vpk_storable(p)])
        scratch = Scratch()
        try:
            fs = make_backend(backend, fset, scratch, desc)
            it = sorted(fold(f.path) for f in fs)
            want = sorted(fold(p) for p in fset.paths)
            ctx.check(it == want, 'iter', f'{backend}: list(fs) over {fset.paths!r}\n want {want!r}\n got  {it!r}',
                      backend=backend, folder_kind='iter', folder='')
            for lab, q in folder_queries(fset, desc['qseed']):
                if backend == 'raw' and not raw_judgeable(fset, q):
                    ctx.label('raw_skipped_case')
                    continue
                ctx.label('folder:' + lab)
                check_walk(ctx, fs, fset, backend, lab, q)
        finally:
            scratch.close(ctx)
    execute_walk.__name__ = 'execute_walk_' + backend
    return execute_walk


# ------------------------------------------------------------------------------------------------
# chain

class Member:
    def __init__(self, index: int, md: dict, pool: list[str]) -> None:
        self.index = index
        self.backend = md['backend']
        picked = [pool[i % len(pool)] for i in md['pick']]
        case = md['case']
        paths = normalise([recase(p, case) if case != 'orig' else p for p in dict.fromkeys(picked)])
        self.fset = FileSet(paths, tag=f'-m{index}')
        folders = sorted(self.fset.folders.values())
        self.prefix = ''            # canonical spelling (as stored), no trailing slash
        self.prefix_arg = ''        # what is handed to the chain
        if md['prefix'] is not None:
            cand = folders + ['nothere']
            self.prefix = cand[md['prefix'] % len(cand)]
            arg = self.prefix
            if self.backend != 'raw':
                arg = recase(arg, md['prefix_case']) if md['prefix_case'] != 'orig' else arg
            if md['prefix_slash']:
                arg += '/'
            self.prefix_arg = arg
        self.how = md['how']

    def visible(self) -> dict[str, str]:
        """folded chain-relative name -> stored path."""
        if not self.prefix:
            return {fold(p): p for p in self.fset.paths}
        fp = fold(self.prefix) + '/'
        return {fold(p)[len(fp):]: p for p in self.fset.paths if fold(p).startswith(fp)}

    def has(self, name: str):
        """True / False / None (= directory backend asked in another case: not specified)."""
        full = (self.prefix_arg.rstrip('/') + '/' if self.prefix_arg else '') + name.replace('\\', '/')
        stored = self.fset.by_fold.get(fold(full))
        if stored is None:
            return False
        if self.backend == 'raw' and stored != full:
            return None
        return True

    def listing(self, folder: str):
        """Stored paths this member contributes to a walk of `folder`, or None if not specified (raw, case)."""
        full = (self.prefix_arg.rstrip('/') + '/' if self.prefix_arg else '') + folder.replace('\\', '/')
        full = full.rstrip('/')
        if self.backend == 'raw' and not raw_judgeable(self.fset, full):
            return None
        return self.fset.under(full)

    def rel(self, stored: str) -> str:
        return stored[len(self.prefix) + 1:] if self.prefix else stored


def execute_chain(desc, ctx):
    """A history: constructor, then add_sys() calls interleaved with query rounds; every round is judged against the
    first-member-wins model of the chain as it is at that moment."""
    from srctools.filesys import FileSystemChain
    pool = normalise(desc['pool'], allow_clash=True)
    members = [Member(i, md, pool) for i, md in enumerate(desc['members'])]
    scratch = Scratch()
    try:
        systems = [make_backend(m.backend, m.fset, scratch, {'vpk_v2': md.get('v2', False), 'zip_variant': md.get('zipv', 'stored')})
                   for m, md in zip(members, desc['members'])]
        n_ctor = 0
        while n_ctor < len(members) and members[n_ctor].how == 'ctor':
            n_ctor += 1
        args = []
        for m, fs in zip(members[:n_ctor], systems):
            args.append((fs, m.prefix_arg) if m.prefix_arg else fs)
        chain = FileSystemChain(*args)
        order = list(members[:n_ctor])

        for m in members:
            ctx.label('member:' + m.backend)
            if m.prefix_arg:
                ctx.label('prefixed_member')
                if fold(m.prefix_arg.rstrip('/')) == fold(m.prefix) and m.prefix_arg.rstrip('/') != m.prefix:
                    ctx.label('prefix_other_case')
        ctx.label(f'members:{len(members)}')

        # --- the universe of queries comes from ALL members, so that names are also asked before they exist
        final_vis = [m.visible() for m in members]
        universe = []
        for m, v in zip(members, final_vis):
            for name, stored in v.items():
                universe.extend(spellings(m.rel(stored)))
        universe = list(dict.fromkeys(universe))
        absent = ['nope.txt']
        for m in members:
            absent += list(m.fset.paths)        # stored names are not visible through a prefixed member
            absent += [p + 'x' for p in m.fset.paths[:2]]
            absent += list(m.fset.folders.values())     # a folder is not a file, whatever the member kind
        folder_universe = []
        seen_folders = set()
        for m, v in zip(members, final_vis):
            for name, stored in v.items():
                rel = m.rel(stored)
                comps = rel.split('/')
                for i in range(1, len(comps)):
                    f = '/'.join(comps[:i])
                    if fold(f) in seen_folders:
                        continue
                    seen_folders.add(fold(f))
                    folder_universe += [('exact', f), ('exact_slash', f + '/'), ('upper', f.upper()), ('name_prefix', f[:-1]),
                                        ('name_extended', f + '2'), ('backslash', f.replace('/', '\\'))]
        folder_universe = [(lab, q) for lab, q in folder_universe if q]
        shared_names: dict[str, int] = {}
        for v in final_vis:
            for name in v:
                shared_names[name] = shared_names.get(name, 0) + 1
        shared = any(n > 1 for n in shared_names.values())
        if shared:
            ctx.label('shared_name')
        ctx.nontrivial(shared and len(members) >= 2)
        asked_while_absent: set[str] = set()

        def describe():
            return f'chain {[(x.backend, x.prefix_arg, x.fset.paths) for x in order]!r}'

        def winner(q: str):
            """(member, stored path) | None (absent) | 'unspecified'."""
            for m in order:
                h = m.has(q)
                if h is None:
                    return 'unspecified'
                if h:
                    full = (m.prefix_arg.rstrip('/') + '/' if m.prefix_arg else '') + q.replace('\\', '/')
                    return m, m.fset.by_fold[fold(full)]
            return None

        def note_clash(q: str, upto) -> None:
            """Label queries where a member searched before the winner has the name as a folder, or has a file that is a
            parent component of the name."""
            for m in order:
                if m is upto:
                    break
                full = fold((m.prefix_arg.rstrip('/') + '/' if m.prefix_arg else '') + q.replace('\\', '/'))
                comps = full.split('/')
                parents = {'/'.join(comps[:i]) for i in range(1, len(comps))}
                if full in m.fset.folders or parents & set(m.fset.by_fold):
                    ctx.label('chain:folder_file_clash')
                    ctx.label('chain:folder_file_clash_' + m.backend)
                    if upto is not None:
                        ctx.label('chain:clash_' + m.backend + '_ahead_of_winner')
                    return

        def check_order(step: str) -> None:
            got_order = [(s_, p_) for s_, p_ in chain.systems]
            want_order = [(systems[m.index], m.prefix_arg) for m in order]
            ctx.check(len(got_order) == len(want_order)
                      and all(x[0] is y[0] and x[1] == y[1] for x, y in zip(got_order, want_order)),
                      'order', f'{step}: chain.systems order {[p_ for _, p_ in got_order]!r} != model '
                      f'{[m.prefix_arg for m in order]!r}')

        def expect_absent(q: str, step: str, lab: str) -> None:
            facts = {'spelling': lab, 'query': q, 'step': step}
            ctx.check(not (q in chain), 'chain_lookup', f'{step}: {describe()}: {q!r} is visible through no member but '
                      f'`in` says present', **facts)
            for op in ('getitem', 'open_bin', 'open_str'):
                try:
                    if op == 'getitem':
                        chain[q]
                    else:
                        getattr(chain, op)(q).close()
                except FileNotFoundError:
                    continue
                ctx.fail('chain_lookup', f'{step}: {describe()}: {q!r} is visible through no member but {op} found it', **facts)

        def query_round(step: str, rnd: int) -> None:
            # --- lookups
            for lab, q in rotate(universe, desc['qseed'] + 7 * rnd, 28):
                w = winner(q)
                if w == 'unspecified':
                    ctx.label('raw_skipped_case')
                    continue
                if w is None:
                    ctx.label('lookup:not_yet_visible')
                    note_clash(q, None)
                    asked_while_absent.add(fold(q))
                    expect_absent(q, step, lab)
                    continue
                m, stored = w
                ctx.label('lookup:' + lab)
                note_clash(q, m)
                facts = {'spelling': lab, 'query': q, 'winner_backend': m.backend, 'step': step}
                pre = (f'{step}: {describe()}: {q!r} ({lab}) should come from member #{m.index} ({m.backend}, prefix '
                       f'{m.prefix_arg!r}, stored {stored!r})')
                if not ctx.check(q in chain, 'chain_lookup', f'{pre}: `in` says absent', **facts):
                    continue
                try:
                    f = chain[q]
                except FileNotFoundError:
                    ctx.fail('chain_lookup', f'{pre}: chain[...] raised FileNotFoundError', **facts)
                    continue
                want = m.fset.tokens[stored]
                for what, data in (('File.open_bin', read_all(f.open_bin())), ('File.open_str', read_all(f.open_str())),
                                   ('chain.open_bin', read_all(chain.open_bin(q))),
                                   ('chain.open_str', read_all(chain.open_str(q)))):
                    ctx.check(data == want, 'chain_priority', f'{pre}: {what} gave {data!r}, want {want!r}', **facts)
                if fold(f.path) != fold(q):
                    ctx.label('note:chain_lookup_path_keeps_prefix')
            for q in rotate(absent, desc['qseed'] + rnd, 8):
                if winner(q) is not None:
                    continue
                ctx.label('lookup:absent')
                note_clash(q, None)
                asked_while_absent.add(fold(q))
                expect_absent(q, step, 'absent')

            # --- walks
            done = set()
            for lab, q in [('all', '')] + rotate(folder_universe, desc['qseed'] + 5 * rnd, 8):
                if q in done:
                    continue
                done.add(q)
                lists = [m.listing(q) for m in order]
                if any(x is None for x in lists):
                    ctx.label('raw_skipped_case')
                    continue
                ctx.label('walk:' + lab)
                facts = {'folder_kind': lab, 'folder': q, 'step': step}
                want_rep = []
                first: dict[str, tuple] = {}
                for m, lst in zip(order, lists):
                    for stored in lst:
                        name = fold(m.rel(stored))
                        want_rep.append(name)
                        first.setdefault(name, (m, stored))
                pre = f'{step}: {describe()}: '
                rep = list(chain.walk_folder_repeat(q))
                got_rep = [fold(f.path) for f in rep]
                if not ctx.check(sorted(got_rep) == sorted(want_rep), 'chain_walk_repeat',
                                 f'{pre}walk_folder_repeat({q!r}) [{lab}]\n want {sorted(want_rep)!r}\n got  {sorted(got_rep)!r}',
                                 **facts):
                    continue
                once = list(chain.walk_folder(q))
                got_once = [fold(f.path) for f in once]
                if not ctx.check(sorted(got_once) == sorted(first), 'chain_walk_dedup',
                                 f'{pre}walk_folder({q!r}) [{lab}]\n want {sorted(first)!r}\n got  {sorted(got_once)!r}', **facts):
                    continue
                if len(want_rep) > len(first):
                    ctx.label('walk_deduplicated')
                seen_rep = set()
                for f in rep:
                    name = fold(f.path)
                    if name in seen_rep:
                        continue
                    seen_rep.add(name)
                    m, stored = first[name]
                    data = read_all(f.open_bin())
                    ctx.check(data == m.fset.tokens[stored], 'chain_walk_priority',
                              f'{pre}walk_folder_repeat({q!r}): first {f.path!r} opened to {data!r}, the highest-priority '
                              f'member holds {m.fset.tokens[stored]!r}', **facts)
                for f in once:
                    m, stored = first[fold(f.path)]
                    want = m.fset.tokens[stored]
                    data = read_all(f.open_bin())
                    ctx.check(data == want, 'chain_walk_priority',
                              f'{pre}walk_folder({q!r}): {f.path!r} opened to {data!r}, want {want!r}', **facts)
                    # the listed name resolves through the chain (raw members: only if spelled exactly)
                    w = winner(f.path)
                    if w == 'unspecified':
                        continue
                    if not ctx.check(w is not None and f.path in chain, 'chain_listed_lookup',
                                     f'{pre}walk_folder({q!r}) listed {f.path!r} but `in` says absent', **facts):
                        continue
                    try:
                        data = read_all(chain[f.path].open_bin())
                    except FileNotFoundError:
                        ctx.fail('chain_listed_lookup', f'{pre}walk_folder({q!r}) listed {f.path!r} but chain[...] raises '
                                 f'FileNotFoundError', **facts)
                        continue
                    ctx.check(data == want, 'chain_listed_lookup',
                              f'{pre}walk_folder({q!r}) listed {f.path!r}; chain[...] opened to {data!r}, want {want!r}', **facts)

        # --- the history
        check_order('after constructor')
        query_round(f'round 0 (constructor with {n_ctor} members)', 0)
        for k, (m, fs) in enumerate(zip(members[n_ctor:], systems[n_ctor:]), start=1):
            if m.how == 'priority':
                chain.add_sys(fs, m.prefix_arg, priority=True)
                order.insert(0, m)
                ctx.label('priority_insert')
                if asked_while_absent & set(final_vis[m.index]):
                    ctx.label('chain:query_before_priority_insert')
            else:
                chain.add_sys(fs, m.prefix_arg)
                order.append(m)
                if asked_while_absent & set(final_vis[m.index]):
                    ctx.label('chain:query_before_append')
            step = f'round {k} (after add_sys(#{m.index} {m.backend}, {m.prefix_arg!r}, priority={m.how == "priority"}))'
            check_order(step)
            query_round(step, k)
    finally:
        scratch.close(ctx)


# ------------------------------------------------------------------------------------------------
# case_dups: file sets that hold names differing only in letter case (zip and VPK can store them)

DUP_FOLDERS = ['scripts', 'Materials', 'a', 'ab']
DUP_STEMS = ['sounds', 'Sounds', 'x', 'b', 'readme']
DUP_EXTS = ['.txt', '.txt', '', '.VMT']


def casedup_strategy(tier: str):
    return st.fixed_dictionaries({
        'paths': st.lists(path_strategy(DUP_FOLDERS, DUP_STEMS, DUP_EXTS, max_depth=2), min_size=1, max_size=7),
        # [index of the path to duplicate, which part gets another case, how]
        'variants': st.lists(st.tuples(st.integers(0, 15), st.sampled_from(['file', 'file', 'folder', 'all']),
                                       st.sampled_from(['upper', 'lower', 'swap', 'title'])).map(list),
                             min_size=1, max_size=5),
        'backend': st.sampled_from(['zip', 'vpk', 'vpk']),
        'zip_dirs': st.booleans(), 'zip_mem': st.booleans(), 'vpk_single': st.booleans(), 'vpk_v2': st.booleans(),
        'zip_variant': st.sampled_from(['stored', 'deflated', 'zip64']),
        'chain': st.sampled_from(['single', 'twice', 'zip+vpk', 'vpk+zip']),
    })


def casedup_paths(desc) -> list[str]:
    """Base paths plus case variants; exact duplicates dropped; no name that is also a folder (under folding)."""
    cand = list(desc['paths'])
    for idx, scope, mode in desc['variants']:
        p = cand[idx % len(desc['paths'])]
        head, _, tail = p.rpartition('/')
        if scope == 'file':
            v = (head + '/' if head else '') + recase(tail, mode)
        elif scope == 'folder':
            v = (recase(head, mode) + '/' if head else '') + tail
        else:
            v = recase(p, mode)
        cand.append(v)
    out: list[str] = []
    files: set[str] = set()
    folders: set[str] = set()
    for p in dict.fromkeys(cand):
        fp = fold(p)
        comps = fp.split('/')
        mine = {'/'.join(comps[:i]) for i in range(1, len(comps))}
        if fp in folders or mine & files:
            continue
        out.append(p)
        files.add(fp)
        folders |= mine
    return out


def execute_case_dups(desc, ctx):
    from srctools.filesys import FileSystemChain
    paths = casedup_paths(desc)
    tokens = {p: f'DUP {i} {p}\n'.encode('ascii') for i, p in enumerate(paths)}
    groups: dict[str, list[str]] = {}
    for p in paths:
        groups.setdefault(fold(p), []).append(p)
    folder_spellings: dict[str, set] = {}
    for p in paths:
        comps = p.split('/')
        for i in range(1, len(comps)):
            f = '/'.join(comps[:i])
            folder_spellings.setdefault(fold(f), set()).add(f)
    dup_file = any(len(g) > 1 for g in groups.values())
    dup_folder = any(len(v) > 1 for v in folder_spellings.values())
    if dup_file:
        ctx.label('has_case_dup_file')
    if dup_folder:
        ctx.label('has_case_dup_folder')
    ctx.label('backend:' + desc['backend'])
    ctx.label('chain:' + desc['chain'])
    ctx.nontrivial(dup_file)

    class Plain:        # make_backend() wants a FileSet-like object
        pass
    fset = Plain()
    fset.paths, fset.tokens = paths, tokens

    def under(folder: str):
        f = fold(folder).rstrip('/')
        return sorted(n for n in groups if f == '' or n.startswith(f + '/'))

    folder_qs = ['']
    for ff, spells in sorted(folder_spellings.items()):
        folder_qs += sorted(spells) + [ff, ff.upper() + '/']
    folder_qs = list(dict.fromkeys(folder_qs))

    scratch = Scratch()
    try:
        backend = desc['backend']
        fs = make_backend(backend, fset, scratch, desc)
        what = f'{backend} holding {paths!r}'

        # --- lookups: every spelling gives the same bytes, and they are one of the group's contents
        for name, group in groups.items():
            seen: dict[bytes, str] = {}
            sp = []
            for g in group:
                sp += [q for _, q in spellings(g)]
            for q in dict.fromkeys(sp):
                facts = {'backend': backend, 'query': q}
                if not ctx.check(q in fs, 'dup_membership', f'{what}: {q!r} reported absent', **facts):
                    continue
                for op, data in (('getitem', read_all(fs[q].open_bin())), ('open_bin', read_all(fs.open_bin(q))),
                                 ('open_str', read_all(fs.open_str(q)))):
                    ctx.check(data in [tokens[g] for g in group], 'dup_foreign_bytes',
                              f'{what}: {op} {q!r} gave {data!r}, not the content of any of {group!r}', **facts)
                    seen.setdefault(data, f'{op} {q!r}')
            ctx.check(len(seen) <= 1, 'dup_lookup_inconsistent',
                      f'{what}: spellings of one name give different files: {seen!r}', backend=backend, query=name)

        # --- walks
        def check_listing(label: str, obj, q: str, lookup) -> None:
            files = list(obj.walk_folder(q))
            got = sorted(fold(f.path) for f in files)
            facts = {'backend': backend, 'via': label, 'folder': q}
            if not ctx.check(len(set(got)) == len(got), 'dup_listed_twice',
                             f'{label} {what}: walk_folder({q!r}) lists a name more than once: {[f.path for f in files]!r}',
                             **facts):
                return
            if not ctx.check(got == under(q), 'dup_listing',
                             f'{label} {what}: walk_folder({q!r})\n want {under(q)!r}\n got  {got!r}', **facts):
                return
            for f in files:
                data = read_all(f.open_bin())
                ctx.check(data in [tokens[g] for g in groups[fold(f.path)]], 'dup_foreign_bytes',
                          f'{label} {what}: listed {f.path!r} opens to {data!r}', **facts)
                if not ctx.check(f.path in obj, 'dup_listed_lookup',
                                 f'{label} {what}: walk_folder({q!r}) listed {f.path!r} but `in` says absent', **facts):
                    continue
                again = read_all(lookup(f.path).open_bin())
                ctx.check(again == data, 'dup_listed_inconsistent',
                          f'{label} {what}: walk_folder({q!r}) listed {f.path!r} which opens to {data!r}, but looking that '
                          f'name up gives {again!r}', **facts)

        for q in folder_qs:
            check_listing('direct', fs, q, lambda n: fs[n])
        it = sorted(fold(f.path) for f in fs)
        ctx.check(it == sorted(groups), 'dup_iter', f'{what}: list(fs) gives {it!r}, want each of {sorted(groups)!r} once',
                  backend=backend)

        # --- through a chain
        kind = desc['chain']
        if kind == 'single':
            members = [fs]
        elif kind == 'twice':
            members = [fs, make_backend(backend, fset, scratch, desc)]
        else:
            other = 'vpk' if backend == 'zip' else 'zip'
            second = make_backend(other, fset, scratch, desc)
            members = [fs, second] if kind.startswith(backend) else [second, fs]
        chain = FileSystemChain(*members)
        for q in folder_qs:
            check_listing(f'chain({kind})', chain, q, lambda n: chain[n])
            if len(members) > 1:
                rep = sorted(fold(f.path) for f in chain.walk_folder_repeat(q))
                want = sorted(under(q) * len(members))
                ctx.check(rep == want, 'dup_chain_repeat', f'chain({kind}) {what}: walk_folder_repeat({q!r})\n want {want!r}\n '
                          f'got  {rep!r}', backend=backend, folder=q)
    finally:
        scratch.close(ctx)


SUBCHECKS = [
    Sub('names', execute_names, strategy=fileset_strategy, quick=500, thorough=30000, floor=40,
        must_hit=('name:astral_first', 'name:bmp_top_first', 'name:consecutive_dots', 'name:consecutive_dots_folder',
                  'vpk:v2_with_dir_tail', 'vpk:v1', 'vpk:data_in_dir_tail', 'zip:deflated', 'zip:zip64', 'zip:stored',
                  'vpk:data_in_numbered_archive', 'name:lower_ne_casefold', 'mixed_case', 'prefix_pair', 'spelling:backslash', 'spelling:swap', 'spelling:mixed_slash', 'absent',
                  'depth:3', 'empty_set')),
] + [
    Sub('walk_' + b, make_walk_execute(b), strategy=fileset_strategy, quick=500, thorough=30000, floor=40,
        must_hit=('mixed_case', 'prefix_pair', 'folder:all', 'folder:exact', 'folder:exact_slash', 'folder:name_prefix',
                  'folder:name_extended', 'folder:file_as_folder', 'walk_nonempty:exact', 'walk_nonempty:exact_slash',
                  'walk_nonempty:all', 'depth:3')
        + (() if b == 'raw' else ('folder:upper', 'walk_nonempty:upper'))
        + (('vpk:data_in_numbered_archive', 'vpk:v2_with_dir_tail', 'vpk:v1') if b == 'vpk'
           else ('name:lower_ne_casefold', 'name:astral_first', 'name:bmp_top_first'))
        + ('name:consecutive_dots', 'name:consecutive_dots_folder'))
    for b in BACKENDS
] + [
    Sub('case_dups', execute_case_dups, strategy=casedup_strategy, quick=500, thorough=30000, floor=40,
        must_hit=('has_case_dup_file', 'has_case_dup_folder', 'backend:zip', 'backend:vpk', 'chain:single',
                  'chain:zip+vpk')),
    Sub('chain', execute_chain, strategy=chain_strategy, quick=600, thorough=30000, floor=40,
        must_hit=('vpk:v2_with_dir_tail', 'vpk:v1', 'vpk:data_in_numbered_archive', 'chain:folder_file_clash', 'chain:clash_raw_ahead_of_winner', 'chain:folder_file_clash_raw', 'chain:folder_file_clash_zip', 'chain:query_before_append', 'chain:query_before_priority_insert', 'lookup:not_yet_visible',
                  'shared_name', 'priority_insert', 'prefixed_member', 'members:4', 'walk_deduplicated',
                  'member:virtual', 'member:zip', 'member:vpk', 'member:raw', 'walk:exact', 'lookup:upper',
                  'lookup:backslash')),
]

MATCHERS = {}
