"""C20 part: VMT materials (``Material.export`` / ``Material.parse``).

``Material(shader, params, blocks, proxies)`` -> ``export`` -> ``parse`` -> own walker equality -> ``export`` again,
identical text.  Every ``*.vmt`` under /repo/tests is a fixed input (parsed value -> export -> parse -> ...).
"""
from __future__ import annotations

import glob
import io
import os

from hypothesis import strategies as st

from vlib.core import Sub, REPO_DIR
from vlib import gens
from checks.c20parts._walkguard import guard

ASSUMPTIONS = [
    'Material.parse tokenizes with allow_escapes=False, so a backslash is an ordinary character and IS generated in '
    'parameter names/values and in the names/values of sub-blocks and proxies; a double quote and CR cannot be '
    'carried by any quoted string of the format and are never generated; LF is legal inside a quoted value and is '
    'generated at low weight in values (never in names)',
    'the shader name is an identifier; parameter names are distinct case-insensitively (the class is a case-insensitive '
    'mapping that keeps the first spelling); values are str',
    'Material.blocks / Material.proxies hold Keyvalues *blocks* (a leaf at that level would be written as a parameter '
    'line); a top-level block is not called "proxies" (that name is the proxies list itself); inside blocks any tree',
    'vmt_roundtrip never generates a parameter name/value that is empty-named or starts with "/" or "#"; those are '
    'legal as quoted strings and are exercised separately by vmt_bareword_roundtrip',
    'sample files are read as UTF-8 text; their value is what Material.parse returns for them',
]

SHADERS = ['LightmappedGeneric', 'VertexLitGeneric', 'UnlitGeneric', 'Patch', 'Water', 'Refract', 'WorldVertexTransition']
PARAM_IDENTS = ['basetexture', 'baseTexture', 'BASETEXTURE', 'surfaceprop', 'bumpmap', 'translucent', 'alpha', 'color',
                'envmap', 'envmaptint', 'selfillum', 'noportal', 'compilenodraw', 'keywords', 'include', 'Proxies',
                'insert', 'replace', 'basetexturetransform', 'reflectivity', 'detail']
VALUES = ['1', '0', '.3', '2.3f', '[0 1 .5]', '{255 128 0}', 'tools/toolsskybox', 'models\\props\\x', 'some\\base\\texture.tga',
          'c:\\mat\\new\\tex', 'env_cubemap', 'center .5 .5 scale 1 1 rotate 0 translate 0 0', '$selfillumscale[0]',
          'metal', 'a//b', 'a/*b*/c', 'dir\\', '\\', '\\\\', '\\n', '\\t']

VALUES_LF = ['line1\nline2', '\n', 'a\tb\n', '\ttabbed', 'trailing\\\n']
_NAME_EXCL = '"\r\n'
_VAL_EXCL = '"\r'


def _cased(s: str, flags: int) -> str:
    return ''.join(c.upper() if (flags >> (i % 16)) & 1 else c for i, c in enumerate(s))


def _std_param_name():
    base = st.one_of(st.sampled_from(PARAM_IDENTS), gens.ident())
    return st.tuples(
        st.sampled_from(['$', '$', '%', '', 'hdr?$', '!360?']), base, st.integers(0, 0xffff),
    ).map(lambda t: t[0] + _cased(t[1], t[2] if t[2] & 0x8000 else 0))


def _free_text(excl: str, min_size=0, max_size=8):
    return st.text(gens.text_alphabet(exclude=excl), min_size=min_size, max_size=max_size)


def _safe_lead(s: str) -> bool:
    return s != '' and s[0] not in '/#'


def _param_name():
    return st.one_of(_std_param_name(), _std_param_name(), _free_text(_NAME_EXCL, 1).filter(_safe_lead))


def _param_value():
    return st.one_of(
        st.sampled_from(VALUES),
        st.sampled_from(VALUES + VALUES_LF),
        _free_text(_VAL_EXCL, 0, 10).filter(lambda s: s == '' or s[0] not in '/#'),
        _free_text(_VAL_EXCL + '\n', 0, 10).filter(lambda s: s == '' or s[0] not in '/#'),
        st.tuples(st.sampled_from(['models', 'x', 'dev']), st.sampled_from('\\/'), gens.ident()).map(''.join),
    )


def _block_text(is_name: bool):
    excl = _NAME_EXCL if is_name else _VAL_EXCL
    return st.one_of(
        st.sampled_from(VALUES + PARAM_IDENTS + ['$' + p for p in PARAM_IDENTS[:6]]),
        st.sampled_from(VALUES if is_name else VALUES + VALUES_LF + VALUES_LF),
        _free_text(excl, 0, 8),
        _free_text(excl + '\n\t', 0, 8),
    )


def _tree(max_leaves=8):
    leaf = st.tuples(_block_text(True), _block_text(False)).map(list)
    return st.recursive(leaf, lambda ch: st.tuples(_block_text(True), st.lists(ch, max_size=4)).map(list),
                        max_leaves=max_leaves)


def _block(allow_proxies_name: bool):
    name = _block_text(True)
    if not allow_proxies_name:
        name = name.filter(lambda s: s.casefold() != 'proxies')
    return st.tuples(name, st.lists(_tree(), max_size=4)).map(list)


def _proxy():
    name = st.one_of(st.sampled_from(['Sine', 'TextureScroll', 'Equals', 'AnimatedTexture', 'proxies']), _block_text(True))
    return st.tuples(name, st.lists(_tree(3), max_size=4)).map(list)


def strategy(tier: str):
    return st.fixed_dictionaries({
        'shader': st.one_of(st.sampled_from(SHADERS), gens.ident()),
        'params': st.lists(st.tuples(_param_name(), _param_value()).map(list), max_size=6,
                           unique_by=lambda p: p[0].casefold()),
        'blocks': st.one_of(st.just([]), st.lists(_block(False), max_size=3)),
        'proxies': st.one_of(st.just([]), st.lists(_proxy(), max_size=3)),
        'via': st.sampled_from(['str', 'file', 'lines']),
    })


def _bare_hostile():
    """Strings that are legal when quoted but cannot be written as a bare word: leading '/' or '#'."""
    tail = st.one_of(gens.ident(0, 6), _free_text(_NAME_EXCL, 0, 6), st.sampled_from(['/x', '*x*/', 'ffffff', 'include']))
    return st.tuples(st.sampled_from('/#'), tail).map(''.join)


def bareword_strategy(tier: str):
    """Parameters only; at least one name or value is empty-named / starts with '/' or '#'."""
    hostile_name = st.one_of(st.just(''), _bare_hostile())
    plain_name, plain_value = _std_param_name(), st.sampled_from(VALUES)
    pair = st.one_of(
        st.tuples(hostile_name, plain_value),
        st.tuples(plain_name, _bare_hostile()),
        st.tuples(hostile_name, _bare_hostile()),
    ).map(list)
    plain_pair = st.tuples(plain_name, plain_value).map(list)
    return st.fixed_dictionaries({
        'shader': st.sampled_from(SHADERS),
        'params': st.tuples(st.lists(plain_pair, max_size=2), pair, st.lists(plain_pair, max_size=2)).map(
            lambda t: _uniq(t[0] + [t[1]] + t[2])),
        'blocks': st.just([]), 'proxies': st.just([]),
        'via': st.just('str'),
    })


def _uniq(pairs):
    seen, out = set(), []
    for k, v in pairs:
        if k.casefold() not in seen:
            seen.add(k.casefold())
            out.append([k, v])
    return out


def sample_files():
    root = os.path.join(REPO_DIR, 'tests')
    return sorted(os.path.relpath(p, REPO_DIR) for p in glob.glob(os.path.join(root, '**', '*.vmt'), recursive=True))


def fixed(tier: str):
    for rel in sample_files():
        yield {'file': rel}
    # tests/test_vmt.py::test_parse, rebuilt through the constructor.
    yield {'shader': 'VertexLitGeneric',
           'params': [['$basetexture', 'some\\base\\texture.tga'], ['$vector', '[0 1 .5]'], ['%noportal', '1'],
                      ['$alpha', '.3'], ['$surfaceprop', 'metal']],
           'blocks': [['VertexLitGeneric_DX8', [['$basetexture', 'some\\base\\texture_dx8']]]],
           'proxies': [['SomeProxy', [['mins', '$vector'], ['resultVar', '$alpha']]],
                       ['AnotherProxy', [['value', '42.5']]]],
           'via': 'str'}


# ---- building / walking ----------------------------------------------------------------------------------------

def _build_kv(node):
    from srctools.keyvalues import Keyvalues
    name, value = node
    if isinstance(value, list):
        return Keyvalues(name, [_build_kv(c) for c in value])
    return Keyvalues(name, value)


def build(desc):
    from srctools.vmt import Material
    return Material(
        desc['shader'], {k: v for k, v in desc['params']},
        [_build_kv(b) for b in desc['blocks']], [_build_kv(p) for p in desc['proxies']],
    )


def _shape(kv):
    if kv.has_children():
        return [kv.real_name, [_shape(c) for c in kv]]
    return [kv.real_name, kv.value]


def walk(mat):
    return {
        'shader': mat.shader,
        'params': [[name, mat[name]] for name in mat],
        'blocks': [_shape(b) for b in mat.blocks],
        'proxies': [_shape(p) for p in mat.proxies],
    }


def diff(want, got):
    out = []
    for k in ('shader', 'params', 'blocks', 'proxies'):
        if want[k] != got[k]:
            out.append((k, want[k], got[k]))
    return out


def _deliver(text: str, via: str):
    if via == 'file':
        return io.StringIO(text)
    if via == 'lines':
        parts = text.split('\n')
        return [p + '\n' for p in parts[:-1]] + ([parts[-1]] if parts[-1] else [])
    return text


def _visit(node, depth, stats):
    name, value = node
    for s in ([name] if isinstance(value, list) else [name, value]):
        if '\\' in s:
            stats.add('block_backslash')
        if '\n' in s or '\t' in s:
            stats.add('block_lf_or_tab')
        if s[:1] in ('/', '#'):
            stats.add('block_lead_slash_hash')
    if isinstance(value, list):
        if depth >= 1:
            stats.add('nested_block')
        if not value:
            stats.add('empty_block')
        for c in value:
            _visit(c, depth + 1, stats)


BARE_DISALLOWED_LOCAL = set('"\'{};,=[]()\r\n\t ')


def classify(desc, ctx) -> bool:
    stats = set()
    for name, value in desc['params']:
        if name[:1] == '$':
            stats.add('param_dollar')
        elif name[:1] == '%':
            stats.add('param_percent')
        if '?' in name:
            stats.add('param_flagged_name')
        if name != name.lower():
            stats.add('param_name_has_upper')
        if '\\' in name or '\\' in value:
            stats.add('param_backslash')
        if value == '':
            stats.add('param_empty_value')
        if '\n' in value:
            stats.add('param_lf_value')
        if any(c in BARE_DISALLOWED_LOCAL for c in value):
            stats.add('param_value_needs_quotes')
        if any(c in BARE_DISALLOWED_LOCAL for c in name):
            stats.add('param_name_needs_quotes')
        if any(ord(c) > 127 for c in name + value):
            stats.add('unicode')
        if name == '':
            stats.add('bareword_empty_name')
        for s, what in ((name, 'name'), (value, 'value')):
            if s[:1] == '/':
                stats.add('bareword_lead_slash_' + what)
            if s[:1] == '#':
                stats.add('bareword_lead_hash_' + what)
    if len(desc['params']) >= 2:
        stats.add('params>=2')
    if desc['blocks']:
        stats.add('blocks')
    if desc['proxies']:
        stats.add('proxies')
    for b in desc['blocks'] + desc['proxies']:
        _visit(b, 0, stats)
    stats.add('via:' + desc['via'])
    ctx.label(*sorted(stats))
    return bool(desc['blocks'] or desc['proxies'] or stats & {'param_value_needs_quotes', 'param_name_needs_quotes',
                                                             'param_percent', 'param_backslash'}
                or any(s.startswith('bareword_') for s in stats))


def execute(desc, ctx):
    from srctools.vmt import Material
    if 'file' in desc:
        with open(os.path.join(REPO_DIR, desc['file']), encoding='utf8') as f:
            src = f.read()
        mat = Material.parse(src, desc['file'])
        want = guard(ctx, 'sample_parse', walk, mat)
        if want is None:
            return
        via = 'str'
        ctx.label('sample_file')
        if want['proxies'] or want['blocks']:
            ctx.label('sample_file_with_blocks')
        ctx.nontrivial(True)
    else:
        ctx.nontrivial(classify(desc, ctx))
        mat = build(desc)
        want = {'shader': desc['shader'], 'params': [list(p) for p in desc['params']],
                'blocks': [_shape_desc(b) for b in desc['blocks']], 'proxies': [_shape_desc(p) for p in desc['proxies']]}
        via = desc['via']
        dd = guard(ctx, 'constructors', lambda: diff(want, walk(mat)))
        ctx.check(not dd, 'constructors', f'constructed Material differs from the request: {dd!r}')

    buf = io.StringIO()
    mat.export(buf)
    text = buf.getvalue()
    dd = guard(ctx, 'no_mutation', lambda: diff(want, walk(mat)))
    ctx.check(not dd, 'no_mutation', f'export() changed the Material: {dd!r}')

    parsed = Material.parse(_deliver(text, via), 'roundtrip.vmt')
    dd = guard(ctx, 'roundtrip', lambda: diff(want, walk(parsed)))
    if dd is None:
        return
    fields = sorted(f for f, _, _ in dd)
    if not ctx.check(not dd, 'roundtrip',
                     f'Material.parse(export(m)) differs in {fields}:\n'
                     + '\n'.join(f'  {f}: want {a!r}\n  {" " * len(f)}   got {b!r}' for f, a, b in dd)
                     + f'\n text: {text!r}', fields=fields):
        return
    buf2 = io.StringIO()
    parsed.export(buf2)
    text2 = buf2.getvalue()
    ctx.check(text2 == text, 'second_export_identical',
              f'second-generation text differs:\n first : {text!r}\n second: {text2!r}')


def _shape_desc(node):
    name, value = node
    if isinstance(value, list):
        return [name, [_shape_desc(c) for c in value]]
    return [name, value]


SUBS = [
    Sub('vmt_roundtrip', execute, strategy=strategy, fixed=fixed, quick=1600, thorough=15000, floor=150, quick_shards=8,
        must_hit=('param_dollar', 'param_percent', 'param_name_has_upper', 'param_backslash', 'param_empty_value',
                  'param_lf_value', 'param_value_needs_quotes', 'param_name_needs_quotes', 'blocks', 'proxies',
                  'nested_block', 'empty_block', 'block_backslash', 'block_lf_or_tab', 'block_lead_slash_hash',
                  'sample_file', 'sample_file_with_blocks', 'via:file', 'via:lines', 'params>=2')),
    Sub('vmt_bareword_roundtrip', execute, strategy=bareword_strategy, quick=400, thorough=4000, floor=50,
        must_hit=('bareword_empty_name', 'bareword_lead_slash_name', 'bareword_lead_slash_value',
                  'bareword_lead_hash_name', 'bareword_lead_hash_value')),
]
MATCHERS = {}
