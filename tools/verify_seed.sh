#!/bin/sh
# Usage: verify_seed.sh <dir with patch.diff demo.py meta.json> <dest name e.g. C07-m1>
# Confirms in a scratch worktree of /repo HEAD: demo passes unchanged, fails with the patch, repo tests unchanged.
# On success copies the seed to /verif/seeded/<dest>/ with a "verified" record.
SRC=$1; NAME=$2; WT=/tmp/wt_verify_$$
git -C /repo worktree add -q --detach $WT HEAD || exit 2
run_demo() { ( cd $WT && PYTHONPATH=$WT/src:/verif/shims PYTHONDONTWRITEBYTECODE=1 timeout 600 /venv/bin/python $SRC/demo.py >/tmp/demo_$$.out 2>&1; echo $? ); }
clean=$(run_demo)
if ! git -C $WT apply --3way $SRC/patch.diff 2>/dev/null && ! git -C $WT apply $SRC/patch.diff; then echo "$NAME: PATCH DOES NOT APPLY to HEAD"; git -C /repo worktree remove --force $WT; exit 1; fi
git -C $WT reset -q
git -C $WT diff > /tmp/patch_$$.diff
mut=$(run_demo)
tests=$(/verif/tools/repo_tests.sh $WT | tail -1)
git -C /repo worktree remove --force $WT
echo "$NAME: demo clean=$clean mutated=$mut tests=[$tests]"
if [ "$clean" = 0 ] && [ "$mut" = 1 ] && echo "$tests" | grep -q SAME; then
  mkdir -p /verif/seeded/$NAME && cp /tmp/patch_$$.diff /verif/seeded/$NAME/patch.diff && cp $SRC/demo.py /verif/seeded/$NAME/ &&
  python3 - "$SRC/meta.json" "/verif/seeded/$NAME/meta.json" "$(git -C /repo rev-parse --short HEAD)" <<'PY'
import json,sys
m=json.load(open(sys.argv[1])); m['verified']={'at_repo_commit':sys.argv[3],'demo_exit_unchanged':0,'demo_exit_with_patch':1,'repo_tests':'same failing set as unmodified tree (suite passes)','how':'tools/verify_seed.sh in a scratch worktree of /repo HEAD'}
json.dump(m,open(sys.argv[2],'w'),indent=1)
PY
  echo "$NAME: KEPT"
else echo "$NAME: REJECTED"; fi
rm -f /tmp/demo_$$.out /tmp/patch_$$.diff
