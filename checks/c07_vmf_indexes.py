"""C07 - VMF.by_class / by_target / search() always agree with a scan of the map (DESIGN.md section 2, C07).

Model-based command histories.  A descriptor is ``{'fam': <family>, 'maps': [origin, origin], 'cmds': [[op, a, b, c, d, e], ...]}``;
``a..e`` are small ints which each op decodes *modulo* the size of whatever it indexes (entity pool, name table, key
table ...), so every list is a valid history.  After every command the indexes of both maps are compared with a
scan of ``[vmf.spawn] + vmf.entities`` (the reference model), plus a harness-side model of which pool entity is in
which map.
"""
from __future__ import annotations

from hypothesis import strategies as st

from vlib.core import Sub

PROPERTY = 'C07'
LEVEL = 'exploration'
TECHNIQUE = 'property-based testing (Hypothesis): model-based command histories vs. a scan reference model'
RULE = (
    'Hypothesis generates command histories (<=30 quick / <=45 thorough commands) over 2 maps (fresh VMF() or '
    'VMF.parse of a small generated tree) and a pool of entities (in a map, never added, or removed): '
    'create_ent, Entity()+add_ent/add_ents, collapse_one of a small template, remove_ent/Entity.remove, ent[k]=v, del, pop, update, clear, make_unique, '
    'copy (same/other map), iteration over by_class/by_target/search while mutating, and the same key operations on '
    'worldspawn; keys/values in random letter case from small tables; entities may carry nodeid (numeric / empty / non-numeric), hammerid '
    'and id keyvalues; maps may be made with preserve_ids=True and then hold several entities with one id (copy(des_id=), '
    'Entity(ent_id=), documents with repeated ids).  After every command the indexes are compared '
    'with a scan of [spawn]+entities.  Non-trivial = the history renames/re-classes/removes an in-map entity whose '
    'old name or class was mixed-case, or deletes/pops/clears an indexed key of an in-map entity, or mutates during '
    'an index iteration that yields >= 2 entities, or manipulates the classname/targetname of worldspawn, or runs commands on a '
    'map parsed from a tree with entities; distinct = sha1 of the descriptor JSON'
)
ASSUMPTIONS = [
    'an entity is only added to the VMF it was created for (add_ent docstring) and never added while already in it',
    'worldspawn itself is never passed to add_ent/remove_ent (only its keyvalues are manipulated)',
    'by_class/by_target are only read, never written to, by the caller; empty sets left by defaultdict reads are ignored',
    'which letter case a key of by_class/by_target is stored in is not judged (union over case-insensitively equal keys); '
    'None and "" both mean "unnamed" for by_target',
    'names contain no "*"; case-insensitive = str.casefold() equality (the pools include names with lower() != casefold())',
    'KeyError is accepted when deleting/popping classname, ValueError when re-classing / clearing worldspawn',
]
LEVEL_TEXT = ('Generated-input search: thousands (quick) to hundreds of thousands (thorough) of random mutation histories '
              'per command family, the index/scan agreement checked after every command; held-on-everything-explored, not a proof.')
LEVEL_NOTE = ('Trusts Entity.__getitem__ (to read the current classname/targetname), VMF.entities as ground truth and the '
              'harness scan; histories are bounded (2 maps, <= ~40 entities, 45 commands).')
CAPS = (300, 2400)

# ---------------------------------------------------------------------------------------------- tables
BASES = ['foo', 'bar', 'foo1', 'fo', 'baz9', 'b']


def _cases(s: str) -> list[str]:
    return [s, s.title(), s.upper()]


# Names whose str.lower() differs from str.casefold() ("case-insensitively" = casefold for these lookups), each in
# several spellings that are equal under casefold: sharp s, final sigma, the fi ligature, micro sign vs. Greek mu.
SPECIAL_NAMES = ['Stra\u00dfe', 'STRASSE', 'strasse', '\u039f\u0394\u039f\u03a3', '\u03bf\u03b4\u03bf\u03c2',
                 '\ufb01nal_relay', 'Final_Relay', '\u00b5_relay', '\u039c_RELAY']
NAMES = [''] + [v for b in BASES for v in _cases(b)] + SPECIAL_NAMES   # '' first
CLASSES = ['info_target', 'Info_Target', 'INFO_TARGET', 'func_brush', 'Func_Brush', 'logic_relay',
           'foo', 'Foo', 'worldspawn', 'WorldSpawn', 'info_null', '',
           'Stra\u00dfe', 'STRASSE', '\ufb01nal_relay', 'final_relay', '\u00b5_relay', '\u03bc_relay',
           '\u039f\u0394\u039f\u03a3']
CKEYS = ['classname', 'ClassName', 'CLASSNAME']
TKEYS = ['targetname', 'TargetName', 'TARGETNAME']
OKEYS = ['origin', 'Origin']
# keyvalues that other bookkeeping of the map looks at (node ids, id-like keys), with values it can and cannot digest
ODD_KEYS = ['nodeid', 'NodeID', 'hammerid']
ODD_KVS = [None, None, None, ('nodeid', '3'), ('nodeid', ''), ('nodeid', 'auto'), ('NodeID', '2.5'), ('hammerid', '7'),
           ('id', '5'), ('nodeid', '0'), ('ID', 'x'), ('nodeid', '3')]
NODE_VALS = ['1', '', 'auto', '2.5', '7', '1']
KEYS = CKEYS + TKEYS + TKEYS + CKEYS + OKEYS + ODD_KEYS           # weighted towards the indexed keys
SEARCH_PROBES = sorted({n.casefold() for n in NAMES if n} | {c.casefold() for c in CLASSES if c})
PREFIX_PROBES = ['*', 'f*', 'fo*', 'foo*', 'FOO*', 'b*', 'Ba*', 'info*', 'foo1*',
                 'stras*', 'Stra\u00df*', '\ufb01*', 'FIN*', '\u00b5*', '\u039f\u0394\u039f\u03a3*']


def lower_ne_casefold(s: str) -> bool:
    return s.lower() != s.casefold()


def is_mixed(s: str) -> bool:
    return s != s.casefold()


def fold(s: str) -> str:
    return s.casefold()


# ---------------------------------------------------------------------------------------------- families
FAMILIES: dict[str, list[str]] = {
    # re-class / rename through []= and update of in-map entities
    'reclass': ['create', 'create', 'new', 'add', 'remove', 'set', 'set', 'set', 'set', 'update', 'update'],
    # del / pop / clear
    'delete': ['create', 'create', 'create', 'new', 'add', 'remove', 'del', 'del', 'del2', 'pop', 'pop', 'clear'],
    # add/remove/copy/make_unique
    'lifecycle': ['create', 'create', 'new', 'new', 'new', 'add', 'add', 'add_many', 'add_many', 'remove', 'remove', 'copy',
                  'copy', 'unique', 'unique', 'collapse'],
    # worldspawn rules
    'spawn': ['create', 'sp_set', 'sp_set', 'sp_set', 'sp_del', 'sp_pop', 'sp_clear', 'sp_update', 'remove', 'copy'],
    # iteration while mutating (mutations are lower-case-safe creates + whatever the loop body does)
    'iterate': ['create', 'create', 'create', 'new', 'add', 'iter', 'iter', 'iter', 'remove'],
    # maps that start life in VMF.parse()
    'parse': ['create', 'new', 'add', 'remove', 'remove', 'set', 'copy', 'unique', 'sp_set', 'iter'],
    # maps made with preserve_ids=True, where several entities (in or outside the map) may carry the same id
    'preserve': ['create', 'new', 'new', 'add', 'add_many', 'remove', 'remove', 'set', 'set', 'update', 'del', 'pop', 'clear',
                 'unique', 'copy', 'copy', 'copy', 'collapse'],
    'mixed': ['create', 'create', 'new', 'add', 'add_many', 'remove', 'set', 'set', 'update', 'del', 'del2', 'pop',
              'clear', 'unique', 'copy', 'iter', 'sp_set', 'sp_del', 'sp_pop', 'sp_update', 'collapse'],
}
# in the families that are meant to isolate one mechanism, other mechanisms only see lower-case values
LOWER_ONLY = {'iterate', 'parse'}
PARSED_ORIGIN = {'parse', 'mixed', 'preserve'}


def strategy_for(fam: str):
    # 'nop' is the simplest element: Hypothesis does not always delete list elements that are already all-minimal,
    # so whatever it cannot delete it can at least turn into a command that does nothing.
    ops = ['nop'] + FAMILIES[fam]

    def strat(tier: str):
        max_cmds = 30 if tier == 'quick' else 45
        small = st.integers(0, 63)
        cmd = st.tuples(st.sampled_from(ops), small, small, small, small, small).map(list)
        origin = st.none() if fam not in PARSED_ORIGIN else st.one_of(
            st.none(),
            st.fixed_dictionaries({
                'wcls': st.integers(0, 3),        # 0 absent, 1 worldspawn, 2 WorldSpawn, 3 other (func_brush)
                'wname': st.integers(0, len(NAMES) - 1),
                'ents': st.lists(st.tuples(st.integers(0, 63), st.integers(0, 63), st.booleans()).map(list), max_size=4),
                'dup': st.booleans(),             # entity ids in the document repeat pairwise
            }),
        )
        if fam == 'preserve':
            pres = st.just([True, True])
        elif fam in ('mixed', 'parse'):
            pres = st.tuples(st.booleans(), st.booleans()).map(list)
        else:
            pres = st.just([False, False])
        return st.fixed_dictionaries({
            'fam': st.just(fam),
            'maps': st.tuples(origin, origin).map(list),
            'pres': pres,                         # preserve_ids of the two maps
            # (shrinks towards the short branch; the long one gives histories real depth)
            'cmds': st.one_of(st.lists(cmd, max_size=8), st.lists(cmd, min_size=9, max_size=max_cmds),
                              st.lists(cmd, min_size=16, max_size=max_cmds)),
        })
    return strat


# ---------------------------------------------------------------------------------------------- interpreter
class World:
    """Real objects + the harness model (which pool entity the harness put into its map)."""

    def __init__(self, desc, ctx) -> None:
        self.ctx = ctx
        self.desc = desc
        self.lower = desc['fam'] in LOWER_ONLY
        self.narrow = desc['fam'] == 'iterate'
        self.maps = []
        self.pool = []          # [entity, map index]
        self.inmap = []         # model: bool per pool slot
        self.trace: list[str] = []
        self.flags: set[str] = set()
        self.nontrivial = False
        self.last_op = ''
        self.n_inst = 0

    # -- value decoding
    def name(self, n: int) -> str:
        if self.narrow:     # few distinct lower-case names, so that index sets hold several entities
            return ['foo', 'foo1', 'bar'][n % 3]
        if self.lower:      # lower-case and never '' (so that []= on an in-map entity is index-neutral in these families)
            return NAMES[1 + n % (len(NAMES) - 1)].casefold()
        return NAMES[n % len(NAMES)]

    def cls(self, n: int) -> str:
        if self.narrow:
            return ['info_target', 'func_brush', 'foo'][n % 3]
        v = CLASSES[n % len(CLASSES)]
        return v.casefold() if self.lower else v

    def key(self, n: int) -> str:
        return KEYS[n % len(KEYS)]

    def value_for(self, key: str, n: int) -> str:
        kf = key.casefold()
        if kf == 'classname':
            return self.cls(n)
        if kf == 'targetname':
            return self.name(n)
        if kf == 'nodeid':
            return NODE_VALS[n % len(NODE_VALS)]
        if kf == 'hammerid':
            return str(n)
        return f'{n % 3} 0 0'

    def odd(self, n: int):
        kv = ODD_KVS[n % len(ODD_KVS)]
        if kv is not None:
            self.flag('odd_keyvalue')
            if kv[0].casefold() == 'nodeid':
                try:
                    int(kv[1])
                    self.flag('odd:nodeid_numeric')
                except ValueError:
                    self.flag('odd:nodeid_non_numeric')
        return kv

    def same_id_elsewhere(self, ent, mi: int) -> bool:
        return any(e is not ent and m == mi and e.id == ent.id for e, m in self.pool)

    def find(self, ent) -> int:
        for i, (e, _) in enumerate(self.pool):
            if e is ent:
                return i
        return -1

    def log(self, text: str) -> None:
        self.trace.append(text)

    def flag(self, *names: str) -> None:
        self.flags.update(names)

    # -- failure reporting
    def fail(self, clause: str, msg: str, **facts) -> None:
        tr = '\n'.join(f'  {i:2d}: {t}' for i, t in enumerate(self.trace))
        self.ctx.fail(clause, f'{msg}\n after history (m0/m1 = maps, eN = pool entity N):\n{tr}',
                      op=self.last_op, family=self.desc['fam'], **facts)

    def describe(self, ent) -> str:
        i = self.find(ent)
        for mi, vmf in enumerate(self.maps):
            if ent is vmf.spawn:
                return f'<m{mi}.spawn>'
        tag = f'e{i}' if i >= 0 else 'UNKNOWN-ENTITY'
        return f'<{tag} class={ent["classname"]!r} name={ent["targetname"]!r}>'


def build_tree(origin, w: World):
    """A small VMF document as a Keyvalues tree (harness-built, not VMF.export())."""
    from srctools.keyvalues import Keyvalues
    world = [Keyvalues('id', '1')]
    wcls = origin['wcls']
    if wcls:
        world.append(Keyvalues(['', 'classname', 'ClassName', 'classname'][wcls],
                               ['', 'worldspawn', 'WorldSpawn', 'func_brush'][wcls]))
    wname = NAMES[origin['wname'] % len(NAMES)] if origin['wname'] % 3 == 0 else ''
    if wname:
        world.append(Keyvalues('targetname', wname))
    blocks = [Keyvalues('versioninfo', [Keyvalues('formatversion', '100')]), Keyvalues('world', world)]
    specs = []
    for n, (ci, ni, hidden) in enumerate(origin['ents']):
        cls, name = CLASSES[ci % len(CLASSES)], NAMES[ni % len(NAMES)]
        kvs = [Keyvalues('id', str(2 + n // 2 if origin.get('dup') else n + 2))]
        odd = w.odd(ci + ni)
        if odd is not None and odd[0].casefold() != 'id':
            kvs.append(Keyvalues(odd[0], odd[1]))
        if cls or ci % 2:
            kvs.append(Keyvalues(CKEYS[ci % 3], cls))
        if name or ni % 2:
            kvs.append(Keyvalues(TKEYS[ni % 3], name))
        ent = Keyvalues('entity', kvs)
        blocks.append(Keyvalues('hidden', [ent]) if hidden else ent)
        specs.append((cls, name, hidden))
    return Keyvalues.root(*blocks), specs


def make_map(origin, mi: int, w: World):
    from srctools.vmf import VMF
    pres = bool(w.desc.get('pres', [False, False])[mi])
    if pres:
        w.flag('preserve_map')
    if origin is None:
        w.log(f'm{mi} = VMF(preserve_ids={pres})')
        return VMF(preserve_ids=pres)
    tree, specs = build_tree(origin, w)
    vmf = VMF.parse(tree, preserve_ids=pres)
    w.log(f'm{mi} = VMF.parse(preserve_ids={pres}, ids {[e.id for e in vmf.entities]}, <world classname {["absent", "worldspawn", "WorldSpawn", "func_brush"][origin["wcls"]]}, '
          f'targetname {vmf.spawn["targetname"]!r}; entities (class, name, hidden) = {specs}>)')
    w.flag('parsed_map')
    if specs:
        w.flag('parsed_map_with_ents')
    # parse order: visible entities first, then hidden ones
    for ent in vmf.entities:
        w.pool.append([ent, mi])
        w.inmap.append(True)
    if len({e.id for e in vmf.entities}) != len(vmf.entities):
        w.flag('twin_id')
    return vmf


# ---- oracle ----------------------------------------------------------------------------------------
def check_maps(w: World) -> None:
    for mi, vmf in enumerate(w.maps):
        check_map(w, mi, vmf)


def check_map(w: World, mi: int, vmf) -> None:
    ents = vmf.entities
    spawn = vmf.spawn
    # harness model vs. ground-truth list
    model = [e for (e, m), flag in zip(w.pool, w.inmap) if flag and m == mi]
    if len(model) != len(ents) or any(not any(x is e for x in ents) for e in model):
        w.fail('entities_list', f'm{mi}.entities does not hold exactly the entities the history put there: '
               f'want {[w.describe(e) for e in model]} got {[w.describe(e) for e in ents]}')
        return
    present = [spawn] + list(ents)

    def is_present(e) -> bool:
        return any(x is e for x in present)

    # worldspawn rules
    if fold(spawn['classname']) != 'worldspawn':
        w.fail('spawn_class', f'm{mi}.spawn has classname {spawn["classname"]!r}')
    ws = [e for k, s in list(vmf.by_class.items()) if fold(k) == 'worldspawn' for e in set(s)]
    if not any(e is spawn for e in ws):
        w.fail('spawn_indexed', f'm{mi}.spawn is not in by_class["worldspawn"] (keys: {sorted(vmf.by_class)})')

    # no stale entry
    for k, s in list(vmf.by_class.items()):
        if not isinstance(k, str):
            w.fail('class_key_type', f'm{mi}.by_class has non-string key {k!r}')
            continue
        for e in set(s):
            if not is_present(e):
                w.fail('stale_class', f'm{mi}.by_class[{k!r}] holds {w.describe(e)}, which is not in the map',
                       index='by_class', why='not_in_map')
            elif fold(e['classname']) != fold(k):
                w.fail('stale_class', f'm{mi}.by_class[{k!r}] holds {w.describe(e)} whose class is different',
                       index='by_class', why='other_class')
    for k, s in list(vmf.by_target.items()):
        if k is not None and not isinstance(k, str):
            w.fail('target_key_type', f'm{mi}.by_target has key {k!r}')
            continue
        for e in set(s):
            if not is_present(e):
                w.fail('stale_target', f'm{mi}.by_target[{k!r}] holds {w.describe(e)}, which is not in the map',
                       index='by_target', why='not_in_map', is_spawn=False)
            elif fold(e['targetname']) != fold(k or ''):
                w.fail('stale_target', f'm{mi}.by_target[{k!r}] holds {w.describe(e)} whose name is different',
                       index='by_target', why='other_name', is_spawn=e is spawn)

    # nothing missing
    for e in present:
        c = fold(e['classname'])
        if not any(x is e for k, s in list(vmf.by_class.items()) if fold(k) == c for x in set(s)):
            w.fail('missing_class', f'{w.describe(e)} is in m{mi} but in no by_class set for {c!r} '
                   f'(keys: {sorted(vmf.by_class)})', index='by_class', is_spawn=e is spawn)
        t = fold(e['targetname'])
        if not any(x is e for k, s in list(vmf.by_target.items()) if fold(k or '') == t for x in set(s)):
            w.fail('missing_target', f'{w.describe(e)} is in m{mi} but in no by_target set for {t!r} '
                   f'(keys: {sorted(vmf.by_target, key=repr)})', index='by_target', is_spawn=e is spawn)

    # search()
    info = [(e, fold(e['classname']), fold(e['targetname'])) for e in present]
    for probe in SEARCH_PROBES:
        want = [e for e, c, t in info if (t and t == probe) or c == probe]
        compare_search(w, mi, vmf, probe, want)
        up = probe.upper()
        compare_search(w, mi, vmf, up, want)
    for probe in PREFIX_PROBES:
        pre = fold(probe[:-1])
        want = [e for e, c, t in info if t and t.startswith(pre)]
        compare_search(w, mi, vmf, probe, want)
    got = list(vmf.search(''))
    if got:
        w.fail('search_blank', f'm{mi}.search("") returned {[w.describe(e) for e in got]}')


def compare_search(w: World, mi: int, vmf, probe: str, want: list) -> None:
    got = list(vmf.search(probe))
    extra = [e for e in got if not any(x is e for x in want)]
    lost = [e for e in want if not any(x is e for x in got)]
    if extra:
        w.fail('search_extra', f'm{mi}.search({probe!r}) returned {[w.describe(e) for e in extra]} which do not match '
               f'(or are not in the map)', probe=probe)
    if lost:
        w.fail('search_missing', f'm{mi}.search({probe!r}) did not return {[w.describe(e) for e in lost]}', probe=probe)


# ---- commands --------------------------------------------------------------------------------------
def note_index_change(w: World, i: int, ent, key: str, kind: str) -> None:
    """Book-keeping for the non-triviality rule: what is about to happen to an indexed key of an in-map entity."""
    if i < 0 or not w.inmap[i]:
        return
    kf = key.casefold()
    if kf not in ('classname', 'targetname'):
        return
    old = ent[kf]
    if lower_ne_casefold(old) and (kind == 'set' or key in ent):
        w.flag('name:lower_ne_casefold')
    if kind == 'set':
        if is_mixed(old):
            w.flag('rename_mixed_case' if kf == 'targetname' else 'reclass_mixed_case')
            w.nontrivial = True
    else:
        if key in ent:
            w.flag(f'{kind}_indexed')
            w.nontrivial = True


def op_create(w: World, a, b, c, d, e):
    mi = a % 2
    cls = w.cls(b)
    kwargs = {}
    if c % 4:
        kwargs[TKEYS[d % 3]] = w.name(c // 4 + e)
    if e % 5 == 0:
        kwargs['origin'] = '1 2 3'
    odd = w.odd(b + e)
    if odd is not None:
        kwargs[odd[0]] = odd[1]
    ent = w.maps[mi].create_ent(cls, **kwargs)
    w.pool.append([ent, mi])
    w.inmap.append(True)
    w.log(f'e{len(w.pool) - 1} = m{mi}.create_ent({cls!r}, **{kwargs!r})')


def op_new(w: World, a, b, c, d, e):
    from srctools.vmf import Entity
    mi = a % 2
    keys = {}
    if b % 4 != 3:
        keys[CKEYS[b % 4]] = w.cls(b // 4 + c)
    if d % 3:
        keys[TKEYS[d % 3]] = w.name(e)
    odd = w.odd(c + d)
    if odd is not None:
        keys[odd[0]] = odd[1]
    # every third new entity asks for the id of an entity the harness already holds for that map
    mine = [x for x, m in w.pool if m == mi]
    want = mine[(e // 3) % len(mine)].id if mine and e % 3 == 0 else -1
    ent = Entity(w.maps[mi], keys=keys, ent_id=want)
    w.pool.append([ent, mi])
    w.inmap.append(False)
    if 'classname' not in {k.casefold() for k in keys}:
        w.flag('no_classname_entity')
    if w.same_id_elsewhere(ent, mi):
        w.flag('twin_id')
        w.nontrivial = True
    w.log(f'e{len(w.pool) - 1} = Entity(m{mi}, keys={keys!r}, ent_id={want})  -> id {ent.id}')


def op_add(w: World, a, b, c, d, e):
    if not w.pool:
        return
    i = a % len(w.pool)
    if w.inmap[i]:
        return
    ent, mi = w.pool[i]
    w.maps[mi].add_ent(ent)
    w.inmap[i] = True
    w.flag('add_detached')
    w.log(f'm{mi}.add_ent(e{i})')


def op_add_many(w: World, a, b, c, d, e):
    if not w.pool:
        return
    first = a % len(w.pool)
    mi = w.pool[first][1]
    picks = []
    for n in (a, b, c):
        i = n % len(w.pool)
        if i not in picks and not w.inmap[i] and w.pool[i][1] == mi:
            picks.append(i)
    w.maps[mi].add_ents(w.pool[i][0] for i in picks)
    for i in picks:
        w.inmap[i] = True
    if len(picks) > 1:
        w.flag('add_ents_many')
    if any('nodeid' in w.pool[i][0] for i in picks):
        w.flag('add_ents_with_nodeid')
    w.log(f'm{mi}.add_ents(<generator of {["e%d" % i for i in picks]}>)')


def op_remove(w: World, a, b, c, d, e):
    if not w.pool:
        return
    i = a % len(w.pool)
    ent, mi = w.pool[i]
    if w.inmap[i]:
        if is_mixed(ent['classname']) or is_mixed(ent['targetname']):
            w.flag('remove_mixed_case')
            w.nontrivial = True
        if lower_ne_casefold(ent['classname']) or lower_ne_casefold(ent['targetname']):
            w.flag('name:lower_ne_casefold')
        w.flag('remove_inmap')
    else:
        w.flag('remove_detached')
    if b % 2:
        ent.remove()
        w.log(f'e{i}.remove()')
    else:
        w.maps[mi].remove_ent(ent)
        w.log(f'm{mi}.remove_ent(e{i})')
    w.inmap[i] = False


def op_set(w: World, a, b, c, d, e):
    if not w.pool:
        return
    i = a % len(w.pool)
    ent = w.pool[i][0]
    key = w.key(b)
    val = w.value_for(key, c)
    note_index_change(w, i, ent, key, 'set')
    if not w.inmap[i] and key.casefold() in ('classname', 'targetname'):
        w.flag('set_detached')
    w.log(f'e{i}[{key!r}] = {val!r}')
    ent[key] = val


def op_update(w: World, a, b, c, d, e):
    if not w.pool:
        return
    i = a % len(w.pool)
    ent = w.pool[i][0]
    k1, k2 = w.key(b), w.key(d)
    items = {k1: w.value_for(k1, c)}
    items[k2] = w.value_for(k2, e)
    for k in items:
        note_index_change(w, i, ent, k, 'set')
    w.log(f'e{i}.update({items!r})')
    if e % 2:
        ent.update(items)
    else:
        ent.update(list(items.items()))


def op_del(w: World, a, b, c, d, e):
    if not w.pool:
        return
    i = a % len(w.pool)
    ent = w.pool[i][0]
    key = w.key(b)
    note_index_change(w, i, ent, key, 'del')
    if not w.inmap[i] and key.casefold() == 'targetname':
        w.flag('del_target_detached')
    w.log(f'del e{i}[{key!r}]')
    if key.casefold() == 'classname':
        try:
            del ent[key]
        except KeyError:
            w.flag('del_classname_keyerror')
    else:
        del ent[key]


def op_del2(w: World, a, b, c, d, e):
    if not w.pool:
        return
    i = a % len(w.pool)
    ent = w.pool[i][0]
    keys = (w.key(b), w.key(c))
    for k in keys:
        note_index_change(w, i, ent, k, 'del')
    w.log(f'del e{i}[{keys!r}]')
    if any(k.casefold() == 'classname' for k in keys):
        try:
            del ent[keys]
        except KeyError:
            pass
    else:
        del ent[keys]


def op_pop(w: World, a, b, c, d, e):
    if not w.pool:
        return
    i = a % len(w.pool)
    ent = w.pool[i][0]
    key = w.key(b)
    note_index_change(w, i, ent, key, 'pop')
    w.log(f'e{i}.pop({key!r})')
    args = (key,) if c % 2 else (key, 'dflt')
    if key.casefold() == 'classname':
        try:
            ent.pop(*args)
        except KeyError:
            w.flag('pop_classname_keyerror')
    else:
        ent.pop(*args)


def op_clear(w: World, a, b, c, d, e):
    if not w.pool:
        return
    i = a % len(w.pool)
    ent = w.pool[i][0]
    if w.inmap[i]:
        w.flag('clear_inmap')
        w.nontrivial = True
    else:
        w.flag('clear_detached')
    w.log(f'e{i}.clear()')
    if b % 2:
        ent.clear()
    else:
        ent.clear_keys()


def op_unique(w: World, a, b, c, d, e):
    if not w.pool:
        return
    i = a % len(w.pool)
    ent = w.pool[i][0]
    prefix = w.name(b)
    note_index_change(w, i, ent, 'targetname', 'set')
    w.flag('make_unique_inmap' if w.inmap[i] else 'make_unique_detached')
    w.log(f'e{i}.make_unique({prefix!r})')
    res = ent.make_unique(prefix)
    if res is not ent:
        w.fail('make_unique_result', f'make_unique returned {res!r}')


def op_copy(w: World, a, b, c, d, e):
    if not w.pool:
        return
    i = a % len(w.pool)
    ent, mi = w.pool[i]
    how = b % 3
    kw = {'des_id': ent.id} if (c // 4) % 2 else {}
    ktxt = f'des_id={ent.id}, ' if kw else ''
    if how == 0:
        new, ni, txt = ent.copy(**kw), mi, ktxt
    elif how == 1:
        new, ni, txt = ent.copy(vmf_file=w.maps[mi], **kw), mi, f'{ktxt}vmf_file=m{mi}'
    else:
        ni = 1 - mi
        new, txt = ent.copy(vmf_file=w.maps[ni], **kw), f'{ktxt}vmf_file=m{ni}'
        w.flag('cross_map_copy')
    w.pool.append([new, ni])
    w.inmap.append(False)
    j = len(w.pool) - 1
    w.log(f'e{j} = e{i}.copy({txt})  -> id {new.id}')
    if w.same_id_elsewhere(new, ni):
        w.flag('twin_id')
        w.nontrivial = True
    if c % 4:
        w.maps[ni].add_ent(new)
        w.inmap[j] = True
        w.log(f'm{ni}.add_ent(e{j})')
    if new['classname'] != ent['classname'] or new['targetname'] != ent['targetname']:
        w.fail('copy_keys', f'copy of {w.describe(ent)} is {w.describe(new)}')


def op_iter(w: World, a, b, c, d, e):
    vmf = w.maps[a % 2]
    mi = a % 2
    kind = b % 4
    if kind == 0:
        keys = sorted(vmf.by_class)
        key = keys[c % len(keys)]
        start = list(set(vmf.by_class[key]))
        it = vmf.by_class[key]
        txt = f'm{mi}.by_class[{key!r}]'
    elif kind == 1:
        keys = sorted(vmf.by_target, key=lambda k: (k is not None, k or ''))
        key = keys[c % len(keys)]
        start = list(set(vmf.by_target[key]))
        it = vmf.by_target[key]
        txt = f'm{mi}.by_target[{key!r}]'
    else:
        if w.narrow:
            probes = ['foo', 'foo1', 'bar', 'info_target', 'func_brush'] if kind == 2 else ['*', 'f*', 'foo*', 'b*']
        else:
            probes = SEARCH_PROBES if kind == 2 else PREFIX_PROBES
        probe = probes[c % len(probes)]
        if c % 2:
            probe = probe.upper()
        start = list(vmf.search(probe))
        it = vmf.search(probe)
        txt = f'm{mi}.search({probe!r})'
    action = d % 5
    acts = ['remove', 'rename', 'reclass', 'create_same', 'rename_then_remove'][action]
    w.log(f'for x in {txt}: {acts} x if pool index of x is {"odd" if e % 2 else "even"}'
          + (' (all)' if e % 3 == 0 else ''))
    visited = []
    touched = []
    n = 0
    created = 0
    # An index holds each entity at most once, search() looks at the name sets and then one class set, and the loop
    # body creates at most 5 entities: more yields than this means the iteration does not terminate by itself.
    limit = 4 * (len(vmf.entities) + 10)
    try:
        for x in it:
            n += 1
            if n > limit:
                w.fail('iter_unbounded', f'iteration over {txt} yielded more than {limit} entities '
                       f'({len(vmf.entities)} in the map)')
                break
            visited.append(x)
            i = w.find(x)
            if i < 0:
                continue            # spawn (or something unknown: the scan oracle reports that)
            if e % 3 and (i + e) % 2:
                continue
            if not any(t is x for t in touched):
                touched.append(x)
            if action == 0:
                x.remove()
                w.inmap[i] = False
            elif action == 1:
                x[TKEYS[i % 3]] = w.name(e + i)
            elif action == 2:
                x[CKEYS[i % 3]] = w.cls(e + i)
            elif action == 3:
                created += 1
                if created > 5 or len(w.pool) > 60:
                    continue
                new = vmf.create_ent(x['classname'], targetname=x['targetname'])
                w.pool.append([new, mi])
                w.inmap.append(True)
            else:
                x['targetname'] = w.name(e)
                x.remove()
                w.inmap[i] = False
    except RuntimeError as exc:
        w.fail('iter_runtime_error', f'iterating {txt} while mutating raised RuntimeError: {exc}')
        return
    lost = [x for x in start if not any(t is x for t in touched) and not any(v is x for v in visited)]
    if lost:
        w.fail('iter_skipped', f'iteration over {txt} never yielded {[w.describe(x) for x in lost]}, which matched '
               f'before and were not touched by the loop body')
    if touched:
        w.flag('iter_mutated')
        if len(start) >= 2:
            w.flag('iter_mutated_multi')
            w.nontrivial = True
    w.flag(f'iter_{["by_class", "by_target", "search", "search_prefix"][kind]}')


# -- worldspawn
def op_sp_set(w: World, a, b, c, d, e):
    mi = a % 2
    spawn = w.maps[mi].spawn
    key = w.key(b)
    val = w.value_for(key, c)
    w.log(f'm{mi}.spawn[{key!r}] = {val!r}')
    if key.casefold() == 'classname':
        if fold(val) == 'worldspawn':
            spawn[key] = val
            w.flag('spawn_reclass_same')
        else:
            w.flag('spawn_reclass_attempt')
            w.nontrivial = True
            try:
                spawn[key] = val
            except ValueError:
                w.flag('spawn_reclass_valueerror')
    else:
        if key.casefold() == 'targetname':
            w.flag('spawn_rename')
            w.nontrivial = True
        spawn[key] = val


def op_sp_del(w: World, a, b, c, d, e):
    mi = a % 2
    spawn = w.maps[mi].spawn
    key = w.key(b)
    w.log(f'del m{mi}.spawn[{key!r}]')
    if key.casefold() == 'classname':
        w.flag('spawn_del_class')
        w.nontrivial = True
        try:
            del spawn[key]
        except KeyError:
            pass
    else:
        del spawn[key]


def op_sp_pop(w: World, a, b, c, d, e):
    mi = a % 2
    spawn = w.maps[mi].spawn
    key = w.key(b)
    w.log(f'm{mi}.spawn.pop({key!r})')
    if key.casefold() == 'classname':
        w.flag('spawn_pop_class')
        w.nontrivial = True
        try:
            spawn.pop(key)
        except KeyError:
            pass
    else:
        spawn.pop(key)


def op_sp_clear(w: World, a, b, c, d, e):
    mi = a % 2
    spawn = w.maps[mi].spawn
    w.log(f'm{mi}.spawn.clear()')
    w.flag('spawn_clear')
    w.nontrivial = True
    try:
        spawn.clear()
    except ValueError:
        w.flag('spawn_clear_valueerror')


def op_sp_update(w: World, a, b, c, d, e):
    mi = a % 2
    spawn = w.maps[mi].spawn
    k1, k2 = w.key(b), w.key(d)
    items = {k1: w.value_for(k1, c)}
    items[k2] = w.value_for(k2, e)
    w.log(f'm{mi}.spawn.update({items!r})')
    bad = any(k.casefold() == 'classname' and fold(v) != 'worldspawn' for k, v in items.items())
    if bad:
        w.flag('spawn_reclass_attempt')
        w.nontrivial = True
        try:
            spawn.update(items)
        except ValueError:
            pass
    else:
        spawn.update(items)


def op_collapse(w: World, a, b, c, d, e):
    """instancing.collapse_one of a small template: one more public route that puts entities into a map."""
    from srctools import Matrix, Vec, instancing
    from srctools.vmf import VMF
    mi = a % 2
    vmf = w.maps[mi]
    tmpl = VMF(preserve_ids=True)
    made = []
    for k in range(1 + b % 3):
        kwargs = {'origin': '0 0 0'}
        if (c + k) % 3:
            kwargs[TKEYS[(c + k) % 3]] = w.name(c + d + k)
        odd = w.odd(d + e + k)
        if odd is not None:
            kwargs[odd[0]] = odd[1]
        cls = w.cls(b + k)
        tmpl.create_ent(cls, **kwargs)
        made.append((cls, kwargs))
    w.n_inst += 1
    inst = instancing.Instance('i%d' % w.n_inst, 'tmpl.vmf', Vec(16 * w.n_inst, 0, 0), Matrix(),
                               list(instancing.FixupStyle)[e % 3])
    instancing.collapse_one(vmf, inst, instancing.InstanceFile(tmpl))
    new = [x for x in vmf.entities if w.find(x) < 0]
    for x in new:
        w.pool.append([x, mi])
        w.inmap.append(True)
    w.flag('collapse')
    w.log(f'collapse_one(m{mi}, Instance({inst.name!r}, {inst.fixup_type.name}), <template with create_ent of {made}>)  -> '
          f'{["e%d" % w.find(x) for x in new]}')


def op_nop(w: World, a, b, c, d, e):
    return


OPS = {
    'nop': op_nop, 'create': op_create, 'new': op_new, 'add': op_add, 'add_many': op_add_many, 'remove': op_remove,
    'set': op_set, 'update': op_update, 'del': op_del, 'del2': op_del2, 'pop': op_pop, 'clear': op_clear,
    'unique': op_unique, 'copy': op_copy, 'iter': op_iter, 'collapse': op_collapse,
    'sp_set': op_sp_set, 'sp_del': op_sp_del, 'sp_pop': op_sp_pop, 'sp_clear': op_sp_clear, 'sp_update': op_sp_update,
}


_LOGGING_QUIET = False


def execute(desc, ctx):
    global _LOGGING_QUIET
    if not _LOGGING_QUIET:
        import logging
        logging.getLogger('srctools').setLevel(logging.ERROR)   # collapse_one warns about unknown keyvalues / classes
        _LOGGING_QUIET = True
    w = World(desc, ctx)
    try:
        for mi, origin in enumerate(desc['maps']):
            w.last_op = 'parse' if origin is not None else 'VMF()'
            w.maps.append(make_map(origin, mi, w))
        check_maps(w)
        for cmd in desc['cmds']:
            op, a, b, c, d, e = cmd
            w.last_op = op
            before = len(w.trace)
            OPS[op](w, a, b, c, d, e)
            if len(w.trace) == before:
                w.flag('noop_command')
                continue
            w.flag('op:' + op)
            if 'parsed_map_with_ents' in w.flags:
                w.nontrivial = True
            check_maps(w)
    finally:
        for f in sorted(w.flags):
            ctx.label(f)
        ctx.nontrivial(w.nontrivial)


def _sub(name: str, quick: int, thorough: int, floor: int, must_hit) -> Sub:
    return Sub(name, execute, strategy=strategy_for(name), quick=quick, thorough=thorough, floor=floor,
               must_hit=tuple(must_hit))


SUBCHECKS = [
    _sub('reclass', 1200, 40000, 100, ('rename_mixed_case', 'reclass_mixed_case', 'remove_mixed_case', 'set_detached',
                                       'op:update', 'name:lower_ne_casefold')),
    _sub('delete', 1200, 40000, 100, ('del_indexed', 'pop_indexed', 'clear_inmap', 'del_target_detached', 'clear_detached',
                                      'name:lower_ne_casefold')),
    _sub('lifecycle', 1000, 30000, 100, ('remove_mixed_case', 'cross_map_copy', 'add_ents_many', 'make_unique_inmap',
                                         'remove_detached', 'no_classname_entity', 'name:lower_ne_casefold',
                                         'add_ents_with_nodeid', 'odd:nodeid_non_numeric', 'odd:nodeid_numeric', 'collapse')),
    _sub('spawn', 600, 16000, 50, ('spawn_reclass_attempt', 'spawn_rename', 'spawn_del_class',
                                   'spawn_pop_class', 'spawn_clear')),
    _sub('parse', 600, 16000, 50, ('parsed_map_with_ents', 'remove_inmap', 'op:set', 'op:copy')),
    _sub('iterate', 800, 24000, 50, ('iter_mutated_multi', 'iter_by_class', 'iter_by_target', 'iter_search',
                                     'iter_search_prefix')),
    _sub('preserve', 800, 24000, 50, ('preserve_map', 'twin_id', 'remove_inmap', 'op:set', 'op:copy', 'parsed_map_with_ents',
                                      'add_ents_with_nodeid', 'collapse')),
    _sub('mixed', 1200, 50000, 100, ('rename_mixed_case', 'del_indexed', 'pop_indexed', 'clear_inmap', 'iter_mutated',
                                     'cross_map_copy', 'spawn_reclass_attempt', 'parsed_map_with_ents',
                                     'name:lower_ne_casefold', 'add_ents_with_nodeid', 'preserve_map', 'collapse')),
]

MATCHERS = {}
