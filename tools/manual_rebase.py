#!/usr/bin/env python3
"""manual_rebase.py <seed> <file> <<< JSON [[old,new],...]  -- re-express a seeded break on /repo HEAD and re-verify it."""
import json, subprocess, sys, os, shutil, tempfile
seed, rel = sys.argv[1], sys.argv[2]
edits = json.load(sys.stdin)
wt = tempfile.mkdtemp(prefix='wt_man_'); os.rmdir(wt)
subprocess.check_call(['git', '-C', '/repo', 'worktree', 'add', '-q', '--detach', wt, 'HEAD'])
try:
    p = os.path.join(wt, rel); s = open(p).read()
    for old, new in edits:
        assert s.count(old) == 1, (s.count(old), old)
        s = s.replace(old, new)
    open(p, 'w').write(s)
    diff = subprocess.check_output(['git', '-C', wt, 'diff'], text=True)
finally:
    subprocess.call(['git', '-C', '/repo', 'worktree', 'remove', '--force', wt])
tmp = tempfile.mkdtemp(prefix='seedtmp_')
sd = f'/verif/seeded/{seed}'
if not os.path.exists(sd + '/patch.orig.diff'):
    shutil.copy(sd + '/patch.diff', sd + '/patch.orig.diff')
open(tmp + '/patch.diff', 'w').write(diff)
shutil.copy(sd + '/demo.py', tmp); shutil.copy(sd + '/meta.json', tmp)
m = json.load(open(tmp + '/meta.json')); m['rebased'] = 'patch re-expressed by hand on top of the fix commits that touched the same lines (original in patch.orig.diff)'
json.dump(m, open(tmp + '/meta.json', 'w'), indent=1)
print(subprocess.run(['/verif/tools/verify_seed.sh', tmp, seed], capture_output=True, text=True).stdout[-300:])
shutil.rmtree(tmp)
