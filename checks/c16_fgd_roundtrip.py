"""C16 - FGD definitions survive text export, the binary database and lazy loading (DESIGN.md section 2, C16).

Sub-checks
  shipped_text  the bundled engine database, exported as one FGD and entity by entity, parsed back
  gen_text      generated FGDs built through the object API: canon(parse(export(f))) == canon(f), export fixed point
  binary        canon(unserialise(serialise(f))) == canon(f) for engine-format FGDs (shipped slices + generated)
  lazy          get_ent() in any order on a fresh EngineDB == the same class from a fully loaded database

``canon`` is an own walker over the public fields of EntityDef / KVDef / IODef / Resource / Helper; it never calls
export/parse code of the library.
"""
from __future__ import annotations

import contextlib
import copy
import io
import json
import os
import warnings

from hypothesis import strategies as st

from vlib.core import HarnessError, Sub
from vlib import gens

PROPERTY = 'C16'
LEVEL = 'exploration'
CAPS = (300, 2400)

# ------------------------------------------------------------------------------------------------
# Own tables (independent of the library; cross-checked against the enums once per process).

VT = [  # ValueTypes values, in enum order
    'void', 'choices', 'flags', 'string', 'boolean', 'integer', 'float', 'vector', 'angle',
    'target_destination', 'target_name_or_class', 'target_source', 'npcclass', 'pointentityclass',
    'filterclass', 'node_dest', 'node_id', 'scene', 'sound', 'particlesystem', 'sprite', 'decal',
    'material', 'studio', 'scriptlist', 'script', 'angle_negative_pitch', 'vecline', 'origin', 'axis',
    'color1', 'color255', 'sidelist', 'instance_file', 'instance_parm', 'instance_variable',
    'texture', 'vec_dir', 'vec_local', 'angle_pitch', 'angle_local', 'soundscape',
]
IO_VALID = {'void', 'integer', 'boolean', 'string', 'float', 'script', 'vector', 'target_destination', 'color255'}
# The documented decay table (fgd.VALUE_TO_IO_DECAY): valid I/O types stay, listed ones map, the rest are strings.
IO_DECAY = {v: (v if v in IO_VALID else 'string') for v in VT}
IO_DECAY.update({
    'flags': 'integer', 'node_id': 'integer', 'angle_negative_pitch': 'float', 'angle_pitch': 'float',
    'vecline': 'vector', 'origin': 'vector', 'axis': 'vector', 'vec_dir': 'vector', 'vec_local': 'vector',
    'angle': 'vector', 'angle_local': 'vector', 'color1': 'color255',
})
ENT_TYPES = ['baseclass', 'pointclass', 'solidclass', 'keyframeclass', 'moveclass', 'filterclass', 'npcclass',
             'extendclass']
# FileType names that have an FGD @resources keyword (RESTYPE_BY_NAME) / all that the binary format stores.
RES_TEXT = ['GENERIC', 'ENTITY', 'ENTCLASS_FUNC', 'GAME_SOUND', 'PARTICLE', 'VSCRIPT_SQUIRREL', 'MATERIAL',
            'TEXTURE', 'CHOREO', 'MODEL', 'BREAKABLE_CHUNK', 'WEAPON_SCRIPT']
RES_BIN = RES_TEXT + ['SOUNDSCRIPT', 'PARTICLE_FILE']
EXT_HELPERS = {'HelperExtAppliesTo', 'HelperExtOrderBy', 'HelperExtAutoVisgroups'}
NOARG_HELPERS = ['halfgridsnap', 'sweptplayerhull', 'instance', 'decal', 'overlay', 'overlay_transition', 'light',
                 'animator', 'quadbounds', 'worldtext', 'catapult']
KNOWN_HELPER_NAMES = {
    'base', 'halfgridsnap', 'size', 'bbox', 'color', 'sphere', 'line', 'frustum', 'cylinder', 'origin', 'vecline',
    'sidelist', 'wirebox', 'sweptplayerhull', 'obb', 'iconsprite', 'studio', 'studioprop', 'lightprop', 'sprite',
    'instance', 'decal', 'overlay', 'overlay_transition', 'light', 'lightcone', 'keyframe', 'animator',
    'quadbounds', 'worldtext', 'catapult', 'lightconenew', 'appliesto', 'orderby', 'autovis', 'aliasof',
}
CBASE = '_CBaseEntity_'
OPTION_SETS = [(True, True), (True, False), (False, True), (False, False)]  # (custom_syntax, label_spawnflags)

_CACHE: dict = {}


def _selfcheck() -> None:
    """The own tables must describe the enums of the tree under test (else the harness is out of date)."""
    if _CACHE.get('selfcheck'):
        return
    from srctools.fgd import EntityTypes, HelperTypes, ValueTypes
    if [t.value for t in ValueTypes] != VT:
        raise HarnessError('ValueTypes changed; update VT in c16: ' + repr([t.value for t in ValueTypes]))
    if [t.value for t in EntityTypes] != ENT_TYPES:
        raise HarnessError('EntityTypes changed; update ENT_TYPES in c16')
    if {t.value for t in HelperTypes} | {'aliasof'} != KNOWN_HELPER_NAMES:
        raise HarnessError('HelperTypes changed; update KNOWN_HELPER_NAMES in c16')
    _CACHE['selfcheck'] = True


# ------------------------------------------------------------------------------------------------
# Shipped database access: bytes read once per process, reference FGD built once (before forking).

def db_bytes() -> bytes:
    if 'bytes' not in _CACHE:
        import srctools
        with open(os.path.join(os.path.dirname(srctools.__file__), 'fgd.lzma'), 'rb') as f:
            _CACHE['bytes'] = f.read()
    return _CACHE['bytes']


def fresh_db():
    from srctools._engine_db import unserialise
    return unserialise(io.BytesIO(db_bytes()))


def full_fgd():
    """Reference: the whole database loaded at once (never mutated by the checks)."""
    if 'full' not in _CACHE:
        _CACHE['full'] = fresh_db().get_fgd()
    return _CACHE['full']


def class_names() -> list:
    if 'names' not in _CACHE:
        _CACHE['names'] = sorted(ent.classname for ent in full_fgd())
    return _CACHE['names']


def prepare(tier: str) -> None:
    _selfcheck()
    full_fgd()
    class_names()


# ------------------------------------------------------------------------------------------------
# canon: own walker

def _vt(attr) -> object:
    """Type of a KVDef/IODef as a JSON value (custom string types are kept apart)."""
    custom = attr.custom_type
    if custom is not None:
        return ['custom', custom]
    return attr.type.value


def _tags(tags) -> list:
    return sorted(tags)


WILD = '\x00<not carried without custom syntax>'


def _free_text(s: str, cs: bool) -> str:
    """A free text field as the chosen export mode can carry it.  custom_syntax=False documents '"' -> "''" and
    writes backslashes / CR unescaped for a parser that only knows \\n: such a field is not compared (WILD)."""
    if cs:
        return s
    if '\\' in s or '\r' in s:
        return WILD
    return s.replace('"', "''")


def canon_helper(h) -> list:
    import attrs
    from srctools.fgd import UnknownHelper
    from srctools.math import Vec
    if isinstance(h, UnknownHelper):
        return ['?' + h.name, list(h.args)]
    cls = type(h)
    fields = {}
    if attrs.has(cls):
        for f in attrs.fields(cls):
            v = getattr(h, f.name)
            if isinstance(v, Vec):
                v = ['vec', v.x, v.y, v.z]
            elif isinstance(v, tuple):
                v = ['tuple'] + [float(x) for x in v]
            elif isinstance(v, float):
                v = ['f', v]
            elif isinstance(v, list):
                v = list(v)
            fields[f.name] = v
    return [cls.__name__, h.TYPE.value if h.TYPE is not None else None, fields]


def canon_kv(kv, cs: bool, label: bool, binary: bool = False) -> dict:
    t = _vt(kv)
    out = {'name': kv.name, 'type': t, 'ro': bool(kv.readonly)}
    vals = None
    if t == 'flags':
        vals = []
        for bit, name, on, tags in (kv.val_list or ()):
            if binary:
                vals.append([int(bit), name, bool(on), _tags(tags)])
                continue
            name = _free_text(name.replace('\n', ' '), cs)
            if label:
                name = name.lstrip()
            vals.append([int(bit), name, bool(on), _tags(tags) if cs else []])
    elif t == 'choices':
        vals = []
        for value, name, tags in (kv.val_list or ()):
            vals.append([_free_text(value, cs), _free_text(name.replace('\n', ' '), False), _tags(tags) if cs else []])
    out['vals'] = vals
    if binary:
        # documented: no descriptions in the dump; 'reportable' and spawnflag defaults have no slot in the format.
        out['disp'] = kv.disp_name
        out['default'] = None if t == 'flags' else kv.default
        return out
    out['rep'] = bool(kv.reportable)
    if t == 'flags':
        # "Spawnflags never use names": the FGD syntax for flags has no display name / default / description.
        out['disp'] = out['default'] = out['desc'] = None
        return out
    default = kv.default
    if t == 'boolean':
        # exported as 0 when unset ("This has to be present"); yes/no are parsed as the old aliases of 1/0.
        low = default.casefold()
        default = {'': '0', 'yes': '1', 'no': '0'}.get(low, default)
    out['disp'] = _free_text(kv.disp_name, cs)
    out['default'] = _free_text(default, cs)
    out['desc'] = _free_text(kv.desc, cs)
    return out


def canon_io(iodef, cs: bool, binary: bool = False) -> dict:
    t = _vt(iodef)
    if binary:
        return {'name': iodef.name, 'type': t}
    if isinstance(t, str):
        t = IO_DECAY[t]
    return {'name': iodef.name, 'type': t, 'desc': _free_text(iodef.desc, cs)}


def _attr_map(mapping, fn, keep_tags: bool) -> list:
    """{name: {tags: attr}} -> sorted list of [name, tags, canon]; without tags the variants of a name form a set."""
    out = []
    for name, tag_map in mapping.items():
        for tags, attr in tag_map.items():
            out.append([name, _tags(tags) if keep_tags else [], fn(attr)])
    out.sort(key=lambda e: json.dumps(e, sort_keys=True))
    return out


def _base_name(base) -> str:
    return base if isinstance(base, str) else base.classname


def canon_ent_text(ent, cs: bool, label: bool) -> dict:
    res = None
    if cs and ent.resources != ():
        res = [[r.filename, r.type.name, _tags(r.tags)] for r in ent.resources]
    return {
        'class': ent.classname,
        'kind': ent.type.value,
        'bases': [_base_name(b) for b in ent.bases],
        'helpers': [canon_helper(h) for h in ent.helpers if cs or type(h).__name__ not in EXT_HELPERS],
        'desc': _free_text(ent.desc, cs),
        'kv': _attr_map(ent.keyvalues, lambda kv: canon_kv(kv, cs, label), cs),
        'in': _attr_map(ent.inputs, lambda i: canon_io(i, cs), cs),
        'out': _attr_map(ent.outputs, lambda i: canon_io(i, cs), cs),
        'res': res,
    }


def canon_ent_bin(ent, deep: bool = False, _seen: tuple = (), implicit_base: bool = False) -> dict:
    """Everything the binary format carries.  deep=True also walks the (resolved) base objects.
    implicit_base (originals only): a class written without bases is based on _CBaseEntity_ after loading."""
    from srctools.fgd import EntityDef
    bases = []
    for b in ent.bases:
        if deep:
            if not isinstance(b, EntityDef):
                bases.append(['UNRESOLVED', b])
            elif b.classname in _seen:
                bases.append(['LOOP', b.classname])
            else:
                bases.append(canon_ent_bin(b, True, _seen + (ent.classname,)))
        else:
            bases.append(_base_name(b))
    if implicit_base and not bases and ent.classname.casefold() != CBASE.casefold():
        bases = [CBASE]   # engine format: everything is based on _CBaseEntity_
    return {
        'class': ent.classname,
        'kind': ent.type.value,
        'alias': bool(ent.is_alias),
        'bases': bases,
        'kv': _attr_map(ent.keyvalues, lambda kv: canon_kv(kv, True, False, binary=True), True),
        'in': _attr_map(ent.inputs, lambda i: canon_io(i, True, binary=True), True),
        'out': _attr_map(ent.outputs, lambda i: canon_io(i, True, binary=True), True),
        'res': [[r.filename, r.type.name, _tags(r.tags)] for r in ent.resources],
    }


def first_diff(a, b, path: str = '') -> str:
    """Human-readable location of the first difference between two JSON-able values ('' if none).
    A WILD on the wanted side matches anything."""
    if isinstance(a, str) and a == WILD:
        return ''
    if type(a) is not type(b):
        return f'{path}: want {a!r:.300} got {b!r:.300}'
    if isinstance(a, dict):
        for k in sorted(set(a) | set(b)):
            if k not in a or k not in b:
                return f'{path}.{k}: present on one side only (want {a.get(k)!r:.200} got {b.get(k)!r:.200})'
            d = first_diff(a[k], b[k], f'{path}.{k}')
            if d:
                return d
        return ''
    if isinstance(a, list):
        for i, (x, y) in enumerate(zip(a, b)):
            d = first_diff(x, y, f'{path}[{i}]')
            if d:
                return d
        if len(a) != len(b):
            return f'{path}: length want {len(a)} got {len(b)}; extra={(a[len(b):] or b[len(a):])!r:.300}'
        return ''
    if a != b:
        if isinstance(a, str) and len(a) > 60:
            i = next((k for k, (x, y) in enumerate(zip(a, b)) if x != y), min(len(a), len(b)))
            return (f'{path}: strings (len {len(a)}/{len(b)}) differ at {i}: want ..{a[max(0, i - 15):i + 15]!r} '
                    f'got ..{b[max(0, i - 15):i + 15]!r}')
        return f'{path}: want {a!r} got {b!r}'
    return ''


def has_wild(canon) -> bool:
    if isinstance(canon, dict):
        return any(has_wild(v) for v in canon.values())
    if isinstance(canon, list):
        return any(has_wild(v) for v in canon)
    return isinstance(canon, str) and canon == WILD


def compare_text_canon(want: dict, got: dict, cs: bool) -> str:
    """'' if the parsed entity carries the same definition.  Without custom syntax the tagged variants of one
    name are written as duplicates and the parser keeps one of them (documented lossy mode): membership."""
    if cs:
        return first_diff(want, got)
    w2, g2 = dict(want), dict(got)
    for key in ('kv', 'in', 'out'):
        w, g = w2.pop(key), g2.pop(key)
        wnames, gnames = sorted({e[0] for e in w}), sorted({e[0] for e in g})
        if wnames != gnames:
            return f'.{key}: names want {wnames} got {gnames}'
        for e in g:
            cands = [x for x in w if x[0] == e[0]]
            if not any(first_diff(x, e) == '' for x in cands):
                return f'.{key}[{e[0]}]: ' + (first_diff(cands[0], e) if cands else 'unexpected')
        if len({e[0] for e in g}) != len(g):
            return f'.{key}: duplicate names after parse'
    return first_diff(w2, g2)


# ------------------------------------------------------------------------------------------------
# Text helpers

def parse_text(text: str, eval_bases: bool = True):
    from srctools.fgd import FGD
    from srctools.filesys import VirtualFileSystem
    fsys = VirtualFileSystem({'c16.fgd': text})
    fgd = FGD()
    fgd.parse_file(fsys, fsys['c16.fgd'], eval_bases=eval_bases)
    return fgd


def excerpt(text: str, line: int, radius: int = 3) -> str:
    lines = text.split('\n')
    lo, hi = max(0, line - 1 - radius), min(len(lines), line + radius)
    return '\n'.join(f'{i + 1:6}: {lines[i][:200]}' for i in range(lo, hi))


def reparse(ctx, text: str, what: str, eval_bases: bool = True, **facts):
    """Parse exported text; a syntax error in the library's own output is a violation of the round trip."""
    from srctools.tokenizer import TokenSyntaxError
    try:
        return parse_text(text, eval_bases)
    except TokenSyntaxError as exc:
        line = exc.line_num or 0
        ctx.fail('reparse', f'{what}: exported text does not parse: {exc.mess!r} at line {line}\n'
                 + excerpt(text, line), error=str(exc.mess), **facts)
        return None


def export_ent(ent, cs: bool, label: bool) -> str:
    buf = io.StringIO()
    ent.export(buf, label_spawnflags=label, custom_syntax=cs)
    return buf.getvalue()


# ------------------------------------------------------------------------------------------------
# (a) shipped_text

def shipped_enumerate(tier: str):
    names = class_names()
    seed = int(os.environ.get('VERIF_SEED', '1') or '1')
    if tier == 'quick':
        cs, label = OPTION_SETS[seed % 4]
        yield {'mode': 'whole', 'cs': cs, 'label': label}
        for i, name in enumerate(names):
            cs, label = OPTION_SETS[(i + seed) % 4]
            yield {'mode': 'ent', 'cls': name, 'cs': cs, 'label': label}
    else:
        for cs, label in OPTION_SETS:
            yield {'mode': 'whole', 'cs': cs, 'label': label}
        for name in names:
            for cs, label in OPTION_SETS:
                yield {'mode': 'ent', 'cls': name, 'cs': cs, 'label': label}


def _interesting_shipped(ent) -> bool:
    for tag_map in ent.keyvalues.values():
        for kv in tag_map.values():
            if kv.disp_name == '' or kv.default == '' or len(kv.disp_name) > 1000:
                return True
    return False


def execute_shipped(desc, ctx):
    _selfcheck()
    cs, label = desc['cs'], desc['label']
    full = full_fgd()
    ctx.label(f'cs{int(cs)}label{int(label)}', desc['mode'])
    if desc['mode'] == 'whole':
        ctx.nontrivial(True)
        text = full.export(label_spawnflags=label, custom_syntax=cs)
        parsed = reparse(ctx, text, 'whole shipped database', whole=True)
        if parsed is None:
            return
        ctx.check(sorted(parsed.entities) == sorted(full.entities), 'class_set',
                  f'classes differ after parse: missing={sorted(set(full.entities) - set(parsed.entities))[:10]} '
                  f'extra={sorted(set(parsed.entities) - set(full.entities))[:10]}')
        for key, ent in full.entities.items():
            if key not in parsed.entities:
                continue
            diff = compare_text_canon(canon_ent_text(ent, cs, label), canon_ent_text(parsed.entities[key], cs, label), cs)
            ctx.check(not diff, 'canon', f'{ent.classname} (cs={cs}, label={label}): {diff}', cls=ent.classname)
        text2 = parsed.export(label_spawnflags=label, custom_syntax=cs)
        if not cs:
            # the database holds backslashes (logic_console), which this mode cannot carry: stability after one round
            ctx.label('lossy_fixed_point')
            parsed2 = reparse(ctx, text2, 'whole shipped database, second export', whole=True)
            if parsed2 is None:
                return
            text, text2 = text2, parsed2.export(label_spawnflags=label, custom_syntax=cs)
        ctx.check(text2 == text, 'fixed_point',
                  'export(parse(export(db))) != export(db): ' + first_diff(text, text2), whole=True)
        return
    ent = full[desc['cls']]
    ctx.nontrivial(_interesting_shipped(ent))
    ctx.label('type:' + ent.type.name)
    if ent.is_alias:
        ctx.label('alias')
    text = export_ent(ent, cs, label)
    parsed = reparse(ctx, text, f'entity {ent.classname}', eval_bases=False, cls=ent.classname)
    if parsed is None:
        return
    ctx.check(list(parsed.entities) == [ent.classname.casefold()], 'class_set',
              f'{ent.classname}: parsed classes {list(parsed.entities)}\n{text[:1500]}')
    got = parsed.entities.get(ent.classname.casefold())
    if got is None:
        return
    want = canon_ent_text(ent, cs, label)
    diff = compare_text_canon(want, canon_ent_text(got, cs, label), cs)
    ctx.check(not diff, 'canon', f'{ent.classname} (cs={cs}, label={label}): {diff}\n{text[:1500]}', cls=ent.classname)
    text2 = export_ent(got, cs, label)
    if has_wild(want):
        ctx.label('lossy_fixed_point')
        parsed2 = reparse(ctx, text2, f'entity {ent.classname}, second export', eval_bases=False, cls=ent.classname)
        if parsed2 is None:
            return
        text, text2 = text2, export_ent(parsed2.entities[ent.classname.casefold()], cs, label)
    ctx.check(text2 == text, 'fixed_point', f'{ent.classname}: second export differs: {first_diff(text, text2)}',
              cls=ent.classname)


# ------------------------------------------------------------------------------------------------
# (b) generated FGDs: strategies produce descriptors only

TAG_POOL = ['A', 'B', 'HL2', 'P2', 'EP1', 'TF2', 'MBASE', '\xc9P', 'T\u4e2d', '\U0001f600']


def tags_strategy():
    one = st.tuples(st.sampled_from(['', '', '', '!', '+', '-']), st.sampled_from(TAG_POOL))
    tagged = st.lists(one, min_size=1, max_size=3, unique_by=lambda t: t[1]).map(lambda l: [p + t for p, t in l])
    return st.one_of(st.just([]), st.just([]), tagged)


def char_strategy():
    return st.one_of(
        st.sampled_from('"\\\n\t\' '),
        st.sampled_from('abcnrtvXYZ019 '),
        st.sampled_from(':+=,[]()/#@;{}-_.!?*<>|%&$~^`'),
        st.sampled_from('\r\v\b\f\a\x00\x7f'),
        st.sampled_from('\xe9\xfc€\xdfΩ中\U0001f600'),
    )


def short_text(max_size: int = 10):
    return st.text(char_strategy(), max_size=max_size)


def long_text():
    """[[unit, count], ...]: strings above the 1000-char split limit, with and without split opportunities."""
    unit = st.sampled_from(['a', 'b', 'ab', 'x ', 'word ', '\xe9', 'l\n', '\\', '"', '\t', "'", 'n', '\\n', ' ', '\n'])
    count = st.one_of(
        st.sampled_from([1, 2, 3, 126, 127, 128, 129, 130, 332, 333, 334, 498, 499, 500, 501, 502,
                         990, 994, 995, 996, 997, 998, 999, 1000, 1001, 1002, 1003, 1998, 1999, 2000, 2001]),
        st.integers(1, 1300),
    )
    part = st.one_of(st.tuples(unit, count).map(list), short_text(6).map(lambda s: [s, 1]))
    return st.lists(part, min_size=1, max_size=5)


def edge_text():
    """Plain filler up to just below the limit, then a cluster of characters that need escaping."""
    fill = st.tuples(st.sampled_from(['a', 'Z', '\xe9']), st.integers(985, 1001)).map(list)
    cluster = st.text(st.sampled_from('"\\\n\t\'n '), min_size=1, max_size=6).map(lambda s: [s, 1])
    tail = st.tuples(st.sampled_from(['a', 'b ', '\\', '"']), st.integers(0, 1100)).map(list)
    pre = st.text(st.sampled_from('"\\\n\tab'), max_size=3).map(lambda s: [s, 1])
    return st.tuples(pre, fill, cluster, tail).map(list)


def text_field(long_weight: bool = True):
    opts = [st.just(''), short_text(), short_text(), short_text(30)]
    if long_weight:
        opts += [long_text(), edge_text()]
    return st.one_of(*opts)


def expand(d) -> str:
    if isinstance(d, str):
        return d
    return ''.join(u * int(c) for u, c in d)[:6000]


# Strings that number parsers (int()/float()) accept or nearly accept, but which are not all safe bare tokens.
NUMBERLIKE = ['+5', '-5', '--5', '5-', '-', '+', ' 7', '12 ', ' 3 ', '\t4', '1e3', '1e+5', '0x10', '1_000', '\u0663', '007',
              '-0', '+0', '1.5', '.5', '5.', '+.5', 'inf', '-inf', 'nan', '+90', '5 5', '1,5', '']


# Identifier characters of 2-, 3- and 4-byte UTF-8 width whose upper()/casefold() round trips are trivial.
NON_ASCII_ID = ['\xe9', '\xc9', '\xfc', '\u03a9', '\u4e2d', '\u30c6', '\U0001f600', '\U00010348']


def uident(min_size: int = 1, max_size: int = 6):
    """Identifiers; about a quarter contain non-ASCII letters (bare tokens may hold any non-syntax character)."""
    plain = gens.ident(min_size, max_size)
    mixed = st.tuples(gens.ident(1, 3), st.lists(st.sampled_from(NON_ASCII_ID), min_size=1, max_size=2),
                      st.sampled_from(['', '_x', '1'])).map(lambda t: t[0] + ''.join(t[1]) + t[2])
    return st.one_of(plain, plain, plain, mixed)


# Letters whose casefold() is not their lower() (sharp s, capital sharp s, final sigma, long s, fi ligature, 'n):
# classnames are keyed and looked up by casefold() everywhere (FGD.entities, EngineDB.get_ent), so these are legal.
FOLD_ID = ['\xdf', '\u1e9e', '\u03c2', '\u017f', '\ufb01', '\u0149']


def class_ident(min_size: int = 1, max_size: int = 8):
    """Class names: uident, and about a fifth with a letter for which str.lower() != str.casefold()."""
    foldy = st.tuples(gens.ident(1, 4), st.sampled_from(FOLD_ID), st.sampled_from(['', 'e', 'X', '_b'])).map(''.join)
    base = uident(min_size, max_size)
    return st.one_of(base, base.map(lambda x: x), foldy)


def _non_ascii(s) -> bool:
    return isinstance(s, str) and not s.isascii()


def kv_name():
    return st.one_of(st.sampled_from(['k0', 'k1', 'K2', 'spawnflags', 'model', 'k\xe9', 'K\u4e2d\U0001f600']), uident(1, 6))


def value_item():
    return st.fixed_dictionaries({
        'v': st.one_of(st.integers(-3, 40).map(str), st.sampled_from(['0.5', '-1.25', '1e3', 'on', 'a b']),
                       st.sampled_from(NUMBERLIKE), short_text(6)),
        'bit': st.integers(0, 31),
        'name': st.one_of(short_text(8), short_text(8), st.just(''), long_text(), edge_text()),
        'on': st.booleans(),
        'tags': tags_strategy(),
    })


def default_field():
    return st.one_of(st.just(''), st.just(''), st.integers(-5, 300).map(str), st.sampled_from(['-', '1-2', '0 0 0', '255 128 0 200']),
                     st.sampled_from(NUMBERLIKE), st.sampled_from(NUMBERLIKE), short_text(8), short_text(8),
                     st.sampled_from(['yes', 'Yes', 'NO', 'no', 'True', 'false', 'ON']))


def kv_strategy(engine: bool):
    type_idx = st.one_of(st.sampled_from([1, 2, 3, 4]), st.integers(0, len(VT) - 1))
    if engine:
        type_idx = type_idx.filter(lambda i: VT[i] != 'choices')
    return st.fixed_dictionaries({
        'name': kv_name(),
        'tags': st.just([]) if engine else tags_strategy(),
        'type': type_idx,
        'disp': text_field(not engine),
        'default': default_field(),
        'desc': text_field(not engine),
        'ro': st.booleans(),
        'rep': st.booleans(),
        'vals': st.lists(value_item(), max_size=4),
        # del ent.kv[name, tags] afterwards: the API leaves an empty tag map behind
        'ghost': st.sampled_from([False] * 11 + [True]),
    })


def io_strategy(engine: bool):
    return st.fixed_dictionaries({
        'name': st.one_of(st.sampled_from(['Enable', 'OnUser1', 'setvalue', 'On\xc9v\U0001f600']), uident(1, 6)),
        'tags': st.just([]) if engine else tags_strategy(),
        'type': st.one_of(st.sampled_from([0, 0, 3, 4, 5]), st.integers(0, len(VT) - 1)),
        'desc': st.one_of(st.just(''), short_text(), long_text() if not engine else short_text()),
    })


def path_text():
    return st.text(st.one_of(st.sampled_from('abcmodels/_.019-'), st.sampled_from('abcmodels/_.019-'),
                             st.sampled_from('abcmodels/_.019-'), st.sampled_from(NON_ASCII_ID)), min_size=1, max_size=12)


def num_q():
    """Numbers that every formatter in use ({:g}, format_float, str(Vec)) prints exactly: multiples of 1/4."""
    return st.integers(-4096 * 4, 4096 * 4).map(lambda n: n / 4)


def vec_q():
    return st.tuples(num_q(), num_q(), num_q()).map(list)


def col_q():
    return st.tuples(*[st.integers(0, 510).map(lambda n: n / 2)] * 3).map(list)


# Identifier arguments that the helper classes treat as "the default" (position in the descriptor -> default).
HELPER_DEFAULTS = {
    'origin': {1: 'origin'}, 'vecline': {1: 'origin'}, 'sidelist': {1: 'sides'}, 'sphere': {2: 'radius'},
    'lightcone': {1: '_inner_cone', 2: '_cone', 3: '_light'},
    'frustum': {1: '_fov', 2: '_nearplane', 3: '_farz', 4: '_light'},
    'studio': {1: 'model'}, 'studioprop': {1: 'model'}, 'lightprop': {1: 'model'}, 'iconsprite': {1: 'model'},
    'sprite': {1: 'model'}, 'keyframe': {1: 'targetname'},
}


def case_variants(word: str) -> list:
    out = []
    for v in (word.title(), word.upper(), word.swapcase(), word[:-1] + word[-1:].upper()):
        if v != word and v not in out:
            out.append(v)
    return out


def kw(base, *defaults):
    """An identifier argument: free, exactly one of the helper's defaults, or a default in other capitalisation."""
    variants = [v for d in defaults for v in case_variants(d)]
    return st.one_of(base, st.sampled_from(list(defaults)), st.sampled_from(variants), st.sampled_from(variants))


def helper_strategy():
    idn = uident(1, 6)
    known_cased = sorted(v for n in KNOWN_HELPER_NAMES for v in case_variants(n))
    return st.one_of(
        st.sampled_from(NOARG_HELPERS).map(lambda n: [n]),
        st.tuples(st.sampled_from(['size', 'bbox']), vec_q(), vec_q()).map(list),
        st.tuples(st.just('color'), col_q()).map(list),
        st.tuples(st.just('sphere'), col_q() | st.just([255.0, 255.0, 255.0]), kw(idn, 'radius')).map(list),
        st.tuples(st.just('line'), col_q(), idn, idn, st.none() | st.tuples(idn, idn).map(list)).map(list),
        st.tuples(st.just('cylinder'), col_q(), idn, idn, st.integers(0, 3), idn, idn, idn, idn).map(list),
        st.tuples(st.just('frustum'), kw(idn, '_fov') | num_q(), kw(idn, '_nearplane') | num_q(), kw(idn, '_farz') | num_q(),
                  kw(idn, '_light') | col_q(), idn | num_q()).map(list),
        st.tuples(st.sampled_from(['origin', 'vecline', 'sidelist']), kw(idn, 'origin', 'sides')).map(list),
        st.tuples(st.sampled_from(['wirebox', 'obb']), idn, idn).map(list),
        st.tuples(st.sampled_from(['iconsprite', 'sprite']), st.none() | path_text() | kw(path_text(), 'model')).map(list),
        st.tuples(st.sampled_from(['studio', 'studioprop', 'lightprop']),
                  st.none() | path_text() | path_text().map(lambda p: f'"{p}"') | kw(path_text(), 'model')).map(list),
        st.tuples(st.just('lightcone'), kw(idn, '_inner_cone'), kw(idn, '_cone'), kw(idn, '_light'),
                  num_q() | st.just(1.0)).map(list),
        st.tuples(st.just('lightconenew'), idn, idn, idn).map(list),
        st.tuples(st.just('keyframe'), st.none() | kw(idn, 'targetname')).map(list),
        st.tuples(st.just('appliesto'), tags_strategy()).map(list),
        st.tuples(st.just('orderby'), st.lists(kv_name(), max_size=4)).map(list),
        # helper names that are known keywords in other capitalisation (HelperTypes / aliasof match exactly)
        st.tuples(st.just('unknown_kw'), st.sampled_from(known_cased),
                  st.lists(st.one_of(idn, st.integers(-9, 99).map(str)), max_size=3)).map(list),
        st.tuples(st.just('unknown'), idn, st.lists(st.one_of(idn, path_text(), st.integers(-9, 99).map(str), st.just('')),
                                                     max_size=4)).map(list),
    )


def res_strategy(engine: bool):
    return st.fixed_dictionaries({
        'file': st.one_of(path_text(), short_text(8)),
        'type': st.integers(0, len(RES_BIN if engine else RES_TEXT) - 1),
        'tags': tags_strategy(),
    })


def ent_strategy(engine: bool):
    return st.fixed_dictionaries({
        'kind': st.integers(0, len(ENT_TYPES) - 1),
        'name': class_ident(1, 8),
        'bases': st.lists(st.integers(0, 30), max_size=0 if engine else 3),
        'alias': st.booleans() if not engine else st.sampled_from([False, False, False, True]),
        'nobase': st.booleans(),          # engine format only: leave .bases empty instead of [_CBaseEntity_]
        'target': st.integers(0, 30),     # engine format only: alias target
        'desc': text_field(not engine),
        'helpers': st.lists(helper_strategy(), max_size=4),
        'kvs': st.lists(kv_strategy(engine), max_size=6),
        'order': st.integers(0, 4),
        'ins': st.lists(io_strategy(engine), max_size=3),
        'outs': st.lists(io_strategy(engine), max_size=3),
        'res': st.none() | st.lists(res_strategy(engine), max_size=4),
        # near-duplicates: a keyvalue of an earlier entity repeated here, identical except for one field
        'twins': st.lists(st.tuples(st.integers(0, 30), st.integers(0, 30),
                                    st.sampled_from(['ro', 'ro', 'same', 'default', 'disp', 'type', 'rep'])).map(list),
                          max_size=2),
    })


def gen_text_strategy(tier: str):
    return st.fixed_dictionaries({
        'cs': st.sampled_from([True, True, False]),
        'label': st.booleans(),
        'ents': st.lists(ent_strategy(False), min_size=1, max_size=5),
    })


def gen_bin_strategy(tier: str):
    return st.fixed_dictionaries({
        'src': st.just('gen'),
        'ents': st.lists(ent_strategy(True), min_size=1, max_size=11),
        'order': st.lists(st.integers(0, 40), max_size=8),
    })


# ---- builders (descriptor -> objects; apply the preconditions listed in ASSUMPTIONS)

def _is_number(s: str) -> bool:
    try:
        float(s)
    except ValueError:
        return False
    return True


def _plain_number(s: str) -> bool:
    return bool(s) and all(c in '0123456789-.' for c in s) and _is_number(s)


class Stats:
    def __init__(self) -> None:
        self.labels: set = set()
        self.nontrivial = False


def _field(d, cs: bool, stats: Stats, what: str) -> str:
    s = expand(d)
    if not cs:
        # custom_syntax=False writes text for the original parser, which only knows \n: backslashes and
        # bare carriage returns cannot be carried (documented in _fgd_escape).
        s = s.replace('\\', '').replace('\r', '')
    if len(s) > 1000:
        stats.labels.add('long')
        stats.nontrivial = True
        if ' ' in s[:1000]:
            stats.labels.add('long_with_space')
        else:
            stats.labels.add('long_no_space')
        if '\n' in s:
            stats.labels.add('long_with_newline')
    return s


def build_helper(h):
    from srctools import fgd as F
    from srctools.math import Vec
    kind = h[0]
    if kind in ('unknown', 'unknown_kw'):
        name = 'x_' + h[1] if kind == 'unknown' else h[1]
        args = [a.strip() for a in h[2]]
        if args == ['']:
            args = []       # helper('') and helper() are the same text
        return F.UnknownHelper(name, args)
    cls = F.HELPER_IMPL[F.HelperTypes(kind)]
    if kind in NOARG_HELPERS:
        return cls()
    if kind in ('size', 'bbox'):
        return cls(Vec(*h[1]), Vec(*h[2]))
    if kind == 'color':
        return cls(*h[1])
    if kind == 'sphere':
        return cls(h[1][0], h[1][1], h[1][2], h[2])
    if kind == 'line':
        end = h[4] or [None, None]
        return cls(h[1][0], h[1][1], h[1][2], h[2], h[3], end[0], end[1])
    if kind == 'cylinder':
        form = h[4]   # 0: 3 args, 1: +start radius, 2: +end key/value, 3: +end radius
        sr = h[5] if form >= 1 else None
        ek, ev = (h[6], h[7]) if form >= 2 else (None, None)
        er = h[8] if form >= 3 else None
        return cls(h[1][0], h[1][1], h[1][2], h[2], h[3], ek, ev, sr, er)
    if kind == 'frustum':
        def num_or_key(x):
            return x if isinstance(x, str) else float(x)
        col = h[4] if isinstance(h[4], str) else tuple(float(x) for x in h[4])
        return cls(num_or_key(h[1]), num_or_key(h[2]), num_or_key(h[3]), col, num_or_key(h[5]))
    if kind in ('origin', 'vecline', 'sidelist', 'iconsprite', 'sprite', 'studio', 'studioprop', 'lightprop', 'keyframe'):
        return cls(h[1])
    if kind in ('wirebox', 'obb'):
        return cls(h[1], h[2])
    if kind == 'lightcone':
        return cls(h[1], h[2], h[3], float(h[4]))
    if kind == 'lightconenew':
        return cls(h[1], h[2], h[3])
    if kind in ('appliesto', 'orderby'):
        return cls(list(h[1]))
    raise HarnessError(f'unknown helper descriptor {h!r}')


def build_kv(kd, cs: bool, stats: Stats, engine: bool = False):
    from srctools.fgd import KVDef, ValueTypes
    vt = ValueTypes(VT[kd['type'] % len(VT)])
    stats.labels.add('vt:' + vt.value)
    disp = _field(kd['disp'], cs, stats, 'disp')
    default = _field(kd['default'], cs, stats, 'default')
    desc = _field(kd['desc'], cs, stats, 'desc')
    val_list = None
    if vt is ValueTypes.SPAWNFLAGS:
        # the FGD syntax for flags has neither display name, default nor description
        default = desc = ''
        val_list = []
        for it in kd['vals']:
            name = _field(it['name'], cs, stats, 'flagname')
            if not engine:
                name = name.lstrip()
                if name.startswith('['):
                    name = 'f' + name   # a leading "[N]" is documented to be read as the generated label
            tags = frozenset(t.upper() for t in it['tags']) if not engine else frozenset()
            if tags:
                stats.labels.add('flag_tags')
                stats.nontrivial = True
            if name == '':
                stats.labels.add('empty_flag_name')
            val_list.append((1 << it['bit'], name, it['on'], tags))
        stats.labels.add('flags')
    elif vt is ValueTypes.CHOICES:
        val_list = []
        for it in kd['vals']:
            # choice captions are always written in the original-parser form (no escapes)
            name = expand(it['name']).replace('\\', '').replace('\r', '')
            if len(name) > 1000:
                stats.labels.add('long')
            value = expand(it['v'])
            if not cs:
                value = value.replace('\\', '').replace('\r', '')
            if value in NUMBERLIKE and value:
                stats.labels.add('choice:numberlike')
            tags = frozenset(t.upper() for t in it['tags'])
            if tags:
                stats.labels.add('choice_tags')
                stats.nontrivial = True
            if name == '':
                stats.labels.add('empty_choice_name')
                stats.nontrivial = True
            val_list.append((value, name, tags))
        stats.labels.add('choices')
    elif vt is ValueTypes.BOOL and default.casefold() in ('yes', 'no'):
        default = '1' if default.casefold() == 'yes' else '0'
    if disp == '' and vt is not ValueTypes.SPAWNFLAGS:
        stats.labels.add('empty_disp')
        stats.nontrivial = True
        if not default and not desc and vt is not ValueTypes.BOOL:
            stats.labels.add('empty_disp_nothing_after')
    if default == '' and desc:
        stats.labels.add('desc_without_default')
    if any(c in default for c in '"\\\n'):
        stats.labels.add('default_needs_escape')
    if default.casefold() in ('yes', 'no', 'true', 'false', 'on') and vt is not ValueTypes.SPAWNFLAGS:
        stats.labels.add('default:boolish_word')
    if default in NUMBERLIKE and default and vt is not ValueTypes.SPAWNFLAGS:
        stats.labels.add('default:numberlike')
        if default != default.strip() or '+' in default:
            stats.labels.add('default:numberlike_not_bare_safe')
    return KVDef(kd['name'], vt, disp, default, desc, val_list, bool(kd['ro']), bool(kd['rep']))


def build_io(d, cs: bool, stats: Stats):
    from srctools.fgd import IODef, ValueTypes
    vt = ValueTypes(VT[d['type'] % len(VT)])
    stats.labels.add('io_valid' if vt.value in IO_VALID else 'io_decays')
    return IODef(d['name'], vt, _field(d['desc'], cs, stats, 'iodesc'))


def build_resources(rd, names, engine: bool):
    from srctools.const import FileType
    from srctools.fgd import Resource
    if rd is None:
        return ()
    return [
        Resource(expand(r['file']).replace('\x1f', ''), FileType[names[r['type'] % len(names)]],
                 frozenset(t.upper() for t in r['tags']))
        for r in rd
    ]


def _name_labels(ed, classname: str, stats: Stats) -> None:
    if _non_ascii(classname):
        stats.labels.add('name:non_ascii_class')
    if classname.lower() != classname.casefold():
        stats.labels.add('name:class_casefold_not_lower')
    if any(_non_ascii(k['name']) for k in ed['kvs']):
        stats.labels.add('name:non_ascii_kv')
    if any(_non_ascii(d['name']) for d in ed['ins'] + ed['outs']):
        stats.labels.add('name:non_ascii_io')
    if any(_non_ascii(a) for h in ed['helpers'] for a in h[1:] if isinstance(a, str)):
        stats.labels.add('name:non_ascii_helper_arg')
    if ed['res'] and any(_non_ascii(expand(r['file'])) for r in ed['res']):
        stats.labels.add('name:non_ascii_res_path')
    if ed['res'] and any(_non_ascii(t) for r in ed['res'] for t in r['tags']):
        stats.labels.add('name:non_ascii_res_tag')


def with_twins(desc_ents, i: int, stats: Stats) -> list:
    """The keyvalue descriptors of entity i, plus its 'twins': copies of an earlier entity's keyvalue with one field changed."""
    ed = desc_ents[i]
    kvs = list(ed['kvs'])
    if i == 0:
        return kvs
    for src, idx, flip in ed.get('twins', ()):
        src_kvs = desc_ents[src % i]['kvs']
        if not src_kvs:
            continue
        kd = dict(src_kvs[idx % len(src_kvs)], ghost=False)
        if flip == 'ro':
            kd['ro'] = not kd['ro']
        elif flip == 'rep':
            kd['rep'] = not kd['rep']
        elif flip == 'default':
            kd['default'] = expand(kd['default'])[:20] + '7'
        elif flip == 'disp':
            kd['disp'] = expand(kd['disp'])[:20] + ' (2)'
        elif flip == 'type':
            kd['type'] = 3 if VT[kd['type'] % len(VT)] != 'string' else 5
        stats.labels.add('kv_twin:' + flip)
        kvs.append(kd)
    return kvs


def build_text_fgd(desc, stats: Stats):
    """A general FGD through the object API (FGD(), EntityDef(), ent.kv[name, tags] = KVDef(...), ...)."""
    from srctools.fgd import FGD, EntityDef, EntityTypes
    cs = desc['cs']
    fgd = FGD()
    ents = []
    for i, ed in enumerate(desc['ents']):
        ent = EntityDef(EntityTypes(ENT_TYPES[ed['kind'] % len(ENT_TYPES)]), f"{ed['name']}_{i}")
        stats.labels.add('type:' + ent.type.name)
        _name_labels(ed, ent.classname, stats)
        if i:
            seen = []
            for b in ed['bases']:
                base = ents[b % i]
                if base not in seen:    # base() lists a class once; earlier entities only -> no loops
                    seen.append(base)
            ent.bases = list(seen)
            if len(seen) == 1 and ed['alias']:
                ent.is_alias = True
                stats.labels.add('alias')
            if seen:
                stats.labels.add('bases')
        ent.desc = _field(ed['desc'], cs, stats, 'entdesc')
        ent.helpers = [build_helper(h) for h in ed['helpers']]
        for h in ed['helpers']:
            stats.labels.add('helper:' + h[0])
            for pos, default in HELPER_DEFAULTS.get(h[0], {}).items():
                if isinstance(h[pos], str) and h[pos].casefold() == default:
                    stats.labels.add('helper_arg:default_exact' if h[pos] == default else 'helper_arg:default_case_variant')
                    if h[0] in ('origin', 'vecline', 'sidelist', 'lightcone') and h[pos] != default:
                        stats.labels.add('helper_arg:omittable_default_case_variant')
        for kd in with_twins(desc['ents'], i, stats):
            kv = build_kv(kd, cs, stats)
            key = kd['name'].casefold()
            if key not in ent.keyvalues:
                ent.kv_order.append(key)
            elif frozenset(t.upper() for t in kd['tags']) not in ent.keyvalues[key]:
                stats.labels.add('tagged_dup')
                stats.nontrivial = True
            if kd['tags']:
                stats.labels.add('kv_tags')
                stats.nontrivial = True
            ent.kv[kd['name'], kd['tags']] = kv
            if kd.get('ghost'):
                del ent.kv[kd['name'], kd['tags']]
                if not ent.keyvalues[key]:
                    stats.labels.add('empty_tag_map')
        mode = ed['order']
        if mode == 1:
            ent.kv_order.reverse()
        elif mode == 2:
            ent.kv_order.clear()
        elif mode == 3:
            ent.kv_order = ent.kv_order[1:] + ['not_a_key']
        for io_list, view in ((ed['ins'], ent.inp), (ed['outs'], ent.out)):
            for d in io_list:
                if d['tags']:
                    stats.labels.add('io_tags')
                view[d['name'], d['tags']] = build_io(d, cs, stats)
        ent.resources = build_resources(ed['res'], RES_TEXT, False)
        if ed['res'] is not None:
            stats.labels.add('resources' if ed['res'] else 'resources_empty_block')
            if any(r['tags'] for r in ed['res']):
                stats.labels.add('res_tags')
        ents.append(ent)
        fgd.entities[ent.classname.casefold()] = ent
    return fgd


def has_variants(fgd) -> bool:
    for ent in fgd:
        for mapping in (ent.keyvalues, ent.inputs, ent.outputs):
            if any(len(tag_map) > 1 for tag_map in mapping.values()):
                return True
    return False


def has_ext_helpers(fgd) -> bool:
    return any(type(h).__name__ in EXT_HELPERS for ent in fgd for h in ent.helpers)


def execute_gen_text(desc, ctx):
    _selfcheck()
    cs, label = desc['cs'], desc['label']
    stats = Stats()
    fgd = build_text_fgd(desc, stats)
    want = {key: canon_ent_text(ent, cs, label) for key, ent in fgd.entities.items()}
    ctx.label(f'cs{int(cs)}', f'label{int(label)}', *sorted(stats.labels))
    ctx.nontrivial(stats.nontrivial)

    text = fgd.export(label_spawnflags=label, custom_syntax=cs)
    after = {key: canon_ent_text(ent, cs, label) for key, ent in fgd.entities.items()}
    ctx.check(after == want, 'export_mutates', 'export() changed the definitions: ' + first_diff(want, after))
    if '\\"" +' in text or '\\" +' in text:
        ctx.label('escaped_quote_at_chunk_end')
    if '" +\n' in text:
        ctx.label('split')

    parsed = reparse(ctx, text, f'generated FGD (cs={cs}, label={label})', gen=True)
    if parsed is None:
        return
    ctx.check(sorted(parsed.entities) == sorted(fgd.entities), 'class_set',
              f'classes want {sorted(fgd.entities)} got {sorted(parsed.entities)}\n{text[:3000]}')
    for key, w in want.items():
        if key not in parsed.entities:
            continue
        diff = compare_text_canon(w, canon_ent_text(parsed.entities[key], cs, label), cs)
        if diff:
            ctx.fail('canon', f'{w["class"]} (cs={cs}, label={label}): {diff}\n--- text\n{text[:3000]}',
                     diff=diff.split(':')[0])
    text2 = parsed.export(label_spawnflags=label, custom_syntax=cs)
    if cs or not (has_variants(fgd) or has_ext_helpers(fgd)):
        ctx.check(text2 == text, 'fixed_point',
                  f'export(parse(export(f))) != export(f) (cs={cs}, label={label}): {first_diff(text, text2)}\n'
                  f'--- first\n{text[:2500]}\n--- second\n{text2[:2500]}')
    else:
        # documented lossy mode and f holds things it drops (tag variants, extension helpers): the text
        # reached after one round must be stable.
        ctx.label('lossy_fixed_point')
        parsed2 = reparse(ctx, text2, f'second export (cs={cs}, label={label})', gen=True)
        if parsed2 is not None:
            text3 = parsed2.export(label_spawnflags=label, custom_syntax=cs)
            ctx.check(text3 == text2, 'fixed_point',
                      f'lossy mode: export(parse(t2)) != t2 (label={label}): {first_diff(text2, text3)}\n'
                      f'--- second\n{text2[:2500]}\n--- third\n{text3[:2500]}')
    # entity by entity (bases stay names)
    for key, ent in fgd.entities.items():
        t1 = export_ent(ent, cs, label)
        p1 = reparse(ctx, t1, f'single entity {ent.classname}', eval_bases=False, gen=True)
        if p1 is None or key not in p1.entities:
            ctx.check(p1 is None, 'class_set', f'single entity {ent.classname} missing after parse\n{t1[:2000]}')
            continue
        diff = compare_text_canon(want[key], canon_ent_text(p1.entities[key], cs, label), cs)
        ctx.check(not diff, 'canon', f'single entity {ent.classname} (cs={cs}, label={label}): {diff}\n{t1[:2500]}',
                  diff=diff.split(':')[0])


# ------------------------------------------------------------------------------------------------
# (c) binary

PAD_KVS = 190   # x3 distinct strings > SHARED_STRINGS (512): serialise() requires a full shared-string table


def build_engine_fgd(desc, stats: Stats):
    """_CBaseEntity_ + entities whose only base it is (or none) + aliases of earlier entities; untagged."""
    from srctools.fgd import FGD, EntityDef, EntityTypes, KVDef, ValueTypes
    fgd = FGD()
    ents = []
    for i, ed in enumerate(desc['ents']):
        if i == 0:
            ent = EntityDef(EntityTypes.BASE, CBASE)
        else:
            override = (desc.get('classnames') or [None] * (i + 1))[i]
            ent = EntityDef(EntityTypes(ENT_TYPES[ed['kind'] % len(ENT_TYPES)]), override or f"{ed['name']}_{i}")
            if ed['alias'] and i > 1:
                ent.is_alias = True
                ent.bases = [ents[1 + ed['target'] % (i - 1)]]
                stats.labels.add('alias')
            elif ed['nobase']:
                stats.labels.add('nobase')
            else:
                ent.bases = [ents[0]]
        stats.labels.add('type:' + ent.type.name)
        if i:
            _name_labels(ed, ent.classname, stats)
        ent.desc = expand(ed['desc'])
        ent.helpers = [build_helper(h) for h in ed['helpers']]
        for kd in with_twins(desc['ents'], i, stats):
            kv = build_kv(kd, True, stats, engine=True)
            for attr in ('name', 'disp_name', 'default'):
                setattr(kv, attr, getattr(kv, attr).replace('\x1f', ''))
            if kv.val_list:
                kv.val_list = [(b, n.replace('\x1f', ''), d, t) for b, n, d, t in kv.val_list]
            if kv.name.casefold() not in ent.keyvalues:
                ent.kv_order.append(kv.name.casefold())
            if kv.default:
                stats.labels.add('kv_default')
            if kv.readonly:
                stats.labels.add('kv_readonly')
            ent.kv[kd['name']] = kv
            if kd.get('ghost'):
                del ent.kv[kd['name'], ()]
                stats.labels.add('empty_tag_map')
        for io_list, view in ((ed['ins'], ent.inp), (ed['outs'], ent.out)):
            for d in io_list:
                view[d['name']] = build_io(d, True, stats)
        ent.resources = build_resources(ed['res'], RES_BIN, True)
        if ed['res'] and any(r['tags'] for r in ed['res']):
            stats.labels.add('res_tags')
        ents.append(ent)
        fgd.entities[ent.classname.casefold()] = ent
    pad = EntityDef(EntityTypes.POINT, 'zz_pad')
    pad.bases = [ents[0]]
    for k in range(PAD_KVS):
        pad.kv[f'pad{k}'] = KVDef(f'pad{k}', ValueTypes.STRING, f'Pad name {k}', f'pad default {k}')
    fgd.entities['zz_pad'] = pad
    return fgd


def roundtrip_binary(fgd):
    from srctools._engine_db import serialise, unserialise
    arg = copy.deepcopy(fgd)   # serialise() pops _cbaseentity_ from its argument
    buf = io.BytesIO()
    with contextlib.redirect_stdout(io.StringIO()), warnings.catch_warnings():
        warnings.simplefilter('ignore')
        serialise(arg, buf)    # prints progress
    return buf.getvalue()


def shipped_slice(start: int, count: int):
    """A slice of the shipped database in engine format: the classes, the targets of their aliases, _CBaseEntity_."""
    from srctools.fgd import FGD
    full = full_fgd()
    names = class_names()
    todo = [n for n in names[start:start + count]]
    chosen: dict = {}
    while todo:
        ent = full[todo.pop()]
        key = ent.classname.casefold()
        if key in chosen:
            continue
        chosen[key] = ent
        for b in ent.bases:
            todo.append(_base_name(b))
    chosen.setdefault(CBASE.casefold(), full[CBASE])
    fgd = FGD()
    for key in sorted(chosen):
        fgd.entities[key] = chosen[key]
    return fgd


SLICE = 150


def binary_enumerate(tier: str):
    n = len(class_names())
    seed = int(os.environ.get('VERIF_SEED', '1') or '1')
    starts = list(range(0, n, SLICE))
    if tier == 'quick':
        starts = [starts[seed % len(starts)]]
    for s in starts:
        yield {'src': 'shipped', 'start': s, 'count': SLICE}


def execute_binary(desc, ctx):
    _selfcheck()
    from srctools._engine_db import unserialise
    from srctools.fgd import EntityDef
    stats = Stats()
    if desc['src'] == 'shipped':
        fgd = shipped_slice(desc['start'], desc['count'])
        ctx.label('shipped_slice')
        order = sorted(fgd.entities, reverse=True)[:40]
    else:
        fgd = build_engine_fgd(desc, stats)
        ctx.label('generated', *sorted(stats.labels))
        keys = [k for k in fgd.entities]
        order = [keys[i % len(keys)] for i in desc['order']]
    want = {key: canon_ent_bin(ent, implicit_base=True) for key, ent in fgd.entities.items()}
    ctx.nontrivial(True)
    data = roundtrip_binary(fgd)
    after = {key: canon_ent_bin(ent, implicit_base=True) for key, ent in fgd.entities.items()}
    ctx.check(after == want, 'serialise_mutates', 'serialise(deepcopy(f)) changed f: ' + first_diff(want, after))

    db = unserialise(io.BytesIO(data))
    ctx.check(sorted(db.get_classnames()) == sorted(want), 'class_set',
              f'classnames want {sorted(want)[:20]} got {sorted(db.get_classnames())[:20]}')
    got_fgd = db.get_fgd()
    ctx.check(sorted(got_fgd.entities) == sorted(want), 'class_set',
              f'entities want {sorted(want)[:20]} got {sorted(got_fgd.entities)[:20]}')
    for key, w in want.items():
        if key not in got_fgd.entities:
            continue
        got = canon_ent_bin(got_fgd.entities[key])
        if got != w:
            ctx.fail('canon', f'{w["class"]}: binary round trip differs: {first_diff(w, got)}',
                     diff=first_diff(w, got).split(':')[0])
        for b in got_fgd.entities[key].bases:
            ctx.check(isinstance(b, EntityDef), 'bases_resolved', f'{key}: base {b!r} left unresolved by get_fgd()')
    # the same bytes, looked up lazily in the requested order
    db2 = unserialise(io.BytesIO(data))
    for j, key in enumerate(order):
        # queried alternately by the casefolded key and by the class name as written (get_ent: any case)
        ent = db2.get_ent(key if j % 2 == 0 else fgd.entities[key].classname)
        got = canon_ent_bin(ent)
        ctx.check(got == want[key], 'lazy_canon', f'{key}: get_ent() differs: {first_diff(want[key], got)}')
        for b in ent.bases:
            ctx.check(isinstance(b, EntityDef), 'bases_resolved', f'{key}: base {b!r} left unresolved by get_ent()')


# ------------------------------------------------------------------------------------------------
# (d) lazy

def _ref_deep(key: str) -> dict:
    ref = _CACHE.setdefault('ref_deep', {})
    if key not in ref:
        ref[key] = canon_ent_bin(full_fgd().entities[key], deep=True)
    return ref[key]


def _alias_names() -> list:
    if 'aliases' not in _CACHE:
        _CACHE['aliases'] = sorted(e.classname for e in full_fgd() if e.is_alias)
        _CACHE['alias_targets'] = sorted({_base_name(b) for e in full_fgd() if e.is_alias for b in e.bases})
    return _CACHE['aliases']


def _twin_classes() -> list:
    """Shipped classes owning a keyvalue that equals a keyvalue of other classes in every field but one
    (here: readonly) and is the rarer variant - the places where sharing decoded objects would show."""
    if 'twin_classes' not in _CACHE:
        groups: dict = {}
        for ent in full_fgd():
            for tag_map in ent.keyvalues.values():
                for kv in tag_map.values():
                    if kv.val_list:
                        continue
                    key = (kv.name, kv.disp_name, kv.type.value, kv.default)
                    groups.setdefault(key, {}).setdefault(bool(kv.readonly), []).append(ent.classname)
        out = set()
        for variants in groups.values():
            if len(variants) > 1:
                out.update(min(variants.values(), key=len)[:3])
        _CACHE['twin_classes'] = sorted(out) or class_names()[:1]
    return _CACHE['twin_classes']


def lazy_strategy(tier: str):
    names = class_names()
    aliases = _alias_names()
    targets = _CACHE['alias_targets']
    name = st.one_of(st.sampled_from(names), st.sampled_from(names), st.sampled_from(aliases), st.sampled_from(targets),
                     st.sampled_from(_twin_classes()))
    query = st.tuples(name, st.sampled_from(['asis', 'asis', 'upper', 'lower'])).map(list)
    return st.fixed_dictionaries({
        'queries': st.lists(query, min_size=1, max_size=8),
        'missing': st.booleans(),
        'then_full': st.sampled_from([False, False, False, True]),
        # 'db': EngineDB.get_ent on a fresh unserialise(); 'api': the public EntityDef.engine_def() /
        # engine_classes() / FGD.engine_dbase() with the module cache reset to "not loaded" for this case.
        # 'api2': as 'api', after add_engine_database() of a generated second database (see execute_second_db)
        'via': st.sampled_from(['db', 'db', 'db', 'api', 'api', 'api2']),
        'second': st.fixed_dictionaries({
            'ents': st.lists(ent_strategy(True), min_size=3, max_size=5),
            'redefine': st.lists(st.sampled_from([n for n in names if n != CBASE]), min_size=1, max_size=2, unique=True),
            'order': st.lists(st.integers(0, 60), min_size=3, max_size=9),
        }),
    })


class _ApiDB:
    """The public entry points, behind the EngineDB interface used by execute_lazy."""
    def get_classnames(self):
        from srctools.fgd import EntityDef
        return EntityDef.engine_classes()

    def get_ent(self, name):
        from srctools.fgd import EntityDef
        return EntityDef.engine_def(name)

    def get_fgd(self):
        from srctools.fgd import FGD
        return FGD.engine_dbase()


def execute_second_db(desc, ctx):
    """fgd.add_engine_database() ("Add an additional binary database. This can override the existing entities"):
    with a second database registered, single lookups and the whole-database load must still agree."""
    import tempfile
    from pathlib import Path
    import srctools.fgd as fgd_mod
    from srctools.fgd import FGD, EntityDef
    sec = desc['second']
    redefined = [n for n in sec['redefine'] if n.casefold() != CBASE.casefold()]   # the second database has its own
    classnames = [None]
    for i, ed in enumerate(sec['ents'][1:], start=1):
        classnames.append(redefined[i - 1] if i <= len(redefined) else f"c16new_{ed['name']}_{i}")
    new_names = [n for n in classnames[1:] if n not in redefined]
    second = build_engine_fgd({'ents': sec['ents'], 'classnames': classnames}, Stats())
    data = roundtrip_binary(second)
    pool = redefined + new_names + [q[0] for q in desc['queries']] + ['zz_pad', CBASE]
    order = [pool[i % len(pool)] for i in sec['order']]
    fd, tmp = tempfile.mkstemp(suffix='.c16.lzma')
    try:
        with os.fdopen(fd, 'wb') as f:
            f.write(data)
        fgd_mod.add_engine_database(Path(tmp))
        whole = FGD.engine_dbase()
        ctx.check(sorted(EntityDef.engine_classes()) == sorted(whole.entities), 'class_set',
                  'engine_classes() and engine_dbase() list different classes with a second database: '
                  f'{sorted(set(EntityDef.engine_classes()) ^ set(whole.entities))[:10]}')
        for name in order:
            if name in redefined:
                ctx.label('second:redefined_query')
                ctx.nontrivial(True)
            elif name in new_names:
                ctx.label('second:new_query')
            else:
                ctx.label('second:untouched_query')
            single = canon_ent_bin(EntityDef.engine_def(name), deep=True)
            loaded = canon_ent_bin(whole[name], deep=True)
            ctx.check(single == loaded, 'second_db_consistent',
                      f'{name}: engine_def() and engine_dbase()[...] disagree after add_engine_database() '
                      f'(redefined={redefined}, new={new_names}): {first_diff(loaded, single)}',
                      redefined=name in redefined)
    finally:
        os.unlink(tmp)


def execute_lazy(desc, ctx):
    import srctools.fgd as fgd_mod
    if desc.get('via', 'db') == 'api2':
        ctx.label('via_api', 'lazy:second_database')
        fgd_mod._ENGINE_DB = None
        try:
            execute_second_db(desc, ctx)
        finally:
            fgd_mod._ENGINE_DB = None     # drops the registered database as well: nothing leaks into later cases
        return
    if desc.get('via', 'db') == 'api':
        ctx.label('via_api')
        fgd_mod._ENGINE_DB = None     # the documented "not loaded yet" state of the cache
        try:
            _execute_lazy(desc, ctx, _ApiDB())
        finally:
            fgd_mod._ENGINE_DB = None
    else:
        _execute_lazy(desc, ctx, fresh_db())


def _execute_lazy(desc, ctx, db):
    _selfcheck()
    from srctools.fgd import EntityDef
    full = full_fgd()
    names0 = sorted(db.get_classnames())
    ctx.check(names0 == sorted(full.entities), 'class_set', 'fresh database lists other classes than the full load')
    seen: set = set()
    for name, casing in desc['queries']:
        key = name.casefold()
        ent_full = full.entities[key]
        if ent_full.is_alias:
            ctx.label('alias_query')
            target = _base_name(ent_full.bases[0]).casefold()
            if target not in seen:
                ctx.label('alias_before_base')
                ctx.nontrivial(True)
        if name in _twin_classes():
            ctx.label('twin_class_query')
        if key in seen:
            ctx.label('repeat_query')
        seen.add(key)
        q = {'asis': name, 'upper': name.upper(), 'lower': name.lower()}[casing]
        ent = db.get_ent(q)
        ctx.check(isinstance(ent, EntityDef), 'lazy_type', f'get_ent({q!r}) returned {type(ent).__name__}')
        got = canon_ent_bin(ent, deep=True)
        want = _ref_deep(key)
        ctx.check(got == want, 'lazy_canon',
                  f'get_ent({q!r}) after {sorted(seen)} differs from the full load: {first_diff(want, got)}',
                  cls=key)
        ctx.check(sorted(db.get_classnames()) == names0, 'class_set', f'class list changed after get_ent({q!r})')
    if desc['missing']:
        ctx.label('missing_query')
        try:
            db.get_ent('no_such_entity_c16')
        except KeyError:
            pass
        else:
            ctx.fail('missing', 'get_ent() of an unknown class did not raise KeyError')
    if desc['then_full']:
        ctx.label('then_full')
        got_full = db.get_fgd()
        ctx.check(sorted(got_full.entities) == names0, 'class_set', 'get_fgd() after lazy queries lists other classes')
        for key in sorted(seen) + names0[::97]:
            got = canon_ent_bin(got_full.entities[key], deep=True)
            ctx.check(got == _ref_deep(key), 'lazy_then_full',
                      f'{key}: get_fgd() after lazy queries differs: {first_diff(_ref_deep(key), got)}', cls=key)


# ------------------------------------------------------------------------------------------------

SUBCHECKS = [
    Sub('shipped_text', execute_shipped, enumerate=shipped_enumerate, quick_shards=8, thorough_shards=16, floor=1000,
        must_hit=('whole', 'ent', 'alias', 'type:BRUSH', 'type:NPC')),
    Sub('gen_text', execute_gen_text, strategy=gen_text_strategy, quick=960, thorough=30000, quick_shards=16,
        floor=100,
        must_hit=('cs0', 'cs1', 'label0', 'label1', 'empty_disp', 'empty_disp_nothing_after', 'long', 'long_no_space',
                  'long_with_space', 'long_with_newline', 'split', 'tagged_dup', 'flag_tags', 'choice_tags', 'alias',
                  'io_decays', 'io_valid', 'resources', 'res_tags', 'empty_tag_map', 'helper:unknown', 'helper:size', 'helper:frustum',
                  'empty_choice_name', 'default_needs_escape', 'default:numberlike',
                  'default:numberlike_not_bare_safe', 'choice:numberlike', 'name:non_ascii_class',
                  'name:class_casefold_not_lower', 'name:non_ascii_kv',
                  'name:non_ascii_io', 'name:non_ascii_helper_arg', 'name:non_ascii_res_path', 'name:non_ascii_res_tag',
                  'helper_arg:default_exact', 'helper_arg:default_case_variant',
                  'helper_arg:omittable_default_case_variant', 'helper:unknown_kw', 'default:boolish_word')
        + tuple('type:' + n for n in ('BASE', 'POINT', 'BRUSH', 'ROPES', 'TRACK', 'FILTER', 'NPC', 'EXTEND'))),
    Sub('binary', execute_binary, strategy=gen_bin_strategy, enumerate=binary_enumerate, quick=200, thorough=4000,
        quick_shards=8, floor=50, enum_counts_distinct=True,
        must_hit=('shipped_slice', 'generated', 'alias', 'nobase', 'kv_default', 'kv_readonly', 'flags', 'res_tags',
                  'empty_tag_map', 'name:non_ascii_class', 'name:class_casefold_not_lower', 'name:non_ascii_kv',
                  'name:non_ascii_io', 'name:non_ascii_res_path', 'name:non_ascii_res_tag', 'kv_twin:ro', 'kv_twin:same', 'kv_twin:default',
                  'kv_twin:disp', 'kv_twin:type')),
    Sub('lazy', execute_lazy, strategy=lazy_strategy, quick=120, thorough=3000, quick_shards=8, floor=20,
        must_hit=('alias_before_base', 'then_full', 'repeat_query', 'via_api', 'lazy:second_database', 'twin_class_query',
                  'second:redefined_query', 'second:new_query', 'second:untouched_query')),
]

MATCHERS = {}

RULE = (
    'shipped_text: every class of the bundled database (quick: rotating export option sets + one whole-file export; '
    'thorough: all four custom_syntax/label_spawnflags combinations, whole file and entity by entity); '
    'gen_text: Hypothesis builds FGD descriptors (1-5 entities of every EntityTypes, earlier-entity bases/aliases, 17 helper '
    'families + UnknownHelper, keyvalues of every ValueTypes with empty/short/long (>1000 chars, units with and without '
    'spaces/newlines, escape clusters placed at the 1000-char split) display names, defaults, descriptions, tagged choices and '
    'spawnflags, tagged duplicates of one key, I/O of every type, @resources); non-trivial = a keyvalue with an empty display '
    'name / >1000-char string / tags; binary: shipped slices of 150 classes + generated engine-format FGDs; lazy: 1-8 '
    'get_ent() queries (aliases and alias targets over-sampled, any casing) on a fresh EngineDB, non-trivial = an alias queried '
    'before its base; distinct = sha1 of the descriptor JSON'
)
ASSUMPTIONS = [
    'class, keyvalue and I/O names are identifiers (ASCII, or with letters of 2-4 byte UTF-8 width that upper()/casefold() '
    'map trivially; class names also with letters whose casefold() differs from lower(): sharp s, final sigma, long s, '
    'fi ligature - classes are keyed by casefold()); value types are ValueTypes members (custom string types need '
    'ignore_unknown_valuetype and are outside the statement); classnames are unique ignoring case',
    'bases are EntityDef objects that are members of the same FGD, listed once, and only earlier entities (no loops)',
    'is_alias is not in the statement\'s list of text fields: export() writes aliasof() classes as base(); it is compared in the '
    'binary and lazy sub-checks only',
    'custom_syntax=False is the documented lossy mode: tags, @resources and extension helpers are dropped (tagged variants of one '
    'name collapse to one of them), \'"\' becomes "\'\'", and backslashes / bare CR are not generated because the original '
    'parser only knows \\n',
    'spawnflags keyvalues have no display name, default or description in FGD syntax; flag captions lose newlines, and with '
    'label_spawnflags a leading "[N]" / leading blanks belong to the generated label (captions are generated without them)',
    'choice captions are always written in original-parser form (newline -> space, \'"\' -> "\'\'", no backslashes)',
    'boolean defaults: empty is exported as 0, yes/no are aliases of 1/0',
    'helper arguments are in the form the FGD syntax can express: identifiers/paths without commas or parentheses, numbers that '
    'the formatters print exactly (multiples of 1/4), line()/cylinder() in their 3/5 and 3/4/6/7 argument forms, '
    'studio()/keyframe() arguments None or non-empty; autovis() (parse-time convenience) is not generated',
    '@resources types are those with an FGD keyword (RESTYPE_BY_NAME); SOUNDSCRIPT / PARTICLE_FILE only exist in the binary format',
    'binary: engine format as required by serialise() - a _CBaseEntity_, all other classes based on it alone (or on nothing) or '
    'aliases; no tags on keyvalues/I-O/spawnflags, no CHOICES; at least 512 distinct strings (a padding class guarantees the full '
    'shared-string table serialise() asserts); no U+001F in strings; descriptions, helpers, kv_order and "reportable" are not '
    'part of the dump',
    'fgd.add_engine_database() is treated as public API (no underscore, docstring "can override the existing entities"): a sixth '
    'of the lazy cases register a generated second database and compare engine_def() with engine_dbase(); the module cache is '
    'reset to "not loaded" before and after each such case',
    'lazy: a fresh EngineDB per case, built from the bytes of fgd.lzma; the reference is get_fgd() of another fresh EngineDB',
    'pure-Python tokenizer only (no Cython build possible in this sandbox)',
]
LEVEL_TEXT = ('Generated-input search plus exhaustive sweep of the bundled data: all 1638 shipped classes are exported and re-read '
              '(whole file and one by one), about a thousand (quick) to tens of thousands (thorough) generated FGDs go through '
              'text and binary round trips against an own canonical walker, and hundreds to thousands of query orders are '
              'replayed on fresh lazy databases; held-on-everything-explored, not a proof.')
LEVEL_NOTE = ('Trusts Hypothesis generation and the harness canon walker; the shipped database is judged only for agreement '
              'between its text, binary and lazy views; pure-Python tokenizer only.')
TECHNIQUE = ('property-based testing (Hypothesis) + exhaustive enumeration of the bundled database: round-trip and export '
             'fixed-point oracles over an independent canonical form; metamorphic order-independence for lazy loading')
