#!/bin/sh
# Usage: apply_fix.sh <name without extension under proposed_fixes/> ...   -- apply each as its own "fix:" commit in /repo
for n in "$@"; do
  cd /repo || exit 2
  if ! git apply --3way --index /verif/proposed_fixes/$n.diff 2>/tmp/apply_$$.err; then echo "FAILED to apply $n"; cat /tmp/apply_$$.err; git checkout -q -- . ; git reset -q --hard HEAD; exit 1; fi
  head -1 /verif/proposed_fixes/$n.msg | grep -q '^fix: ' || { echo "$n: message does not start with fix:"; exit 1; }
  git commit -q -F /verif/proposed_fixes/$n.msg && echo "applied $n as $(git rev-parse --short HEAD)" && /verif/tools/ledger_line.sh $n $(git rev-parse --short HEAD)
done
