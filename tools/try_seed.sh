#!/bin/sh
# Usage: try_seed.sh <dir with patch.diff + meta.json> [tier]   -- apply a seeded break to /repo, run the
# property's check, undo the change straight afterwards.  Prints CAUGHT / MISSED.
D=$(realpath $1); TIER=${2:-quick}
PROP=$(python3 -c "import json,sys;print(json.load(open('$D/meta.json'))['property'])")
cd /repo || exit 2
if ! git diff --quiet; then echo "/repo has uncommitted changes; refusing"; exit 2; fi
if ! git apply "$D/patch.diff" 2>/tmp/apply.err; then echo "NEEDS-REBASE $D"; head -2 /tmp/apply.err; git reset -q --hard HEAD; exit 2; fi
git reset -q
cd /verif && /venv/bin/python run.py "$PROP" --tier "$TIER" > /tmp/try_seed.out 2>&1; rc=$?
git -C /repo reset -q --hard HEAD
grep -h "VIOLATION\|HARNESS" /tmp/try_seed.out | head -5
tail -1 /tmp/try_seed.out
if [ $rc -eq 1 ]; then echo "CAUGHT $D ($PROP $TIER)"; elif [ $rc -eq 0 ]; then echo "MISSED $D ($PROP $TIER)"; else echo "HARNESS-ERROR rc=$rc $D"; fi
