"""C17 - instance collapse transforms contents exactly and leaves the template intact (DESIGN.md 2, C17)."""
from __future__ import annotations

import io
import math

from hypothesis import strategies as st

from vlib.core import Sub, HarnessError
from vlib import refmath as rm
from vlib import vmfgen

DISP_CFG = vmfgen.GenConfig(displacements=True, disp_weight=0.6, prism_weight=0.2, strata=False, membership=False,
                            multiblend=False, nasty=0.0, max_sides=3, max_disp_power=2, tiny_negative=False)


def _sane_solid(d):
    """Texture scale 0 is not a usable axis (UVAxis.localise divides by it): keep |scale| >= 1e-3."""
    for side in d.get('sides', []):
        for ax in ('uaxis', 'vaxis'):
            if side.get(ax) and abs(side[ax][4]) < 1e-3:
                side[ax] = side[ax][:4] + [0.25]
    d['vis_shown'] = True
    return d

PROPERTY = 'C17'
LEVEL = 'exploration'
RULE = (
    'Hypothesis generates 1-2 instance templates (prism brushes with tweaked texture axes, point/brush entities of '
    'engine-database classes with typed keyvalues, $fixup uses, outputs, nested func_instance) and a history of 1-5 '
    'collapses (template index, instance name, origin, angles from identity / 90-degree / arbitrary pools, fixup style, '
    'fixup table); collapse_all runs over generated inclusion graphs incl. self/mutual inclusion. Non-trivial = template '
    'has a brush and a named entity with an output, some placement is not axis-aligned and a template is collapsed twice; '
    'distinct = sha1 of the descriptor JSON'
)
ASSUMPTIONS = [
    'keyvalue types come from the shipped engine database (trusted input here; C16 judges it)',
    '$variables appear only in string/name-typed keyvalues known to the database and in output targets; a variable deleted from a '
    'reused Instance\'s table is then an unknown variable: the longest still-defined name after the $ wins, otherwise the identifier '
    'becomes "" (EntityFixup.substitute docstring); the table is never emptied',
    'keyvalues unknown to the database (no $ in them) are expected to be copied unchanged ("adds a copy of every ... entity")',
    'pitch keys (angle_negative_pitch on light_spot, angle_pitch / angle_negative_pitch on two classes of a small FGD handed in '
    'through engine_cache) and yaw keys are judged through the effective orientation: angles with the pitch key (negated for the '
    'negative type) and the yaw key applied must equal the template\'s effective orientation composed with the instance rotation; '
    'io proxies are not generated',
    'visgroup=True / visgroup=<VisGroup> are exercised on instance files whose entities are not hidden (those modes keep hidden '
    'entities, which the statement does not describe); expected membership follows the parameter\'s documentation',
    'instance names are non-empty for collapse_one; fixup values contain no $',
    'pure-Python math/vmf only',
]
LEVEL_TEXT = ('Model-based search: generated templates and collapse histories are run through collapse_one/collapse_all and every '
              'new brush plane, texture axis, entity origin/angles, typed keyvalue, name and output target is compared with an '
              'independent 3x3 reference transform of a snapshot of the template taken before the first collapse; template export is '
              'compared byte for byte after every collapse; held-on-everything-explored.')
LEVEL_NOTE = 'Trusts Hypothesis, the harness reference arithmetic (vlib/refmath.py) and the shipped FGD key types.'
TECHNIQUE = 'property-based testing (Hypothesis): operation histories vs. reference transform model + template-invariance oracle'

# class -> (is_brush, [(key, kind)])
CLASSES = {
    'info_target': (False, [('parentname', 'name')]),
    'logic_relay': (False, [('parentname', 'name')]),
    'prop_dynamic': (False, [('model', 'str'), ('lightingorigin', 'name'), ('parentname', 'name')]),
    'env_beam': (False, [('lightningstart', 'name'), ('lightningend', 'name'), ('targetpoint', 'pos')]),
    'move_rope': (False, [('nextkey', 'name')]),
    'path_track': (False, [('target', 'name'), ('altpath', 'name')]),
    'phys_hinge': (False, [('hingeaxis', 'pos'), ('attach1', 'name'), ('attach2', 'name')]),
    'info_overlay': (False, [('basisorigin', 'pos'), ('basisu', 'dir'), ('basisv', 'dir'), ('basisnormal', 'dir'),
                             ('sides', 'sidelist'), ('uv0', 'local')]),
    'prop_door_rotating': (False, [('axis', 'axis'), ('ajarangles', 'ang'), ('slavename', 'name')]),
    # info_node / info_node_link are deliberately absent: node-id remapping is not part of the C17 statement
    # (observed on the pinned tree: a template link 1->2 is collapsed to 5->7 while the nodes become 1 and 3;
    # recorded in DESIGN.md as an observation outside the listed properties).
    # the pitch / yaw keys override parts of "angles"; the two pitch types differ only in sign.  No shipped class uses
    # angle_pitch, so two small classes come from a mod-style FGD handed in through engine_cache (CUSTOM_FGD).
    'light_spot': (False, [('pitch', 'negpitch')]),
    'verif_pitch_ent': (False, [('pitch', 'pitch'), ('yaw', 'yawkey'), ('parentname', 'name')]),
    'verif_negpitch_ent': (False, [('pitch', 'negpitch'), ('yaw', 'yawkey'), ('parentname', 'name')]),
    'func_door': (True, [('movedir', 'ang'), ('filtername', 'name')]),
    'func_brush': (True, [('parentname', 'name')]),
    'trigger_multiple': (True, [('filtername', 'name')]),
}
CLASS_NAMES = sorted(CLASSES)
UNKNOWN_KEYS = ['designer_note', 'zz_custom', 'My_Annotation']
UNKNOWN_FOLDED = {k.casefold() for k in UNKNOWN_KEYS}
NAME_POOL = ['tgt', 'Relay_A', 'door1', 'x', 'Beam_End', '@glob', '!player', '']
VAR_POOL = ['v', 'var', 'vab', 'Name', 'mdl']
MATS = ['tools/toolsnodraw', 'BRICK/brickwall001a', 'dev/dev_measuregeneric01']

_ENGINE_CACHE: dict = {}
CUSTOM_FGD = '''
@PointClass = verif_pitch_ent : "a mod's entity with an un-negated pitch key"
[
    targetname(target_source) : "Name"
    origin(origin) : "Origin"
    angles(angle) : "Angles" : "0 0 0"
    pitch(angle_pitch) : "Pitch" : "0"
    yaw(float) : "Yaw" : "0"
    parentname(target_destination) : "Parent"
]
@PointClass = verif_negpitch_ent : "same with the negated pitch key"
[
    targetname(target_source) : "Name"
    origin(origin) : "Origin"
    angles(angle) : "Angles" : "0 0 0"
    pitch(angle_negative_pitch) : "Pitch" : "0"
    yaw(float) : "Yaw" : "0"
    parentname(target_destination) : "Parent"
]
'''


def _kind_of(vtype) -> str:
    from srctools.fgd import ValueTypes as V
    if vtype in (V.VEC, V.VEC_ORIGIN, V.VEC_LINE):
        return 'pos'
    if vtype is V.ANGLES:
        return 'ang'
    if vtype.is_ent_name:
        return 'name'
    if vtype is V.EXT_VEC_DIRECTION:
        return 'dir'
    if vtype is V.SIDE_LIST:
        return 'sidelist'
    if vtype in (V.TARG_NODE_SOURCE, V.TARG_NODE_DEST):
        return 'node'
    if vtype is V.VEC_AXIS:
        return 'axis'
    if vtype is V.EXT_VEC_LOCAL:
        return 'local'
    if vtype is V.ANGLE_NEG_PITCH:
        return 'negpitch'
    if vtype is V.EXT_ANGLE_PITCH:
        return 'pitch'
    if vtype in (V.CHOICES, V.INST_VAR_REP, V.TARG_DEST_CLASS):
        return 'special'
    return 'str'


def prepare(tier: str) -> None:
    """Load the engine database once before forking and confirm the key-kind table against it."""
    import logging
    logging.getLogger('srctools').setLevel(logging.CRITICAL)     # "Unknown keyvalue" warnings are expected here
    from srctools.fgd import EntityDef, FGD
    from srctools.filesys import VirtualFileSystem
    fs = VirtualFileSystem({'custom.fgd': CUSTOM_FGD})
    custom = FGD()
    custom.parse_file(fs, fs['custom.fgd'])
    for cls, (is_brush, keys) in CLASSES.items():
        if cls.startswith('verif_'):
            d = _ENGINE_CACHE[cls] = custom[cls]
        else:
            d = EntityDef.engine_def(cls)
        for key, kind in keys + [('origin', 'pos'), ('angles', 'ang'), ('targetname', 'name')]:
            if kind == 'yawkey':      # hard-coded by name in collapse_one, whatever its FGD type
                continue
            got = _kind_of(d.kv[key].type)
            if got != kind:
                raise HarnessError(f'key table out of date: {cls}.{key} is {got} in the database, table says {kind}')
        for key in UNKNOWN_KEYS:
            if key.casefold() in d.kv:
                raise HarnessError(f'{cls}.{key} is known to the database; pick another "unknown" key')
    EntityDef.engine_def('func_instance')
    EntityDef.engine_classes()
    # reference convention sanity (C04 judges the convention itself)
    from srctools.math import Matrix, Angle, Vec
    m = Matrix.from_angle(Angle(30, 40, 50))
    ref = rm.mat_from_angle(30, 40, 50)
    got = [[m[i, j] for j in range(3)] for i in range(3)]
    if rm.max_diff(ref, got) > 1e-9:
        raise HarnessError('reference rotation convention disagrees with srctools at (30,40,50); see C04')


# ----------------------------------------------------------------------------- strategies

def coord(lim=2048):
    return st.one_of(st.integers(-lim, lim).map(float), st.floats(-lim, lim, allow_nan=False).map(lambda x: round(x, 3)))


def vec3(lim=2048):
    return st.tuples(coord(lim), coord(lim), coord(lim)).map(list)


def angle_triple():
    quarter = st.sampled_from([0.0, 90.0, 180.0, 270.0])
    arb = st.floats(0, 359.999, allow_nan=False).map(lambda x: round(x, 4))
    return st.one_of(
        st.just([0.0, 0.0, 0.0]),
        st.tuples(quarter, quarter, quarter).map(list),
        st.tuples(arb, arb, arb).map(list),
        st.tuples(st.sampled_from([0.0, 45.0]), arb, st.just(0.0)).map(list),
    )


def name_ref():
    """A name (possibly using a $var) used as targetname / name-typed key / output target."""
    base = st.sampled_from(NAME_POOL).flatmap(
        lambda n: st.sampled_from([n, n.upper(), n.lower()]))
    with_var = st.tuples(st.sampled_from(['', 'pre_']), st.sampled_from(VAR_POOL), st.sampled_from(['', '_suf', 'val'])).map(
        lambda t: f'{t[0]}${t[1]}{t[2]}')
    return st.one_of(base, base, with_var)


def prism():
    return st.fixed_dictionaries({
        'p1': vec3(1024),
        'size': st.tuples(st.integers(1, 256), st.integers(1, 256), st.integers(1, 256)).map(list),
        'mat': st.sampled_from(MATS),
        'uv': st.lists(st.tuples(st.floats(-512, 512, allow_nan=False).map(lambda x: round(x, 2)),
                                 st.sampled_from([0.25, 0.5, 1.0, -0.25, 0.125])).map(list), min_size=0, max_size=6),
        'hidden': st.sampled_from([False, False, False, True]),
    })


def ent_desc(only=None):
    def for_class(cls):
        is_brush, keys = CLASSES[cls]
        kvs = []
        for key, kind in keys:
            if kind == 'name':
                val = name_ref()
            elif kind == 'str':
                val = st.one_of(st.sampled_from(['models/props/x.mdl', 'abc']), st.sampled_from(VAR_POOL).map(lambda v: f'models/${v}.mdl'))
            elif kind in ('pos', 'dir', 'local'):
                val = vec3(512)
            elif kind == 'ang':
                val = angle_triple()
            elif kind == 'axis':
                val = st.tuples(vec3(512), vec3(512)).map(list)
            elif kind == 'sidelist':
                # indices into the template's faces (world brushes first, then brush-entity solids in entity order - so
                # forward references to a later brush entity's faces are common); negative = an id no face has
                val = st.lists(st.one_of(st.integers(0, 200), st.integers(0, 200), st.integers(-5, -1)), max_size=6)
            elif kind == 'node':
                val = st.integers(1, 6)
            elif kind in ('pitch', 'negpitch', 'yawkey'):
                val = st.sampled_from([0.0, 30.0, -45.0, 90.0, -90.0, 135.5, 270.0, 12.25, 400.0])
            else:
                raise AssertionError(kind)
            kvs.append(st.one_of(st.none(), val).map(lambda v, key=key, kind=kind: [key, kind, v]))
        return st.fixed_dictionaries({
            'cls': st.just(cls),
            'name': name_ref(),
            'origin': vec3(1024),
            'angles': angle_triple(),
            'keys': st.tuples(*kvs).map(lambda t: [k for k in t if k[2] is not None]),
            # keys the engine database does not know for this class (a mapper's annotations): copied as they are
            'extra': st.lists(st.tuples(st.sampled_from(UNKNOWN_KEYS), st.sampled_from(['opens door_a', '1 2 3', 'tgt', 'x', ''])).map(list),
                              max_size=2, unique_by=lambda t: t[0]),
            'outs': st.lists(st.tuples(
                st.sampled_from(['OnTrigger', 'OnUser1', 'OnStartTouch']), name_ref(),
                st.sampled_from(['Trigger', 'Kill', 'FireUser1']), st.sampled_from(['', '1', 'a b']),
                st.sampled_from([0.0, 0.5, 2.0]), st.sampled_from([-1, 1]),
            ).map(list), max_size=3),
            'hidden': st.sampled_from([False, False, False, True]),
            'solids': st.lists(prism(), min_size=1, max_size=2) if is_brush else st.just([]),
            # the origin written with a $variable: whole ("$pvec") or one component ("64 $pnum 8")
            'origin_var': st.sampled_from([None, None, None, 'whole', 'component']),
        })
    if only is not None:
        return for_class(only)
    return st.sampled_from(CLASS_NAMES).flatmap(for_class)


def nested_inst():
    return st.fixed_dictionaries({
        'cls': st.just('func_instance'),
        'name': st.sampled_from(['inner', 'Inner2', '']),
        'origin': vec3(256),
        'angles': angle_triple(),
        'file': st.sampled_from(['instances/a.vmf', 'b.vmf']),
        'fixups': st.lists(st.tuples(st.sampled_from(VAR_POOL), st.sampled_from(['door1', 'x', '5', '@g', 'Relay_A'])).map(list),
                           max_size=3, unique_by=lambda t: t[0].casefold()),
        'hidden': st.just(False),
    })


def _with_lead(t):
    ents = list(t['ents'])
    lead, tail = t.pop('lead_overlay'), t.pop('tail_brush_ent')
    if lead is not None:
        ents.insert(0, lead)
    if tail is not None:
        ents.append(tail)
    t['ents'] = ents
    return t


def template():
    return st.fixed_dictionaries({
        'brushes': st.lists(prism(), max_size=3),
        'dsolids': st.lists(vmfgen.solid_descs(DISP_CFG).map(_sane_solid), max_size=2),
        'ents': st.lists(st.one_of(ent_desc(), ent_desc(), ent_desc(), nested_inst()), max_size=5),
        # often: an overlay listed first whose side list points at faces of brush entities that come later in the file
        'lead_overlay': st.one_of(st.none(), st.none(), ent_desc('info_overlay')),
        'tail_brush_ent': st.one_of(st.none(), st.none(), ent_desc('func_brush'), ent_desc('trigger_multiple')),
        # visgroups of the instance file: [name index, nested under the previous group?], and which group (if any) each
        # brush / entity / entity solid belongs to, dealt round-robin (a value >= the number of groups means "none")
        'visgroups': st.lists(st.tuples(st.integers(0, 3), st.booleans()).map(list), max_size=3),
        'vis_assign': st.lists(st.integers(0, 4), max_size=8),
    }).map(_with_lead)


def op():
    return st.fixed_dictionaries({
        'tpl': st.integers(0, 7),
        'name': st.sampled_from(['inst', 'Inst_B', 'a', 'long-name']),
        'pos': st.one_of(st.just([0.0, 0.0, 0.0]), vec3(16384)),
        'ang': angle_triple(),
        'style': st.integers(0, 2),
        'fixval': st.lists(st.sampled_from(['door1', 'x', '5', 'Relay_A', 'q q', '']), min_size=len(VAR_POOL), max_size=len(VAR_POOL)),
        'via_text': st.booleans(),
        'same_as_prev': st.booleans(),     # repeat the previous collapse's template / name / style / fixups at this placement
        # the visgroup parameter: 0 = False (strip), 1 = True (keep the instance's groups), 2 = a VisGroup of the target map
        'vis': st.sampled_from([0, 0, 1, 2]),
        # collapse the SAME Instance object again (moved / renamed / with its fixup table edited in place through the mapping
        # API: delete a variable, change one, add it back) instead of building a new one
        'reuse_inst': st.sampled_from([False, False, True]),
        'fix_edits': st.lists(st.one_of(
            st.tuples(st.just('del'), st.integers(0, 4)).map(list),
            st.tuples(st.just('set'), st.integers(0, 4), st.sampled_from(['door1', 'x', '5', 'Relay_A', 'zz'])).map(list),
        ), max_size=3),
        'pvec': vec3(512), 'pnum': coord(512),
    })


def strategy(tier: str):
    return st.fixed_dictionaries({
        'templates': st.lists(template(), min_size=1, max_size=2),
        'ops': st.lists(op(), min_size=1, max_size=4 if tier == 'quick' else 6),
        'via_text': st.booleans(),
        'reset_warnings': st.booleans(),
    })


# ----------------------------------------------------------------------------- building

def fmt_vec(v) -> str:
    return ' '.join(repr(float(x)) if not float(x).is_integer() else str(int(x)) for x in v)


def build_prism(vmf, b):
    from srctools.math import Vec
    p1 = Vec(*b['p1'])
    p2 = p1 + Vec(*b['size'])
    solid = vmf.make_prism(p1, p2, b['mat']).solid
    for side, (off, scale) in zip(solid.sides, b['uv']):
        side.uaxis.offset = off
        side.uaxis.scale = scale
        side.vaxis.offset = -off / 2
    solid.hidden = b['hidden']
    return solid


VIS_NAMES = ['Detail', 'lights', 'Auto', 'Props']


def build_template(tdesc, force_visible=False):
    from srctools.vmf import VMF, Entity, Output, VisGroup
    vmf = VMF()
    groups = []
    for n, (name_i, nested) in enumerate(tdesc.get('visgroups', [])):
        g = VisGroup(vmf, f'{VIS_NAMES[name_i % len(VIS_NAMES)]}_{n}')
        g.color.x = 10.0 * n
        if nested and groups:
            groups[-1].child_groups.append(g)
        else:
            vmf.vis_tree.append(g)
        groups.append(g)
    assign = tdesc.get('vis_assign', [])
    counter = [0]

    def give_groups(obj):
        if groups and assign:
            k = assign[counter[0] % len(assign)]
            counter[0] += 1
            if k < len(groups):
                obj.visgroup_ids.add(groups[k].id)
    for b in tdesc['brushes']:
        vmf.add_brush(build_prism(vmf, b))
        give_groups(vmf.brushes[-1])
    for d in tdesc.get('dsolids', []):
        d = dict(d)
        d.pop('id', None)
        d['sides'] = [dict(sd, id=-1) for sd in d.get('sides', [])] if 'sides' in d else None
        if d['sides'] is None:
            del d['sides']
        vmf.add_brush(vmfgen.build_solid(vmf, d))
    pending_sidelists = []
    for e in tdesc['ents']:
        keys = {'classname': e['cls'], 'origin': fmt_vec(e['origin']), 'angles': fmt_vec(e['angles'])}
        if e.get('origin_var') == 'whole':
            keys['origin'] = '$pvec'
        elif e.get('origin_var') == 'component':
            keys['origin'] = f'{fmt_vec(e["origin"][:1])} $pnum {fmt_vec(e["origin"][2:])}'
        if e['name']:
            keys['targetname'] = e['name']
        ent = Entity(vmf, keys=keys)
        if e['cls'] == 'func_instance':
            ent['file'] = e['file']
            for var, val in e['fixups']:
                ent.fixup[var] = val
        else:
            for key, kind, val in e['keys']:
                if kind in ('name', 'str'):
                    ent[key] = val
                elif kind in ('pos', 'dir', 'local', 'ang'):
                    ent[key] = fmt_vec(val)
                elif kind == 'axis':
                    ent[key] = f'{fmt_vec(val[0])}, {fmt_vec(val[1])}'
                elif kind in ('node', 'pitch', 'negpitch', 'yawkey'):
                    ent[key] = fmt_vec([val]) if kind != 'node' else str(val)
                elif kind == 'sidelist':
                    pending_sidelists.append((ent, key, val))
            for key, val in e.get('extra', []):
                ent[key] = val
            for out, target, inp, param, delay, times in e['outs']:
                ent.add_out(Output(out, target, inp, param, delay, times=times))
            for b in e['solids']:
                ent.solids.append(build_prism(vmf, b))
                give_groups(ent.solids[-1])
        # visgroup=True / a VisGroup keeps hidden entities (their visgroups come along); those modes are only judged on
        # instance files without hidden entities
        ent.hidden = e['hidden'] and not force_visible
        give_groups(ent)
        vmf.add_ent(ent)
    faces = [side for br in vmf.brushes for side in br.sides] + [
        side for ent in vmf.entities for br in ent.solids for side in br.sides]
    for ent, key, idxs in pending_sidelists:
        ids = []
        for i in idxs:
            # unknown ids are legal and dropped
            ids.append(faces[i % len(faces)].id if (faces and i >= 0) else 900000 + abs(i))
        ent[key] = ' '.join(map(str, ids))
    return vmf


def export_text(vmf) -> str:
    buf = io.StringIO()
    vmf.export(buf, inc_version=False)
    return buf.getvalue()


def snap_disp(side):
    if not side.is_disp:
        return None
    size = side.disp_size
    verts = []
    for y in range(size):
        for x in range(size):
            v = side[x, y]
            verts.append([list(v.normal), v.distance, list(v.offset), list(v.offset_norm), v.alpha])
    return {'power': side.disp_power, 'pos': list(side.disp_pos), 'elev': side.disp_elevation, 'verts': verts}


def snap_side(side):
    return {
        'disp': snap_disp(side),
        'id': side.id, 'mat': side.mat,
        'planes': [[p.x, p.y, p.z] for p in side.planes],
        'u': [side.uaxis.x, side.uaxis.y, side.uaxis.z, side.uaxis.offset, side.uaxis.scale],
        'v': [side.vaxis.x, side.vaxis.y, side.vaxis.z, side.vaxis.offset, side.vaxis.scale],
    }


def snap_solid(solid):
    return {'id': solid.id, 'hidden': solid.hidden or not solid.vis_shown, 'sides': [snap_side(s) for s in solid.sides],
            'vis': sorted(solid.visgroup_ids)}


def snap_ent(ent):
    return {
        'id': ent.id,
        'hidden': ent.hidden or not ent.vis_shown,
        'keys': [[k, v] for k, v in ent.items()],
        'outs': [[o.output, o.target, o.input, o.params, o.delay, o.times, o.inst_in, o.inst_out] for o in ent.outputs],
        'solids': [snap_solid(s) for s in ent.solids],
        'fixup': [[k, v] for k, v in ent.fixup.items()],
        'vis': sorted(ent.visgroup_ids),
    }


def walk_groups(groups, depth=0, seen=None):
    """(depth, group object) for every group below, own walk; stops at a group object met twice."""
    seen = set() if seen is None else seen
    for g in groups:
        if id(g) in seen:
            continue
        seen.add(id(g))
        yield depth, g
        yield from walk_groups(g.child_groups, depth + 1, seen)


def snap_groups(groups):
    return [[d, g.name, g.id, [g.color.x, g.color.y, g.color.z], id(g)] for d, g in walk_groups(groups)]


def snapshot(vmf):
    return {'brushes': [snap_solid(b) for b in vmf.brushes], 'ents': [snap_ent(e) for e in vmf.entities],
            'groups': snap_groups(vmf.vis_tree)}


def _first_diff(a, b):
    if len(a) != len(b):
        return f'length {len(a)} -> {len(b)}'
    for i, (x, y) in enumerate(zip(a, b)):
        if x != y:
            if isinstance(x, dict):
                keys = [k for k in x if x[k] != y.get(k)]
                return f'item {i}, fields {keys}: {[x[k] for k in keys][:2]!r} -> {[y.get(k) for k in keys][:2]!r}'
            return f'item {i}: {x!r} -> {y!r}'
    return 'no difference'


def check_visgroups(ctx, tvmf, tsnap, target, own_group, groups_before, new_brushes, new_ents, where):
    tgroups = tsnap['groups']                                  # [depth, name, id, color, object id]
    tobj_ids = {g[4] for g in tgroups}
    all_now = list(walk_groups(target.vis_tree))
    shared = [g.name for _, g in all_now if id(g) in tobj_ids]
    if not ctx.check(not shared, 'visgroup_objects_shared',
                     f'{where}: the map\'s visgroup tree holds the instance file\'s own VisGroup objects {shared}'):
        return
    wrong_map = [g.name for _, g in all_now if g.vmf is not target]
    ctx.check(not wrong_map, 'visgroup_objects_shared', f'{where}: groups {wrong_map} in the map\'s tree belong to another VMF')
    base_depth = 0
    if own_group is not None:
        sub = list(walk_groups([own_group]))
        base_depth = 1
        fresh = [(d, g) for d, g in sub if id(g) not in groups_before]
    else:
        fresh = [(d, g) for d, g in all_now if id(g) not in groups_before]
    got_shape = [[d - base_depth, g.name, [g.color.x, g.color.y, g.color.z]] for d, g in fresh]
    want_shape = [[g[0], g[1], g[3]] for g in tgroups]
    if not ctx.check(got_shape == want_shape, 'visgroup_tree',
                     f'{where}: groups added {got_shape}, the instance file has {want_shape}'):
        return
    by_id = {}
    for _, g in all_now:
        if g.id in by_id:
            ctx.fail('visgroup_tree', f'{where}: two groups of the map share id {g.id}')
            return
        by_id[g.id] = g
    tname = {g[2]: g[1] for g in tgroups}
    fresh_ids = {g.id for _, g in fresh}
    vis_brushes = [b for b in tsnap['brushes'] if not b['hidden']]

    def judge(orig_vis, new_obj, what):
        got_ids = set(new_obj.visgroup_ids)
        unknown = sorted(got_ids - set(by_id))
        if not ctx.check(not unknown, 'visgroup_membership', f'{where}: {what} is filed under visgroup ids {unknown} that no group of the map has'):
            return
        if orig_vis:
            want_names = sorted(tname[i] for i in orig_vis)
            ok = sorted(by_id[i].name for i in got_ids) == want_names and got_ids <= fresh_ids
            ctx.check(ok, 'visgroup_membership',
                      f'{where}: {what} was in groups {want_names} of the instance; the copy is in '
                      f'{sorted(by_id[i].name for i in got_ids)} (ids {sorted(got_ids)}, this collapse added {sorted(fresh_ids)})')
            ctx.label('copy_in_instance_visgroup')
        else:
            want = {own_group.id} if own_group is not None else set()
            ctx.check(got_ids == want, 'visgroup_membership',
                      f'{where}: {what} was in no group of the instance; the copy is in ids {sorted(got_ids)}, expected {sorted(want)}')
    for bi, (ob, nb_) in enumerate(zip(vis_brushes, new_brushes)):
        judge(ob['vis'], nb_, f'world brush {bi}')
    for ei, (oe, ne_) in enumerate(zip(tsnap['ents'], new_ents)):
        judge(oe['vis'], ne_, f'entity {ei}')
        for bi, (ob, nb_) in enumerate(zip(oe['solids'], ne_.solids)):
            judge(ob['vis'], nb_, f'entity {ei} brush {bi}')
            if ob['vis']:
                ctx.label('entity_solid_in_visgroup')


# ----------------------------------------------------------------------------- reference model

def ref_substitute(text: str, table: dict) -> str:
    """table: folded var -> value.  Longest defined name after each $ wins (case-insensitive)."""
    if '$' not in text:
        return text
    out = []
    i = 0
    names = sorted(table, key=len, reverse=True)
    low = text.casefold()
    while i < len(text):
        if text[i] == '$':
            for n in names:
                if low.startswith(n, i + 1):
                    out.append(table[n])
                    i += 1 + len(n)
                    break
            else:
                # no defined name fits: an identifier after the $ is an unknown variable and becomes the default ('');
                # anything else leaves the $ alone (EntityFixup.substitute docstring)
                j = i + 1
                if j < len(text) and (text[j].isascii() and (text[j].isalpha() or text[j] == '_')):
                    while j < len(text) and text[j].isascii() and (text[j].isalnum() or text[j] == '_'):
                        j += 1
                    i = j
                else:
                    out.append('$')
                    i += 1
        else:
            out.append(text[i])
            i += 1
    return ''.join(out)


def ref_fixup_name(name: str, inst_name: str, style: int) -> str:
    if not name or name[0] in '@!':
        return name
    if style == 2:
        return name
    if style == 0:
        return f'{inst_name}-{name}'
    return f'{name}-{inst_name}'


def parse_vec(text: str):
    parts = text.split()
    if len(parts) != 3:
        raise ValueError(text)
    return [float(p) for p in parts]


def close_vec(got, want, tol_abs=1e-6):
    return all(abs(g - w) <= tol_abs * max(1.0, abs(w)) for g, w in zip(got, want))


def horiz_len(m) -> float:
    return math.hypot(m[0][0], m[0][1])


def check_angles(ctx, clause, got_text, want_mat, where):
    try:
        got = parse_vec(got_text)
    except ValueError:
        ctx.fail(clause, f'{where}: angles {got_text!r} do not parse')
        return
    gm = rm.mat_from_angle(*got)
    h = horiz_len(want_mat)
    tol = 2e-6 + (2 * h + 1e-6 if h < 0.001 else 0)
    d = rm.max_diff(gm, want_mat)
    ctx.check(d <= tol, clause, f'{where}: orientation {got_text!r} differs from template orientation composed with the '
                                f'instance rotation by {d:.3g} (tol {tol:.3g})')


def check_side(ctx, old, new, R, T, where):
    ctx.check(new.mat == old['mat'], 'geometry', f'{where}: material {new.mat!r} != {old["mat"]!r}')
    for j, (op_, np_) in enumerate(zip(old['planes'], new.planes)):
        want = rm.transform(op_, R, T)
        got = [np_.x, np_.y, np_.z]
        if not close_vec(got, want):
            ctx.fail('geometry', f'{where} plane point {j}: got {got}, want {op_} rotated+offset = {want}')
            return
    od = old['disp']
    if not ctx.check((od is not None) == bool(new.is_disp), 'displacement', f'{where}: displacement presence changed'):
        return
    if od is not None:
        nd = snap_disp(new)
        ok = nd['power'] == od['power'] and nd['elev'] == od['elev'] and close_vec(nd['pos'], rm.transform(od['pos'], R, T))
        ctx.check(ok, 'displacement', f'{where}: displacement power/elevation/start position: {od["pos"]} -> {nd["pos"]}')
        for k, (ov, nv) in enumerate(zip(od['verts'], nd['verts'])):
            good = (close_vec(nv[0], rm.vec_mat(ov[0], R)) and nv[1] == ov[1] and close_vec(nv[2], rm.vec_mat(ov[2], R))
                    and close_vec(nv[3], rm.vec_mat(ov[3], R)) and nv[4] == ov[4])
            if not good:
                ctx.fail('displacement', f'{where} vertex {k}: template {ov} became {nv}; vectors must be the originals rotated')
                return
    # texture lock: texture coordinate of the moved point equals that of the original point
    for axis_name, old_ax, new_ax in (('u', old['u'], new.uaxis), ('v', old['v'], new.vaxis)):
        ctx.check(new_ax.scale == old_ax[4], 'texture_lock', f'{where} {axis_name}axis scale changed')
        for op_ in old['planes']:
            before = rm.dot(op_, old_ax[:3]) / old_ax[4] + old_ax[3]
            moved = rm.transform(op_, R, T)
            after = rm.dot(moved, [new_ax.x, new_ax.y, new_ax.z]) / new_ax.scale + new_ax.offset
            new_u = [new_ax.x, new_ax.y, new_ax.z]
            # magnitude of the terms that cancel in the two expressions (coordinates may be huge)
            mag = (rm.vlen(op_) * rm.vlen(old_ax[:3]) + rm.vlen(moved) * rm.vlen(new_u)) / abs(new_ax.scale) \
                + abs(old_ax[3]) + abs(new_ax.offset)
            if abs(before - after) > 1e-4 + 1e-9 * mag:
                ctx.fail('texture_lock', f'{where} {axis_name}: texture coordinate at {op_} was {before!r}, is {after!r} after the move')
                return


def check_collapse(ctx, tsnap, new_brushes, new_ents, op_, table, R, T, node_seen):
    """Compare what one collapse added with the reference transform of the template snapshot."""
    inst_name, style = op_['name'], op_['style']
    vis_brushes = [b for b in tsnap['brushes'] if not b['hidden']]
    vis_ents = [e for e in tsnap['ents'] if not e['hidden']]
    if not ctx.check(len(new_brushes) == len(vis_brushes), 'counts',
                     f'{len(new_brushes)} brushes added, template has {len(vis_brushes)} visible'):
        return
    if not ctx.check(len(new_ents) == len(vis_ents), 'counts',
                     f'{len(new_ents)} entities added, template has {len(vis_ents)} visible'):
        return
    face_map = {}
    for bi, (ob, nb) in enumerate(zip(vis_brushes, new_brushes)):
        ctx.check(len(ob['sides']) == len(nb.sides), 'geometry', f'brush {bi}: side count differs')
        for si, (os_, ns) in enumerate(zip(ob['sides'], nb.sides)):
            face_map[os_['id']] = ns.id
            check_side(ctx, os_, ns, R, T, f'world brush {bi} side {si}')
    for ei, (oe, ne) in enumerate(zip(vis_ents, new_ents)):
        for bi, (ob, nb) in enumerate(zip(oe['solids'], ne.solids)):
            for si, (os_, ns) in enumerate(zip(ob['sides'], nb.sides)):
                face_map[os_['id']] = ns.id
                check_side(ctx, os_, ns, R, T, f'entity {ei} brush {bi} side {si}')
        ctx.check(len(oe['solids']) == len(ne.solids), 'counts', f'entity {ei}: solid count differs')
        for bi, (ob, nb) in enumerate(zip(oe['solids'], ne.solids)):
            # a brush that is individually hidden inside the instance file must not become visible geometry
            ctx.check(bool(nb.hidden or not nb.vis_shown) == bool(ob['hidden']), 'visibility',
                      f'entity {ei} brush {bi}: hidden in the template = {ob["hidden"]}, hidden after the collapse = '
                      f'{bool(nb.hidden or not nb.vis_shown)}')
            if ob['hidden']:
                ctx.label('hidden_solid_in_visible_entity')
    node_map = {}
    for ei, (oe, ne) in enumerate(zip(vis_ents, new_ents)):
        okeys = {k.casefold(): v for k, v in oe['keys']}
        cls = okeys['classname']
        where = f'entity {ei} ({cls})'
        nkeys = {k.casefold(): v for k, v in ne.items()}
        ctx.check(set(okeys) == set(nkeys), 'keys', f'{where}: key set changed {sorted(okeys)} -> {sorted(nkeys)}')
        kinds = dict(CLASSES[cls][1]) if cls in CLASSES else {}
        kinds.update({'origin': 'pos', 'angles': 'ang', 'targetname': 'name'})
        if cls == 'func_instance':
            kinds['file'] = 'str'
        # The orientation an entity really has: "angles", with the pitch taken from a pitch key (negated for the
        # angle_negative_pitch type) and the yaw from a yaw key when those exist.
        def effective(keys_):
            e = parse_vec(keys_['angles'])
            if kinds.get('pitch') in ('pitch', 'negpitch') and 'pitch' in keys_:
                e[0] = float(keys_['pitch']) * (-1.0 if kinds['pitch'] == 'negpitch' else 1.0)
            if kinds.get('yaw') == 'yawkey' and 'yaw' in keys_:
                e[1] = float(keys_['yaw'])
            return e
        overridden = ('angles' in okeys and 'angles' in nkeys and
                      ((kinds.get('pitch') in ('pitch', 'negpitch') and 'pitch' in okeys) or (kinds.get('yaw') == 'yawkey' and 'yaw' in okeys)))
        if overridden:
            ctx.label('pitch_key:' + str(kinds.get('pitch')) if 'pitch' in okeys else 'yaw_key')
            try:
                want_eff = rm.mat_mul(rm.mat_from_angle(*effective(okeys)), R)
                check_angles(ctx, 'orientation', fmt_vec(effective(nkeys)), want_eff,
                             f'{where}: effective orientation (angles with the pitch/yaw keys applied; template angles='
                             f'{okeys["angles"]!r} pitch={okeys.get("pitch")!r} yaw={okeys.get("yaw")!r}; collapsed angles='
                             f'{nkeys["angles"]!r} pitch={nkeys.get("pitch")!r} yaw={nkeys.get("yaw")!r})')
            except ValueError:
                ctx.fail('orientation', f'{where}: pitch/yaw/angles do not parse after the collapse: {nkeys}')
        for key, oval in okeys.items():
            if key not in nkeys:
                continue
            nval = nkeys[key]
            kind = kinds.get(key)
            w = f'{where}.{key}'
            if key == 'classname':
                ctx.check(nval == oval, 'keys', f'{w} changed')
            elif key in UNKNOWN_FOLDED:
                ctx.check(nval == oval, 'unknown_key_copied',
                          f'{w}: a keyvalue the engine database does not know was altered by the collapse: {oval!r} -> {nval!r}')
            elif kind == 'pos':
                if '$' in oval:
                    ctx.label('origin_with_variable')
                want = rm.transform(parse_vec(ref_substitute(oval, table)), R, T)
                try:
                    got = parse_vec(nval)
                except ValueError:
                    ctx.fail('geometry', f'{w}: {nval!r} does not parse')
                    continue
                ctx.check(close_vec(got, want), 'geometry', f'{w}: got {nval!r}, want {oval!r} rotated+offset = {want}')
            elif kind == 'dir':
                want = rm.vec_mat(parse_vec(oval), R)
                ctx.check(close_vec(parse_vec(nval), want), 'geometry', f'{w}: got {nval!r}, want {oval!r} rotated = {want}')
            elif kind == 'local':
                ctx.check(nval == oval, 'keys', f'{w}: local vector changed {oval!r} -> {nval!r}')
            elif kind == 'ang':
                if key == 'angles' and overridden:
                    continue          # judged above through the effective orientation
                want = rm.mat_mul(rm.mat_from_angle(*parse_vec(oval)), R)
                check_angles(ctx, 'orientation', nval, want, w)
            elif kind in ('pitch', 'negpitch', 'yawkey'):
                pass                  # part of the effective orientation
            elif kind == 'axis':
                a, b = oval.split(',')
                try:
                    na, nb_ = nval.split(',')
                    ga, gb = parse_vec(na), parse_vec(nb_)
                except ValueError:
                    ctx.fail('geometry', f'{w}: {nval!r} does not parse as an axis')
                    continue
                ctx.check(close_vec(ga, rm.transform(parse_vec(a), R, T)) and close_vec(gb, rm.transform(parse_vec(b), R, T)),
                          'geometry', f'{w}: got {nval!r} from {oval!r}')
            elif kind == 'name':
                want = ref_fixup_name(ref_substitute(oval, table), inst_name, style)
                ctx.check(nval == want, 'names', f'{w}: got {nval!r}, want {want!r} (template {oval!r}, instance {inst_name!r}, style {style})')
            elif kind == 'str':
                want = ref_substitute(oval, table)
                ctx.check(nval == want, 'substitution', f'{w}: got {nval!r}, want {want!r} (template {oval!r})')
            elif kind == 'sidelist':
                want = sorted(str(face_map[int(s)]) for s in oval.split() if int(s) in face_map)
                ctx.check(sorted(nval.split()) == want, 'sidelist', f'{w}: got {nval!r}, want ids {want} (template {oval!r}, map {face_map})')
            elif kind == 'node':
                try:
                    new_id = int(nval)
                except ValueError:
                    ctx.fail('nodes', f'{w}: {nval!r} is not an int')
                    continue
                old_id = int(oval)
                if old_id in node_map:
                    ctx.check(node_map[old_id] == new_id, 'nodes', f'{w}: node {old_id} mapped to both {node_map[old_id]} and {new_id}')
                else:
                    ctx.check(new_id not in node_map.values() and new_id not in node_seen and new_id >= 1, 'nodes',
                              f'{w}: node id {new_id} for template node {old_id} collides (this collapse {node_map}, earlier {sorted(node_seen)})')
                    node_map[old_id] = new_id
        # outputs
        ctx.check(len(oe['outs']) == len(ne.outputs), 'outputs', f'{where}: output count changed')
        for oi, (oo, no) in enumerate(zip(oe['outs'], ne.outputs)):
            want_t = ref_fixup_name(ref_substitute(oo[1], table), inst_name, style)
            got = [no.output, no.target, no.input, no.params, no.delay, no.times]
            want = [oo[0], want_t, oo[2], oo[3], oo[4], oo[5]]
            ctx.check(got == want, 'outputs', f'{where} output {oi}: got {got}, want {want}')
    node_seen.update(node_map.values())


def execute(desc, ctx):
    import logging
    logging.getLogger('srctools').setLevel(logging.CRITICAL)
    from srctools.vmf import VMF, FixupValue
    from srctools.keyvalues import Keyvalues
    from srctools.math import Vec, Matrix, Angle
    from srctools.instancing import Instance, InstanceFile, FixupStyle, collapse_one

    files = []
    vis_modes = any(o.get('vis', 0) for o in desc['ops'])
    for tdesc in desc['templates']:
        tv = build_template(tdesc, force_visible=vis_modes)
        if desc['via_text']:
            tv = VMF.parse(Keyvalues.parse(export_text(tv)), preserve_ids=True)
        f = InstanceFile(tv)
        files.append((f, snapshot(tv), export_text(tv)))

    if desc.get('reset_warnings'):
        # public API: makes the next sighting of each unknown keyvalue the "first" one again (process-global state)
        from srctools.instancing import reset_keyvalue_warnings
        reset_keyvalue_warnings()
        ctx.label('reset_warnings')
    target = VMF()
    target.create_ent('info_target', targetname='existing', origin='1 2 3')
    from srctools.vmf import VisGroup
    own_group = VisGroup(target, 'Instances')      # handed in as visgroup=<VisGroup>
    target.vis_tree.append(own_group)
    node_seen: set = set()
    used = {}
    any_rot = False
    prev = None
    prev_inst = prev_table = prev_ti = None
    for n, op_ in enumerate(desc['ops']):
        if op_.get('same_as_prev') and prev is not None:
            op_ = dict(op_, tpl=prev['tpl'], name=prev['name'], style=prev['style'], fixval=prev['fixval'])
        prev = op_
        ti = op_['tpl'] % len(files)
        f, tsnap, ttext = files[ti]
        used[ti] = used.get(ti, 0) + 1
        fix = [FixupValue(var, val, i + 1) for i, (var, val) in enumerate(zip(VAR_POOL, op_['fixval']))]
        table = {var.casefold(): val for var, val in zip(VAR_POOL, op_['fixval'])}
        for var, val in (('pvec', fmt_vec(op_.get('pvec', [0, 0, 0]))), ('pnum', fmt_vec([op_.get('pnum', 0.0)]))):
            fix.append(FixupValue(var, val, len(fix) + 1))
            table[var] = val
        if op_.get('reuse_inst') and prev_inst is not None and prev_ti == ti:
            # (an Instance stands for one func_instance of one file: it is only re-used for the file it was made for)
            inst = prev_inst
            inst.name, inst.pos, inst.orient = op_['name'], Vec(*op_['pos']), Matrix.from_angle(Angle(*op_['ang']))
            inst.fixup_type = FixupStyle(op_['style'])
            table = dict(prev_table)
            for edit in op_.get('fix_edits', []):
                var = VAR_POOL[edit[1] % len(VAR_POOL)]
                if edit[0] == 'del':
                    if var.casefold() in table and len(table) > 3:      # never down to an empty table
                        del inst.fixup[var]
                        del table[var.casefold()]
                        ctx.label('fixup_var_deleted_between_collapses')
                else:
                    inst.fixup[var] = edit[2]
                    table[var.casefold()] = edit[2]
            ctx.label('instance_object_reused')
        else:
            inst = Instance(op_['name'], 'inst.vmf', Vec(*op_['pos']), Matrix.from_angle(Angle(*op_['ang'])),
                            FixupStyle(op_['style']), (), fix)
        prev_inst, prev_table, prev_ti = inst, table, ti
        R = rm.mat_from_angle(*op_['ang'])
        T = list(op_['pos'])
        if any(a % 90 for a in op_['ang']):
            any_rot = True
        nb, ne = len(target.brushes), len(target.entities)
        vis = op_.get('vis', 0)
        groups_before = {id(g) for _, g in walk_groups(target.vis_tree)}
        try:
            if vis == 0 and not op_.get('vis_explicit'):
                collapse_one(target, inst, f, engine_cache=_ENGINE_CACHE)
            else:
                collapse_one(target, inst, f, engine_cache=_ENGINE_CACHE, visgroup=[False, True, own_group][vis])
        except Exception as exc:
            ctx.fail('collapse_raises', f'collapse #{n} of template {ti} (visgroup mode {vis}, earlier collapses of it: '
                                        f'{used[ti] - 1}) raised {type(exc).__name__}: {exc}', exc=type(exc).__name__)
            return
        ctx.label(f'visgroup_mode:{vis}')
        # (1) template intact
        after = export_text(f.vmf)
        if after != ttext:
            diff = next((f'{a!r} -> {b!r}' for a, b in zip(ttext.splitlines(), after.splitlines()) if a != b), 'length differs')
            ctx.fail('template_intact', f'collapse #{n} of template {ti} changed the template: {diff}')
        now = snapshot(f.vmf)
        for part in ('groups', 'brushes', 'ents'):
            if now[part] != tsnap[part]:
                ctx.fail('template_intact', f'collapse #{n} of template {ti} (visgroup mode {vis}) changed the template\'s {part}: '
                                            f'{_first_diff(tsnap[part], now[part])}')
        # (1b) visgroups: the map gets its own group objects, shaped like the instance's, and every copy is filed under the
        # groups its original was in
        if vis:
            check_visgroups(ctx, f.vmf, tsnap, target, own_group if vis == 2 else None, groups_before,
                            target.brushes[nb:], target.entities[ne:], f'collapse #{n} of template {ti} (visgroup mode {vis})')
        # (2)-(5) against the snapshot taken before the first collapse
        check_collapse(ctx, tsnap, target.brushes[nb:], target.entities[ne:], op_, table, R, T, node_seen)
        ctx.check(target.entities[0]['targetname'] == 'existing' and target.entities[0]['origin'] == '1 2 3',
                  'bystander', 'an entity already in the map was altered')

    has_brush = any(t['brushes'] or any(e.get('solids') for e in t['ents']) for t in desc['templates'])
    has_named_out = any(e['name'] and e.get('outs') for t in desc['templates'] for e in t['ents'])
    ctx.label(f'ops:{len(desc["ops"])}')
    if any_rot:
        ctx.label('arbitrary_rotation')
    if max(used.values()) >= 2:
        ctx.label('repeat_collapse')
    if any(sd.get('disp') for t in desc['templates'] for d in t.get('dsolids', []) for sd in d.get('sides', [])):
        ctx.label('displacement')
    if any(e['cls'] == 'func_instance' and e['fixups'] for t in desc['templates'] for e in t['ents']):
        ctx.label('nested_instance_with_fixups')
    for t in desc['templates']:
        seen_brush_ent = False
        for e in reversed(t['ents']):
            if e.get('solids'):
                seen_brush_ent = True
            elif seen_brush_ent and any(k[0] == 'sides' and k[2] for k in e.get('keys', [])):
                ctx.label('sidelist_before_later_brush_entity')
    if any(e.get('extra') for t in desc['templates'] for e in t['ents']) and max(used.values()) >= 2:
        ctx.label('unknown_key_collapsed_twice')
    for t in desc['templates']:
        for e in t['ents']:
            ctx.label('cls:' + e['cls'])
    ctx.nontrivial(has_brush and has_named_out and any_rot and max(used.values()) >= 2)


# ----------------------------------------------------------------------------- collapse_all over inclusion graphs

def graph_strategy(tier: str):
    nfiles = st.integers(1, 3)

    def for_n(n):
        inst = st.fixed_dictionaries({
            'file': st.integers(0, n - 1),
            'name': st.sampled_from(['i1', 'I2', 'sub']),
            'pos': vec3(512),
            'ang': angle_triple(),
            'style': st.integers(0, 2),
            # classnames are matched case-insensitively everywhere in srctools
            'cls': st.sampled_from(['func_instance', 'func_instance', 'Func_Instance', 'FUNC_INSTANCE']),
        })
        filed = st.fixed_dictionaries({
            'targets': st.lists(st.fixed_dictionaries({'name': st.sampled_from(['t1', 'T2', '@g']), 'origin': vec3(256)}), max_size=2),
            'insts': st.lists(inst, max_size=2),
        })
        return st.fixed_dictionaries({
            'files': st.lists(filed, min_size=n, max_size=n),
            'top': st.lists(inst, min_size=1, max_size=2),
            'limit': st.integers(1, 5),
        })
    return nfiles.flatmap(for_n)


def execute_all(desc, ctx):
    from srctools.vmf import VMF
    from srctools.filesys import VirtualFileSystem
    from srctools import instancing

    def add_inst(vmf, i):
        vmf.create_ent(i.get('cls', 'func_instance'), targetname=i['name'], file=f'f{i["file"]}.vmf', origin=fmt_vec(i['pos']),
                       angles=fmt_vec(i['ang']), fixup_style=str(i['style']))

    texts = {}
    for n, fd in enumerate(desc['files']):
        v = VMF()
        for t in fd['targets']:
            v.create_ent('info_target', targetname=t['name'], origin=fmt_vec(t['origin']), angles='0 0 0')
        for i in fd['insts']:
            add_inst(v, i)
        texts[f'f{n}.vmf'] = export_text(v)
    main = VMF()
    for i in desc['top']:
        add_inst(main, i)
    fsys = VirtualFileSystem(texts)

    # reference expansion: list of (file, R, T, name-transformer chain, depth)
    limit = desc['limit']
    pending = [(i, rm.IDENT, [0.0, 0.0, 0.0], [], 0.0) for i in desc['top']]
    radius = max([1.0] + [abs(c) for fd_ in desc['files'] for t_ in fd_['targets'] for c in t_['origin']] +
                 [abs(c) for fd_ in desc['files'] for i_ in fd_['insts'] for c in i_['pos']])
    expected = []   # (name, pos, depth)
    passes = 0
    total_collapses = 0
    while pending and passes < limit:
        passes += 1
        nxt = []
        for i, R, T, chain, slack in pending:
            total_collapses += 1
            # instance placement in world space
            Ri = rm.mat_mul(rm.mat_from_angle(*i['ang']), R)
            Ti = rm.transform(i['pos'], R, T)
            if chain:
                # A nested func_instance carries its composed orientation as an "angles" keyvalue between two passes; at the
                # gimbal pole that conversion may lose up to twice the horizontal length h of the forward axis (C04).
                h = horiz_len(Ri)
                if h < 0.001 * (1 + 1e-6):
                    slack += 2 * h + 1e-6
            ch = chain + [(i['name'], i['style'])]
            fd = desc['files'][i['file']]
            for t in fd['targets']:
                name = t['name']
                for iname, style in reversed(ch):
                    # the innermost instance renames first; its own name was renamed by the outer ones before
                    pass
                expected.append((t, ch, rm.transform(t['origin'], Ri, Ti), passes, slack))
            for sub in fd['insts']:
                nxt.append((sub, Ri, Ti, ch, slack))
        pending = nxt
    finishes = not pending   # all collapsed within the limit (the implementation may still raise, see below)

    calls = [0]
    real_collapse = instancing.collapse_one

    class _TooManyCollapses(Exception):
        pass

    def counting(*a, **k):
        calls[0] += 1
        if calls[0] > total_collapses + 50:
            raise _TooManyCollapses()      # would not terminate (or far beyond what recur_limit passes allow): stop the loop
        return real_collapse(*a, **k)

    instancing.collapse_one = counting
    raised = None
    try:
        try:
            instancing.collapse_all(main, fsys, recur_limit=limit)
        except RecursionError as exc:
            raised = exc
        except _TooManyCollapses:
            ctx.fail('termination', f'collapse_all kept collapsing: more than {total_collapses + 50} collapses although the inclusion '
                                    f'graph allows at most {total_collapses} within recur_limit={limit} passes (does not terminate)')
            return
    finally:
        instancing.collapse_one = real_collapse

    ctx.label('finishes' if finishes else 'exceeds_limit')
    cyclic = _has_cycle(desc)
    if cyclic:
        ctx.label('cyclic_graph')
        if any(i.get('cls', 'func_instance') != 'func_instance' for fd in desc['files'] for i in fd['insts']):
            ctx.label('cyclic_mixed_case_classname')
    ctx.nontrivial(cyclic or passes >= 2)
    ctx.check(calls[0] <= total_collapses, 'termination',
              f'collapse_all performed {calls[0]} collapses, the inclusion graph allows at most {total_collapses} in {limit} passes')
    if not finishes:
        ctx.check(raised is not None, 'termination', 'instances still nest beyond recur_limit but no RecursionError was raised')
        return
    if raised is not None:
        # All instances were collapsed exactly when the pass budget ran out; raising then is within the statement
        # ("terminates"), so nothing further is judged.
        ctx.label('raised_at_exact_limit')
        return
    ctx.check(not list(main.by_class['func_instance']), 'all_collapsed', 'collapse_all returned but func_instance entities remain')
    targets = [e for e in main.entities if e['classname'] == 'info_target']
    ctx.check(len(targets) == len(expected), 'all_collapsed', f'{len(targets)} info_target in the result, expansion has {len(expected)}')
    # positions (multiset match with tolerance growing with depth)
    remaining = [parse_vec(e['origin']) for e in targets]
    for t, ch, pos, depth, slack in expected:
        tol = 2e-5 * depth
        if slack:
            ctx.label('nested_instance_at_gimbal_pole')
        extra = 3 * slack * radius * depth
        for k, got in enumerate(remaining):
            if all(abs(g - w) <= tol * max(1.0, abs(w)) + extra for g, w in zip(got, pos)):
                del remaining[k]
                break
        else:
            ctx.fail('nested_placement', f'no collapsed info_target at {pos} (template origin {t["origin"]}, chain {ch}); leftover {remaining[:4]}')
            return


def _has_cycle(desc) -> bool:
    n = len(desc['files'])
    adj = {i: {s['file'] for s in desc['files'][i]['insts']} for i in range(n)}
    color = {}

    def visit(u):
        color[u] = 1
        for v in adj[u]:
            if color.get(v) == 1 or (v not in color and visit(v)):
                return True
        color[u] = 2
        return False
    return any(visit(u) for u in range(n) if u not in color)


SUBCHECKS = [
    Sub('collapse_one', execute, strategy=strategy, quick=800, quick_shards=8, thorough=60000, floor=30,
        must_hit=('arbitrary_rotation', 'repeat_collapse', 'nested_instance_with_fixups', 'displacement',
                  'unknown_key_collapsed_twice', 'reset_warnings', 'sidelist_before_later_brush_entity',
                  'hidden_solid_in_visible_entity', 'origin_with_variable', 'visgroup_mode:1', 'visgroup_mode:2',
                  'copy_in_instance_visgroup', 'entity_solid_in_visgroup', 'pitch_key:pitch', 'pitch_key:negpitch', 'yaw_key',
                  'instance_object_reused', 'fixup_var_deleted_between_collapses')),
    Sub('collapse_all', execute_all, strategy=graph_strategy, quick=600, thorough=30000, floor=20,
        must_hit=('cyclic_graph', 'cyclic_mixed_case_classname', 'finishes', 'exceeds_limit')),
]
MATCHERS = {}
