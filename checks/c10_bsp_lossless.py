"""C10 - saving an unmodified BSP is lossless whichever lumps were looked at (DESIGN.md section 2, C10)."""
from __future__ import annotations

import contextlib
import io
import lzma
import os
import struct
import tempfile
import traceback

from hypothesis import strategies as st

from vlib import bspgen as G
from vlib import core
from vlib.core import HarnessError, Sub

PROPERTY = 'C10'
LEVEL = 'exploration'
RULE = (
    'inputs: tests/test_vec/rot_main.bsp (every singleton view, pairs, random ordered subsets with repeats) and BSPs '
    'synthesised by an independent writer (vlib/bspgen.py: 7 header/record layouts, LZMA on random lumps and game '
    'lumps, opaque bytes in view-less lumps, random but cross-lump-consistent geometry/tree/prop tables); '
    'a case = (file, ordered list of views read with getattr, 1-2 save cycles); non-trivial = >= 2 distinct views '
    'read of which one is rebuilt from other views; distinct = sha1 of the descriptor JSON'
)
ASSUMPTIONS = [
    'views are only read (getattr), never mutated',
    'synthesised files obey the cross-lump consistency the format needs: LEAFMINDISTTOWATER has one entry per leaf; '
    'every brush model is referenced by an entity; every split face has an original face; FACES_HDR is empty or '
    'parallel to FACES; index arrays (leaf faces/brushes, brush sides, primitive verts/indices, prop leaf list) are '
    'exactly the concatenation of the slices that use them (a rebuild drops unused entries, so an all-unused array '
    'would become empty); texdata records, edges and brush-model references are generated both in rebuild order and '
    'NOT (unreferenced texdata/edges, out-of-first-use order, entities naming models in descending order) - there only '
    'parsed content is demanded; edge 0 is the unusable dummy; the vertex table contains the origin (the surfedge '
    'writer documents that it appends one otherwise); output delays are m x 10^e with m <= 99999, e in -9..9',
    'PAKFILE and GAME_LUMP are never LZMA-flagged (the writer documents that they cannot be); a compressed game lump '
    'is followed by one NUL byte (the reader derives compressed sizes from the next offset minus one)',
    'static prop flag words '
    'within the bits the prop version stores; node/leaf bounds integral (also in v25, see C11); VitaminSource files '
    'leave the lumps that format does not use empty and have non-negative leaf bounds (unsigned in srctools\' table)',
    'parsed content is compared after touching all 21 views in one fixed order on both files, as one rooted graph '
    '(so Face.orig_face.texinfo, which the faces reader fills in, is compared in the same state on both sides); '
    'entity keyvalues are compared as a mapping, material names as written',
    'pure-Python srctools only',
]
LEVEL_TEXT = (
    'Generated-input search: the sample map with all 21 single views, all 210 pairs (thorough) and random ordered '
    'subsets, plus thousands of independently synthesised BSPs over 7 layouts; each saved file is re-read by an '
    'independent container reader (header, lump table, LZMA, game lumps) and by srctools (parsed views compared as a '
    'rooted graph up to isomorphism). Held-on-everything-explored, not a proof.'
)
LEVEL_NOTE = (
    'Trusts vlib/bspgen.py (writer, container reader, canonicaliser) and liblzma; synthesised content is limited to '
    'small tables; VitaminSource record layouts are taken from srctools (no public description).'
)
TECHNIQUE = ('property-based testing (Hypothesis) + enumeration of view singletons/pairs: round-trip oracle with an '
             'independent file writer/reader and a rooted-graph canonicaliser')
CAPS = (420, 2400)


def sample_path() -> str:
    return os.path.join(core.REPO_DIR, 'tests', 'test_vec', 'rot_main.bsp')


def save_quiet(bsp, path: str) -> str:
    """save() prints 'Compress:' lines; keep them away from the runner's stdout."""
    buf = io.StringIO()
    with contextlib.redirect_stdout(buf):
        bsp.save(path)
    return buf.getvalue()


def graph_of(path: str):
    """Canonical rooted graph of all parsed views (touched in G.VIEW_ORDER) of a fresh BSP instance."""
    from srctools.bsp import BSP
    bsp = BSP(path)
    views = [getattr(bsp, v) for v in G.VIEW_ORDER]
    meta = [str(bsp.static_prop_version.name), bsp.out_comma_sep]
    return G.canon(views), meta


_SAMPLE_CACHE: dict = {}


def sample_reference():
    if 'c' not in _SAMPLE_CACHE:
        with open(sample_path(), 'rb') as f:
            blob = f.read()
        _SAMPLE_CACHE['c'] = G.read_container(blob, False)
        _SAMPLE_CACHE['g'] = graph_of(sample_path())
    return _SAMPLE_CACHE['c'], _SAMPLE_CACHE['g']


def compare_container(ctx, c0: dict, c1: dict, accessed: bool, tag: str) -> None:
    ctx.check(c1['magic'] == c0['magic'] and c1['version'] == c0['version'], 'header',
              f'{tag}: magic/version {c0["magic"]!r}/{c0["version"]} -> {c1["magic"]!r}/{c1["version"]}')
    ctx.check(c1['revision'] == c0['revision'], 'map_revision',
              f'{tag}: map revision {c0["revision"]} -> {c1["revision"]}')
    for idx in range(64):
        a, b = c0['lumps'][idx], c1['lumps'][idx]
        name = G.LUMP_NAMES[idx]
        ctx.check(a['version'] == b['version'], 'lump_version',
                  f'{tag}: lump {name} version {a["version"]} -> {b["version"]}', lump=name)
        if idx == G.GAME_LUMP:
            continue
        ctx.check(a['compressed'] == b['compressed'], 'lump_flags',
                  f'{tag}: lump {name} compressed flag {a["compressed"]} -> {b["compressed"]}', lump=name)
        if idx in G.OPAQUE_LUMPS or not accessed:
            ctx.check(a['data'] == b['data'], 'opaque_bytes' if accessed else 'untouched_bytes',
                      f'{tag}: lump {name} changed: {len(a["data"])} bytes {a["data"][:24].hex()}.. -> '
                      f'{len(b["data"])} bytes {b["data"][:24].hex()}..', lump=name)
        ctx.check(not a['data'] or b['data'], 'emptied',
                  f'{tag}: lump {name} had {len(a["data"])} bytes and is empty after save', lump=name)
    ga = [(g['id'], g['flags'], g['version']) for g in c0['game_lumps']]
    gb = [(g['id'], g['flags'], g['version']) for g in c1['game_lumps']]
    ctx.check(ga == gb, 'game_lump_dir', f'{tag}: game lump ids/flags/versions {ga} -> {gb}')
    for x, y in zip(c0['game_lumps'], c1['game_lumps']):
        if x['id'] not in (b'sprp', b'dprp') or not accessed:
            ctx.check(x['data'] == y['data'], 'opaque_bytes' if accessed else 'untouched_bytes',
                      f'{tag}: game lump {x["id"]!r} changed: {x["data"][:24].hex()}.. -> {y["data"][:24].hex()}..',
                      lump=x['id'].decode('ascii', 'replace'))
        ctx.check(not x['data'] or y['data'], 'emptied', f'{tag}: game lump {x["id"]!r} is empty after save',
                  lump=x['id'].decode('ascii', 'replace'))


def compare_graph(ctx, ref, got, tag: str, **facts) -> None:
    (ga, ma), (gb, mb) = ref, got
    if ga == gb:
        return
    # which view?
    view = '?'
    for i, name in enumerate(G.VIEW_ORDER):
        if ga[1 + i] != gb[1 + i]:
            view = name
            break
    ctx.fail('parsed_content', f'{tag}: parsed view {view!r} differs after save: {G.first_diff(ga, gb)}',
             view=view, **facts)


def history_of(desc) -> list:
    """[{'access': [...], 'fresh': bool, 'same_path': bool}, ...]; old descriptors (access + cycles) = fresh object per cycle."""
    if 'history' in desc:
        return desc['history']
    return [{'access': desc['access'], 'fresh': True, 'same_path': False} for _ in range(desc.get('cycles', 1))]


def label_history(ctx, history: list) -> None:
    ctx.label(f'cycles:{len(history)}')
    same_look = False
    for prev, step in zip(history, history[1:]):
        if step['fresh']:
            ctx.label('history:fresh_object_per_cycle')
        else:
            ctx.label('history:same_object')
            if prev['access'] and step['access']:
                same_look = True
        if step['same_path']:
            ctx.label('history:same_path')
    if same_look:
        ctx.label('history:same_object_look_save_look_save')


def run_cycles(ctx, src: str, c0: dict, ref_graph, l4d2: bool, history: list, td: str, **facts) -> None:
    """The history is played on BSP objects: a step either continues with the object of the previous step (kept alive
    after its save()) or opens the last written file afresh; it reads the listed views and saves.  After every save the
    written file is read by fresh objects and compared with the original."""
    from srctools.bsp import BSP
    cur = src
    bsp = None
    out = None
    touched = False
    for cyc, step in enumerate(history):
        access = step['access']
        touched = touched or bool(access)
        if bsp is None or step['fresh']:
            bsp = BSP(cur)
            how = 'fresh object'
        else:
            how = 'same object'
        tag = f'cycle {cyc + 1}/{len(history)} ({how}) access={access}'
        for v in access:
            getattr(bsp, v)
        if out is None or not step['same_path']:
            out = os.path.join(td, f'out{cyc}.bsp')
        save_quiet(bsp, out)
        with open(out, 'rb') as f:
            blob = f.read()
        try:
            c1 = G.read_container(blob, l4d2)
        except (ValueError, struct.error, IndexError, lzma.LZMAError) as exc:
            ctx.fail('container', f'{tag}: saved file is not a readable BSP container: {exc!r}', **facts)
            return
        compare_container(ctx, c0, c1, touched, tag)
        # saving the result again untouched changes nothing
        again = os.path.join(td, f'again{cyc}.bsp')
        save_quiet(BSP(out), again)
        with open(again, 'rb') as f:
            blob2 = f.read()
        if blob2 != blob:
            pos = next((i for i, (x, y) in enumerate(zip(blob, blob2)) if x != y), min(len(blob), len(blob2)))
            ctx.fail('resave_identical', f'{tag}: saving the saved file again differs at byte {pos} '
                                         f'({len(blob)} vs {len(blob2)} bytes)', **facts)
        os.unlink(again)
        compare_graph(ctx, ref_graph, graph_of(out), tag, **facts)
        cur = out


def label_access(ctx, access: list) -> None:
    aset = sorted(set(access))
    if not aset:
        ctx.label('access:none')
    for v in aset:
        ctx.label('view:' + v)
    if len(aset) == 2:
        ctx.label('pair:' + '+'.join(aset))
    if len(access) != len(aset):
        ctx.label('access:repeat')
    ctx.nontrivial(len(aset) >= 2 and any(v in G.REBUILT_FROM_OTHERS for v in aset))


def execute_sample(desc, ctx) -> None:
    history = history_of(desc)
    label_access(ctx, [v for st_ in history for v in st_['access']])
    label_history(ctx, history)
    c0, ref = sample_reference()
    with tempfile.TemporaryDirectory(prefix='c10_') as td:
        run_cycles(ctx, sample_path(), c0, ref, False, history, td, source='sample')


def execute_single(desc, ctx) -> None:
    execute_sample(desc, ctx)
    ctx.nontrivial(True)      # the singleton domain is enumerated completely


def classify_world(ctx, w: dict, lumps: dict, game: list) -> dict:
    facts = {}
    ctx.label('layout:' + w['layout'])
    if any(s['lzma'] and s['data'] for s in lumps.values()):
        ctx.label('lzma')
    if any(g['lzma'] for g in game):
        ctx.label('gl_lzma')
    if w.get('lzma_all'):
        ctx.label('lzma:all_lumps')
    if w.get('messy'):
        ctx.label('tables:non_canonical')
        tds = [t[2] for t in w['texinfo']]
        if len(set(tds)) < len(w['texdata']):
            ctx.label('tables:unreferenced_texdata')
        first = list(dict.fromkeys(tds))
        if first != sorted(first):
            ctx.label('tables:texdata_out_of_order')
        used_edges = {abs(v) for v in w['surfedges']}
        if len(used_edges) < len(w['edges']) - 1:
            ctx.label('tables:unused_edges')
        for nm_ in ('TEXINFO', 'SURFEDGES', 'ENTITIES'):
            if lumps[G.LUMP_INDEX[nm_]]['lzma'] and lumps[G.LUMP_INDEX[nm_]]['data']:
                ctx.label('tables:non_canonical+lzma')
    used = [s.get('lzma_opts') for i, s in lumps.items() if s['lzma'] and s['data'] and i != G.PAKFILE] + [
        g.get('lzma_opts') for g in game if g['lzma']]
    facts['lzma_nondefault'] = any(not G.lzma_is_default(o) for o in used)
    if facts['lzma_nondefault']:
        ctx.label('lzma:nondefault')
    facts['lzma_pb'] = max([o['pb'] for o in used if o], default=2)
    if len(game) > 2:
        ctx.label('gl_extra')
    if w['gl_dummy']:
        ctx.label('gl_dummy')
    if w['sprp']['props']:
        ctx.label('sprp:' + w['sprp']['ver'])
    kinds = {p['type'] for p in w['dprp']['props']}
    for k in sorted(kinds):
        ctx.label(f'dprp:type{k}')
    facts['dprp_shape'] = bool(kinds & {2, 3})
    for key in ('faces', 'hdrfaces', 'ofaces', 'brushes', 'water', 'overlays', 'cubemaps', 'prims', 'phys', 'surfedges'):
        if w[key]:
            ctx.label('has:' + key)
    if w['vis'] is not None:
        ctx.label('has:vis')
    if w['opaque']:
        ctx.label('has:opaque')
    facts['water'] = bool(w['water'])
    facts['faces_without_ids'] = bool(w['faces']) and not w['faceids']
    if facts['faces_without_ids']:
        ctx.label('faces_without_ids')
    facts['layout'] = w['layout']
    return facts


_PRELUDE: dict = {}


def read_prelude(opts, td: str) -> None:
    """Read another small file whose PLANES lump is compressed with the given LZMA settings, in this process, before
    the case proper: settings seen in one file must not influence how a later file is saved (and it pins any such
    process-wide state to the descriptor, so a case stays a pure function of it)."""
    from srctools.bsp import BSP
    key = tuple(opts)
    if key not in _PRELUDE:
        w = G.skeleton('v20')
        w['lzma'] = ['PLANES', 'ENTITIES']
        w['lzma_opts'] = [list(opts)]
        _PRELUDE[key] = G.build_bsp(w)
    path = os.path.join(td, 'prelude.bsp')
    with open(path, 'wb') as f:
        f.write(_PRELUDE[key])
    bsp = BSP(path)
    list(bsp.planes)
    os.unlink(path)


def execute_synth(desc, ctx) -> None:
    from srctools.bsp import BSP
    w = G.resolve_world(desc['world'])
    history = history_of(desc)
    label_access(ctx, [v for st_ in history for v in st_['access']])
    label_history(ctx, history)
    lumps, game = G.encode_world(w)
    facts = classify_world(ctx, w, lumps, game)
    blob = G.build_bsp(w, (lumps, game))
    l4d2 = G.LAYOUTS[w['layout']].l4d2
    prelude = desc.get('prelude', G.LZMA_DEFAULT)
    if not G.lzma_is_default(G.lzma_opts_of(prelude)):
        ctx.label('prelude:nondefault')
    with tempfile.TemporaryDirectory(prefix='c10_') as td:
        src = os.path.join(td, 'in.bsp')
        with open(src, 'wb') as f:
            f.write(blob)
        c0 = G.read_container(blob, l4d2)
        try:
            read_prelude(prelude, td)
            ref = graph_of(src)
            probe = BSP(src)
            ok = (probe.game_ver.name == 'L4D2') == l4d2
        except Exception as exc:
            if any(fr.name == 'decompress_lzma' for fr in traceback.extract_tb(exc.__traceback__)):
                ctx.fail('lzma_input_rejected', f'a lump compressed with legal LZMA settings cannot be read: {exc!r} '
                                                f'(lzma_opts={w.get("lzma_opts")}, prelude={prelude})', **facts)
                return
            if any(fr.filename.startswith(core.REPO_SRC) for fr in traceback.extract_tb(exc.__traceback__)):
                # the generated file is legal by construction: a reader that cannot take it is a finding, not our bug
                tb = ''.join(traceback.format_exception(type(exc), exc, exc.__traceback__)[-4:])
                ctx.fail('input_rejected', f'the reader rejects a well-formed input: {exc!r}\n{tb}', exc_type=type(exc).__name__, **facts)
                return
            raise HarnessError(f'generated input is rejected by the reader: {exc!r}\nworld={w!r}') from exc
        if not ok:
            raise HarnessError(f'layout {w["layout"]} not recognised: game_ver={probe.game_ver}')
        run_cycles(ctx, src, c0, ref, l4d2, history, td, **facts)


# ---- failing_access: one view's lump is undecodable; looking at it (and failing) must not change the file ----------

# view -> views its reader or writer pulls in
DEPS = {
    'surfedges': ['vertexes'], 'orig_faces': ['planes', 'surfedges', 'primitives', 'texinfo'],
    'faces': ['orig_faces', 'texinfo', 'planes', 'surfedges', 'primitives'],
    'hdr_faces': ['orig_faces', 'texinfo', 'planes', 'surfedges', 'primitives'],
    'brushes': ['planes', 'texinfo'], 'water_leaf_info': ['texinfo'], 'visleafs': ['brushes', 'faces'],
    'nodes': ['planes', 'faces', 'visleafs'], 'texinfo': ['textures'], 'bmodels': ['nodes', 'faces', 'ents'],
    'overlays': ['texinfo'], 'props': ['visleafs'],
}


def closure(view: str) -> set:
    seen = set()
    todo = [view]
    while todo:
        v = todo.pop()
        if v in seen:
            continue
        seen.add(v)
        todo.extend(DEPS.get(v, []))
    return seen


# corruption kind -> (view, lump name or game lump id)
TRUNC = {
    'PLANES': 'planes', 'VERTEXES': 'vertexes', 'CUBEMAPS': 'cubemaps', 'TEXINFO': 'texinfo', 'BRUSHES': 'brushes',
    'NODES': 'nodes', 'LEAFWATERDATA': 'water_leaf_info', 'OVERLAYS': 'overlays', 'MODELS': 'bmodels',
    'SURFEDGES': 'surfedges', 'LEAFS': 'visleafs', 'FACES': 'faces', 'ORIGINALFACES': 'orig_faces',
    'TEXDATA_STRING_TABLE': 'textures', 'PRIMITIVES': 'primitives', 'BRUSHSIDES': 'brushes', 'TEXDATA': 'texinfo',
}
# Failures injected into the LAST thing a dependent view reads, i.e. after the views it pulls in were parsed successfully
# (bmodels -> nodes/faces/ents + PHYSCOLLIDE, props -> visleafs + records, overlays/water -> texinfo, faces -> planes, ...).
LATE = {
    'phys_dup': 'bmodels', 'phys_kv_bad': 'bmodels', 'phys_kv_nonascii': 'bmodels', 'phys_trunc': 'bmodels',
    'phys_model_index': 'bmodels', 'sprp_leaf_index': 'props', 'sprp_model_index': 'props',
    'overlay_texinfo_index': 'overlays', 'water_texinfo_index': 'water_leaf_info', 'face_plane_index': 'faces',
    'node_leaf_index': 'nodes', 'leaf_brush_index': 'visleafs', 'side_texinfo_index': 'brushes',
    'trunc:EDGES': 'surfedges', 'trunc:PRIMVERTS': 'primitives', 'trunc:OVERLAY_FADES': 'overlays',
}
TRUNC.update({'EDGES': 'surfedges', 'PRIMVERTS': 'primitives', 'OVERLAY_FADES': 'overlays'})
CORRUPTIONS = (['trunc:' + n for n in TRUNC] + ['sprp_version', 'sprp_size', 'tex_offset', 'ents_unclosed', 'dprp_type']
               + [k for k in LATE if not k.startswith('trunc:')])


def corrupt_world(kind: str, param: int, w: dict):
    """Corruptions expressed on the (resolved) world before encoding.  Returns (view, description) or None if the kind
    is a byte-level one.  Missing prerequisites are created (a second brush model with its entity, a water entry...)."""
    import copy
    if kind not in LATE or kind.startswith('trunc:'):
        return None
    view = LATE[kind]
    big = 20000 + param
    if kind.startswith('phys_'):
        if len(w['models']) < 2:            # a brush entity that owns a model, so that the entity lump matters
            w['models'] = w['models'] + [copy.deepcopy(w['models'][0])]
            w['ents'] = w['ents'] + [{'kv': [['classname', 'func_brush'], ['targetname', 'late'], ['model', '*1']], 'outs': []}]
        phys = [dict(p) for p in w['phys']] or [{'model': len(w['models']) - 1, 'solids': ['00ff'], 'kv': 'solid\n{\n"index" "0"\n}\n'}]
        if kind == 'phys_dup':
            phys.append(dict(phys[param % len(phys)]))          # two physics sections for one brush model
        elif kind == 'phys_kv_bad':
            phys[-1]['kv'] = 'solid\n{\n"index" "0"\n'              # block never closed
        elif kind == 'phys_kv_nonascii':
            phys[-1]['kv'] = None                                   # marker, bytes are patched after encoding
        elif kind == 'phys_model_index':
            phys.append(dict(phys[-1], model=big))                  # section for a brush model that does not exist
        w['phys'] = phys
        return view, 'PHYSCOLLIDE'
    if kind in ('sprp_leaf_index', 'sprp_model_index'):
        return view, 'sprp'                                         # patched after encoding
    if kind == 'overlay_texinfo_index':
        if not w['overlays']:
            return corrupt_world('phys_dup', param, w)
        w['overlays'] = [dict(o) for o in w['overlays']]
        w['overlays'][-1]['ti'] = big
        return view, 'OVERLAYS'
    if kind == 'water_texinfo_index':
        w['water'] = [list(x) for x in w['water']] + [[1.0, 0.0, big]]
        return view, 'LEAFWATERDATA'
    if kind == 'face_plane_index':
        if not w['faces']:
            return corrupt_world('phys_dup', param, w)
        w['faces'] = [dict(f) for f in w['faces']]
        w['faces'][-1]['plane'] = big
        return view, 'FACES'
    if kind == 'node_leaf_index':
        w['nodes'] = [dict(n) for n in w['nodes']]
        w['nodes'][-1]['ch'] = [w['nodes'][-1]['ch'][0], -1 - big]
        return view, 'NODES'
    if kind == 'leaf_brush_index':
        w['leafs'] = [dict(lf) for lf in w['leafs']]
        w['leafs'][-1]['brushes'] = list(w['leafs'][-1]['brushes']) + [big]
        return view, 'LEAFBRUSHES'
    if kind == 'side_texinfo_index':
        if not any(b[1] for b in w['brushes']):
            return corrupt_world('phys_dup', param, w)
        w['brushes'] = copy.deepcopy(w['brushes'])
        next(b for b in reversed(w['brushes']) if b[1])[1][-1][1] = big
        return view, 'BRUSHSIDES'
    raise HarnessError(kind)


def corrupt_late_bytes(kind: str, param: int, w: dict, lumps: dict, game: list) -> None:
    """Second half of the world-level corruptions that are easier on the encoded bytes."""
    if kind == 'phys_trunc':
        idx = G.LUMP_INDEX['PHYSCOLLIDE']
        lumps[idx]['data'] = lumps[idx]['data'][:-16 - param % 3]      # sentinel section missing
    elif kind == 'phys_kv_nonascii':
        idx = G.LUMP_INDEX['PHYSCOLLIDE']
        d = bytearray(lumps[idx]['data'])
        d[-18] = 0xE9                                                   # inside the last keyvalues text
        lumps[idx]['data'] = bytes(d)
    elif kind in ('sprp_leaf_index', 'sprp_model_index'):
        g = next(g for g in game if g['id'] == b'sprp')
        sp = dict(w['sprp'])
        props = [dict(p) for p in sp['props']]
        if not props:
            g['version'] = 99
            return
        if kind == 'sprp_leaf_index':
            props[-1]['leaves'] = list(props[-1]['leaves']) + [20000 + param]
            sp['props'] = props
            g['data'] = G.encode_sprp(sp, G.FAM[G.LAYOUTS[w['layout']].fam]['propleaf'])
        else:
            vnum, size = G.SPRP_VERSIONS[sp['ver']]
            d = bytearray(g['data'])
            struct.pack_into('<H', d, len(d) - size + 24, 20000 + param)   # model index of the last record
            g['data'] = bytes(d)




def corrupt(kind: str, param: int, w: dict, lumps: dict, game: list):
    """Make one lump undecodable.  Returns (view, [lump ids that must stay byte-identical])."""
    if kind.startswith('trunc:'):
        name = kind[6:]
        idx = G.LUMP_INDEX[name]
        lumps.setdefault(idx, {'data': b'', 'version': 0, 'lzma': False})
        lumps[idx]['data'] += bytes([1 + param % 250]) * (1 + param % 3)
        return TRUNC[name], name
    if kind in ('sprp_version', 'sprp_size'):
        g = next(g for g in game if g['id'] == b'sprp')
        if kind == 'sprp_version':
            g['version'] = [0, 1, 3, 14, 99, 65535][param % 6]
        else:
            if not w['sprp']['props']:
                return None, None
            g['data'] += bytes(1 + param % 3)
        return 'props', 'sprp'
    if kind == 'dprp_type':
        g = next(g for g in game if g['id'] == b'dprp')
        if not w['dprp']['props']:
            return None, None
        data = bytearray(g['data'])
        data[-8] = 4 + param % 200          # m_Type of the last record
        g['data'] = bytes(data)
        return 'detail_props', 'dprp'
    if kind == 'tex_offset':
        idx = G.LUMP_INDEX['TEXDATA_STRING_TABLE']
        lumps[idx]['data'] = lumps[idx]['data'][:-4] + struct.pack('<i', 100000 + param)
        return 'textures', 'TEXDATA_STRING_TABLE'
    if kind == 'ents_unclosed':
        idx = G.LUMP_INDEX['ENTITIES']
        lumps[idx]['data'] = lumps[idx]['data'].rstrip(b'\0').rstrip()[:-1] + b'\n\0'    # drop the last "}"
        return 'ents', 'ENTITIES'
    raise HarnessError(kind)


def execute_failing(desc, ctx) -> None:
    from srctools.bsp import BSP
    from srctools.tokenizer import TokenSyntaxError
    w = G.resolve_world(desc['world'])
    kind = desc['kind'] or CORRUPTIONS[core.desc_hash([desc['param'], desc['access'], desc['world']]) % len(CORRUPTIONS)]
    late = corrupt_world(kind, desc['param'], w)
    if late is not None and late[0] != LATE[kind]:
        kind = 'phys_dup'                       # prerequisite missing in this world: fell back
    if late is not None and kind == 'phys_kv_nonascii':
        w['phys'][-1]['kv'] = 'solid\n{\n"index" "0"\n"name" "abcdefgh"\n}\n'
    lumps, game = G.encode_world(w)
    if late is not None:
        view, where = late
        corrupt_late_bytes(kind, desc['param'], w, lumps, game)
    else:
        view, where = corrupt(kind, desc['param'], w, lumps, game)
        if view is None:        # needs a prop the world does not have: damage the lump header version instead
            kind = 'sprp_version'
            view, where = corrupt(kind, desc['param'], w, lumps, game)
    ctx.label('corrupt:' + kind)
    if kind in LATE:
        ctx.label('failing:dependent_view_late')
    ctx.label('layout:' + w['layout'])
    blob = G.write_container(G.LAYOUTS[w['layout']], lumps, game, w['revision'], gl_dummy=w['gl_dummy'], gl_pad=w['gl_pad'])
    l4d2 = G.LAYOUTS[w['layout']].l4d2
    # views that neither are the broken one nor pull it in
    safe = [v for v in G.VIEW_ORDER if view not in closure(v)]
    rounds = [desc['access']] + [r for r in desc.get('more', [])]       # all on ONE object: look -> save -> look -> save
    if len(rounds) > 1:
        ctx.label('history:same_object_look_save_look_save')
    with tempfile.TemporaryDirectory(prefix='c10_') as td:
        src = os.path.join(td, 'in.bsp')
        with open(src, 'wb') as f:
            f.write(blob)
        c0 = G.read_container(blob, l4d2)
        read_prelude(G.LZMA_DEFAULT, td)
        bsp = BSP(src)
        ga = None
        for rnd, acc in enumerate(rounds):
            others = [v for v in acc if v in safe]
            order = list(others)
            order.insert((desc['param'] + rnd) % (len(order) + 1), view)
            raised = None
            for v in order:
                if v != view:
                    getattr(bsp, v)
                    continue
                try:
                    getattr(bsp, v)
                except (struct.error, ValueError, IndexError, KeyError, TokenSyntaxError, AssertionError) as exc:
                    raised = type(exc).__name__
                    if kind in LATE:
                        ctx.label(f'late:{view}:{raised}')
            ctx.label('raised:' + (raised or 'nothing'))
            ctx.nontrivial(raised is not None)
            facts = {'kind': kind, 'view': view, 'raised': raised, 'layout': w['layout']}
            tag = f'round {rnd + 1}/{len(rounds)}: corrupt {where} ({kind}), access={order}, {view} raised {raised}'
            out = os.path.join(td, f'out{rnd}.bsp')
            save_quiet(bsp, out)
            with open(out, 'rb') as f:
                blob1 = f.read()
            try:
                c1 = G.read_container(blob1, l4d2)
            except (ValueError, struct.error, IndexError, lzma.LZMAError) as exc:
                ctx.fail('container', f'{tag}: saved file is not a readable BSP container: {exc!r}', **facts)
                return
            if raised is None:
                return      # the reader coped with the damaged lump: an ordinary access, nothing to demand about its bytes
            compare_container(ctx, c0, c1, True, tag)
            # every lump of the view that could not be read is untouched
            for lid in G.VIEWS[view]:
                if isinstance(lid, int):
                    a_, b_ = c0['lumps'][lid]['data'], c1['lumps'][lid]['data']
                    name = G.LUMP_NAMES[lid]
                else:
                    a_ = next(g['data'] for g in c0['game_lumps'] if g['id'] == lid)
                    b_ = next(g['data'] for g in c1['game_lumps'] if g['id'] == lid)
                    name = lid.decode()
                ctx.check(a_ == b_, 'failed_view_bytes', f'{tag}: lump {name} changed from {len(a_)} to {len(b_)} bytes '
                                                         f'although its view could not be read', lump=name, **facts)
            again = os.path.join(td, 'again.bsp')
            save_quiet(BSP(out), again)
            with open(again, 'rb') as f:
                ctx.check(f.read() == blob1, 'resave_identical', f'{tag}: saving the saved file again changes it', **facts)
            os.unlink(again)
            # parsed content of the unaffected views
            if ga is None:
                a_bsp = BSP(src)
                ga = G.canon([getattr(a_bsp, v) for v in safe])
            b_bsp = BSP(out)
            gb = G.canon([getattr(b_bsp, v) for v in safe])
            if ga != gb:
                ctx.fail('parsed_content', f'{tag}: unaffected views differ after save: {G.first_diff(ga, gb)}', **facts)


# ---------------------------------------------------------------------------------------------------------------

def enum_single(tier):
    yield {'access': []}
    for v in G.VIEW_ORDER:
        yield {'access': [v]}


def enum_pairs(tier):
    names = G.VIEW_ORDER
    k = 0
    for i in range(len(names)):
        for j in range(i + 1, len(names)):
            k += 1
            if tier == 'quick' and k % 13 != 0:
                continue
            pair = [names[i], names[j]] if (i + j) % 2 else [names[j], names[i]]
            yield {'access': pair}


def access_strategy(min_size=1, max_size=6):
    some = st.lists(st.sampled_from(G.VIEW_ORDER), min_size=min_size, max_size=max_size)
    return st.one_of(some, some, some, st.permutations(G.VIEW_ORDER).map(list), st.just([]))


def history_strategy(access, max_cycles=3):
    """1..3 cycles of [read an ordered subset of views -> save]; a later cycle continues with the same (still alive)
    object or with a fresh one, and writes to a new path or over the previous output."""
    step = st.fixed_dictionaries({'access': access, 'fresh': st.booleans(), 'same_path': st.booleans()})
    look = st.fixed_dictionaries({'access': access, 'fresh': st.just(False), 'same_path': st.booleans()})
    return st.one_of(
        st.lists(step, min_size=1, max_size=1),
        st.lists(step, min_size=1, max_size=max_cycles),
        st.lists(look, min_size=2, max_size=max_cycles),        # look -> save -> look -> save on one object
    )


def strat_subsets(tier):
    views = st.lists(st.sampled_from(G.VIEW_ORDER), min_size=1, max_size=6)
    return st.fixed_dictionaries({'history': history_strategy(views, 2)})


PRELUDE = st.one_of(st.just(G.LZMA_DEFAULT), st.sampled_from([[0, 2, 0, 16], [4, 0, 4, 12], [1, 1, 1, 14]]),
                    st.tuples(st.integers(0, 4), st.integers(0, 4), st.integers(0, 4), st.integers(12, 20)).map(list))


def strat_synth(tier):
    return st.fixed_dictionaries({
        # small parts first: when a big world exhausts Hypothesis' entropy buffer the later draws degenerate to minima
        'history': history_strategy(access_strategy()),
        'prelude': PRELUDE,
        'world': G.world_strategy(tier),
    })


def strat_failing(tier):
    return st.fixed_dictionaries({
        # small parts first: when a big world exhausts Hypothesis' entropy buffer the later draws degenerate to minima.
        # kind None = chosen by a hash of the rest of the descriptor (uniform over distinct cases whatever the search does)
        'kind': st.none(),
        'param': st.integers(0, 1000),
        'access': st.lists(st.sampled_from(G.VIEW_ORDER), max_size=4),
        'more': st.lists(st.lists(st.sampled_from(G.VIEW_ORDER), max_size=4), max_size=2),
        'world': G.world_strategy(tier),
    })


def strat_container(tier):
    """Poor geometry, rich container: opaque lumps, LZMA, game lumps; mostly nothing accessed."""
    return st.fixed_dictionaries({
        'history': history_strategy(st.one_of(st.just([]), st.just([]), access_strategy(max_size=2)), 2),
        'prelude': PRELUDE,
        'world': G.world_strategy(tier, rich=False),
    })


_VIEW_LABELS = tuple('view:' + v for v in G.VIEW_ORDER)
_LAYOUT_LABELS = tuple('layout:' + n for n in G.MAIN_LAYOUTS)

SUBCHECKS = [
    Sub('sample_single', execute_single, enumerate=enum_single, quick_shards=8, thorough_shards=16, floor=22,
        must_hit=_VIEW_LABELS + ('access:none',)),
    Sub('sample_pairs', execute_sample, enumerate=enum_pairs, quick_shards=8, thorough_shards=16, floor=10),
    Sub('sample_subsets', execute_sample, strategy=strat_subsets, quick=24, thorough=2000, quick_shards=8,
        thorough_shards=16, floor=10, must_hit=('history:same_object_look_save_look_save',)),
    Sub('synth', execute_synth, strategy=strat_synth, quick=800, thorough=24000, quick_shards=8, thorough_shards=16,
        floor=200, must_hit=_VIEW_LABELS + _LAYOUT_LABELS + (
            'history:same_object_look_save_look_save', 'history:fresh_object_per_cycle', 'history:same_path',
            'lzma:all_lumps', 'tables:non_canonical', 'tables:unreferenced_texdata', 'tables:texdata_out_of_order',
            'tables:unused_edges', 'tables:non_canonical+lzma',
            'lzma', 'lzma:nondefault', 'prelude:nondefault', 'gl_lzma', 'gl_dummy', 'gl_extra', 'has:faces', 'has:water', 'has:vis', 'has:overlays',
            'has:brushes', 'has:phys', 'dprp:type2', 'dprp:type3', 'access:repeat')),
    Sub('container', execute_synth, strategy=strat_container, quick=400, thorough=8000, quick_shards=4,
        thorough_shards=16, floor=5, must_hit=_LAYOUT_LABELS + ('access:none', 'lzma', 'lzma:nondefault', 'gl_lzma', 'has:opaque')),
    Sub('failing_access', execute_failing, strategy=strat_failing, quick=500, thorough=8000, quick_shards=4,
        thorough_shards=16, floor=100, must_hit=_LAYOUT_LABELS + (
            'corrupt:sprp_version', 'corrupt:trunc:PLANES', 'corrupt:trunc:TEXINFO', 'corrupt:trunc:LEAFS', 'corrupt:tex_offset',
            'corrupt:ents_unclosed', 'raised:error', 'raised:ValueError', 'history:same_object_look_save_look_save',
            'failing:dependent_view_late', 'corrupt:phys_dup', 'corrupt:phys_kv_bad', 'corrupt:phys_trunc',
            'late:bmodels:ValueError')),
]

MATCHERS = {}
