"""Independent decoder for Valve VPK *version 1* directory files (used by C13 and C19).

Written from the published layout only (Valve Developer Community "VPK (file format)"); it imports nothing
from srctools, so the reader and the writer under test cannot agree on a private dialect:

    header   uint32 signature 0x55aa1234, uint32 version (=1), uint32 tree_size
    tree     for each extension:  NUL-terminated string  (a lone "" ends the list)
               for each folder:   NUL-terminated string  (a lone "" ends the list)
                 for each file:   NUL-terminated string  (a lone "" ends the list)
                   uint32 crc32, uint16 preload_len, uint16 archive_index,
                   uint32 offset, uint32 length, uint16 terminator 0xffff,
                   preload_len bytes of preload data
             the string " " (one space) stands for an empty extension / root folder / empty file stem
    data     archive_index 0x7fff: `length` bytes at `offset` counted from the END OF THE TREE (12 + tree_size)
             inside the directory file itself;  otherwise at `offset` from the start of `<prefix>_NNN.vpk`
             (NNN = index, zero padded to three digits) next to the directory file, where <prefix> is the
             directory file name without `_dir.vpk` (or without `.vpk` for a single-file archive)
    file content = preload bytes + archive bytes;  crc32 (zlib polynomial) covers the whole content

API
    parse_tree(raw)            -> (tree_size, [Entry])       entries without archive data, strict structure checks
    read_entries(path)         -> [Entry]                    entries with .data filled from the files on disk
    read_vpk(path)             -> {'folder/stem.ext': bytes} name -> content map (CRC verified unless check_crc=False)
    read_vpk_keys(path)        -> {(folder, stem, ext): bytes}
    join_name(folder, stem, ext), archive_path(dir_path, index)
All structural problems raise `VPKDecodeError` with a description.
"""
from __future__ import annotations

import os
import struct
import zlib
from typing import Optional

SIGNATURE = 0x55AA1234
DIR_INDEX = 0x7FFF
HEADER_V1 = 12
ENTRY = struct.Struct('<IHHIIH')
assert ENTRY.size == 18


class VPKDecodeError(Exception):
    """The bytes on disk are not a well-formed VPK v1 archive."""


class Entry:
    """One file record of the directory tree."""
    __slots__ = ('folder', 'stem', 'ext', 'crc', 'preload', 'arch_index', 'offset', 'length', 'data')

    def __init__(self, folder: str, stem: str, ext: str, crc: int, preload: bytes,
                 arch_index: int, offset: int, length: int) -> None:
        self.folder, self.stem, self.ext = folder, stem, ext
        self.crc = crc
        self.preload = preload
        self.arch_index = arch_index      # raw 16-bit value; DIR_INDEX (0x7fff) = stored after the tree
        self.offset = offset
        self.length = length              # bytes stored outside the preload
        self.data: Optional[bytes] = None  # preload + archive bytes, filled by read_entries()

    @property
    def key(self) -> tuple[str, str, str]:
        return (self.folder, self.stem, self.ext)

    @property
    def name(self) -> str:
        return join_name(self.folder, self.stem, self.ext)

    @property
    def location(self) -> str:
        """'preload' (all data in the tree), 'tail' (directory file, after the tree) or 'numbered'."""
        if self.length == 0:
            return 'preload'
        return 'tail' if self.arch_index == DIR_INDEX else 'numbered'

    def __repr__(self) -> str:
        return (f'<Entry {self.name!r} crc={self.crc:#010x} preload={len(self.preload)} '
                f'arch={self.arch_index:#x} off={self.offset} len={self.length}>')


def join_name(folder: str, stem: str, ext: str) -> str:
    """Full path of a file inside the archive: 'folder/stem.ext' with empty parts left out."""
    name = stem + ('.' + ext if ext else '')
    return folder + '/' + name if folder else name


def archive_path(dir_path: str, index: int) -> str:
    """Path of the numbered archive `<prefix>_NNN.vpk` belonging to the directory file `dir_path`."""
    folder, fname = os.path.split(os.fspath(dir_path))
    if fname.endswith('_dir.vpk'):
        prefix = fname[:-len('_dir.vpk')]
    elif fname.endswith('.vpk'):
        prefix = fname[:-len('.vpk')]
    else:
        prefix = fname
    return os.path.join(folder, '%s_%03d.vpk' % (prefix, index))


def _cstring(raw: bytes, pos: int, end: int, what: str) -> tuple[Optional[str], int]:
    """Read one NUL-terminated string inside the tree.  None = the empty string that ends a list."""
    stop = raw.find(b'\x00', pos, end)
    if stop < 0:
        raise VPKDecodeError(f'{what} string starting at byte {pos} has no NUL terminator inside the tree (tree ends at {end})')
    chunk = raw[pos:stop]
    if not chunk:
        return None, stop + 1
    if chunk == b' ':
        return '', stop + 1
    try:
        return chunk.decode('ascii'), stop + 1
    except UnicodeDecodeError:
        # Not produced by ASCII names; keep the bytes distinguishable.
        return chunk.decode('latin-1'), stop + 1


def parse_tree(raw: bytes) -> tuple[int, list[Entry]]:
    """Decode header and tree of a v1 directory file.  Returns (tree_size, entries in file order)."""
    if len(raw) < HEADER_V1:
        raise VPKDecodeError(f'directory file has only {len(raw)} bytes, the v1 header needs {HEADER_V1}')
    sig, version, tree_size = struct.unpack_from('<III', raw, 0)
    if sig != SIGNATURE:
        raise VPKDecodeError(f'bad signature {sig:#010x}')
    if version != 1:
        raise VPKDecodeError(f'version {version} is not supported by this decoder (v1 only)')
    end = HEADER_V1 + tree_size
    if end > len(raw):
        raise VPKDecodeError(f'tree_size {tree_size} runs past the end of the file ({len(raw)} bytes)')
    if tree_size < 1:
        raise VPKDecodeError('tree_size 0: even an empty tree needs its terminating NUL')
    entries: list[Entry] = []
    seen: set[tuple[str, str, str]] = set()
    pos = HEADER_V1
    while True:
        ext, pos = _cstring(raw, pos, end, 'extension')
        if ext is None:
            break
        while True:
            folder, pos = _cstring(raw, pos, end, 'folder')
            if folder is None:
                break
            while True:
                stem, pos = _cstring(raw, pos, end, 'file')
                if stem is None:
                    break
                if pos + ENTRY.size > end:
                    raise VPKDecodeError(f'entry of {join_name(folder, stem, ext)!r} at byte {pos} runs past the tree end {end}')
                crc, preload_len, arch_index, offset, length, term = ENTRY.unpack_from(raw, pos)
                pos += ENTRY.size
                if term != 0xFFFF:
                    raise VPKDecodeError(f'entry of {join_name(folder, stem, ext)!r} has terminator {term:#06x}, not 0xffff')
                if pos + preload_len > end:
                    raise VPKDecodeError(f'preload ({preload_len} bytes) of {join_name(folder, stem, ext)!r} runs past the tree end')
                preload = raw[pos:pos + preload_len]
                pos += preload_len
                key = (folder, stem, ext)
                if key in seen:
                    raise VPKDecodeError(f'file {join_name(folder, stem, ext)!r} is listed twice in the tree')
                seen.add(key)
                entries.append(Entry(folder, stem, ext, crc, preload, arch_index, offset, length))
    if pos != end:
        raise VPKDecodeError(f'tree ends at byte {pos} but the header says {end} (tree_size={tree_size})')
    return tree_size, entries


def read_entries(dir_path: str, check_crc: bool = True) -> list[Entry]:
    """Decode `dir_path` and fetch every file's content from the raw files on disk."""
    dir_path = os.fspath(dir_path)
    with open(dir_path, 'rb') as f:
        raw = f.read()
    tree_size, entries = parse_tree(raw)
    tail_start = HEADER_V1 + tree_size
    archives: dict[int, bytes] = {}
    for e in entries:
        if e.length == 0:
            body = b''
        elif e.arch_index == DIR_INDEX:
            lo = tail_start + e.offset
            body = raw[lo:lo + e.length]
            if len(body) != e.length:
                raise VPKDecodeError(
                    f'{e.name!r}: {e.length} bytes at offset {e.offset} after the tree are not in the directory file '
                    f'({len(raw) - tail_start} bytes follow the tree)')
        else:
            if e.arch_index not in archives:
                apath = archive_path(dir_path, e.arch_index)
                try:
                    with open(apath, 'rb') as af:
                        archives[e.arch_index] = af.read()
                except OSError as exc:
                    raise VPKDecodeError(f'{e.name!r}: cannot read archive {os.path.basename(apath)}: {exc}') from None
            arch = archives[e.arch_index]
            body = arch[e.offset:e.offset + e.length]
            if len(body) != e.length:
                raise VPKDecodeError(
                    f'{e.name!r}: {e.length} bytes at offset {e.offset} are not in archive index {e.arch_index} '
                    f'({len(arch)} bytes long)')
        e.data = e.preload + body
        if check_crc:
            got = zlib.crc32(e.data) & 0xFFFFFFFF
            if got != e.crc:
                raise VPKDecodeError(f'{e.name!r}: crc32 of the stored content is {got:#010x}, the entry says {e.crc:#010x}')
    return entries


def read_vpk(dir_path: str, check_crc: bool = True) -> dict[str, bytes]:
    """name ('folder/stem.ext') -> content, recovered from the raw files."""
    res: dict[str, bytes] = {}
    for e in read_entries(dir_path, check_crc):
        if e.name in res:
            raise VPKDecodeError(f'two tree entries spell the same path {e.name!r}')
        res[e.name] = e.data  # type: ignore[assignment]
    return res


def read_vpk_keys(dir_path: str, check_crc: bool = True) -> dict[tuple[str, str, str], bytes]:
    """(folder, stem, ext) -> content, recovered from the raw files."""
    return {e.key: e.data for e in read_entries(dir_path, check_crc)}  # type: ignore[misc]
