"""C08 - IDs handed out inside one VMF are unique per kind and positive (DESIGN.md section 2, C08).

Model-based command histories.  A descriptor is
``{'fam': <family>, 'maps': [origin, origin], 'tmpl': doc | None, 'cmds': [[op, a, b, c, d, e], ...]}``; ``a..e`` are small
ints which each op decodes *modulo* whatever it indexes, so every list is a valid history.  The harness keeps a pool of
references (``[kind, object, map index]``); ``drop`` deletes the harness reference and ``gc`` runs ``gc.collect()``, both
explicit commands.  Automatic cyclic GC is switched off and everything that existed before the case is frozen, so object
lifetimes are a pure function of the history (CPython reference counting + the explicit ``gc`` commands).

After every command every object *reachable from the two maps* (spawn + entities, their solids, the sides of those,
vis_tree recursively, groups) is collected by a harness walk and the ids are checked per kind; objects the harness merely
still holds are not judged.
"""
from __future__ import annotations

import gc
import re

from hypothesis import strategies as st

from vlib.core import Sub

PROPERTY = 'C08'
LEVEL = 'exploration'
TECHNIQUE = 'property-based testing (Hypothesis): model-based command histories with explicit drop/gc commands vs. a reachability walk'
RULE = (
    'Hypothesis generates command histories (<=30 quick / <=45 thorough commands) over 2 maps (VMF() or VMF.parse of a '
    'generated tree with duplicated / missing / zero / negative ids, preserve_ids=False) and a pool of harness references: '
    'create Entity/Solid/Side/VisGroup/EntityGroup with desired id in {-1, 0, negative, small, id of a live object}, copy() '
    'within / across maps with and without des_id, remove, re-add, drop the harness reference, gc.collect(), grab a reachable '
    'object, nodeid set/del/pop, fixup set/del/clear/setdefault/construction from FixupValue lists, copies of an EntityFixup '
    '(copy.copy / deepcopy / pickle round trip / rebuilt from copy_values()) that are then edited alongside their source, collapse_one of a '
    'generated preserve_ids=True template (fresh Instance objects and earlier ones used again), constructor / parse calls that are rejected with the documented ValueError (Side '
    'with != 3 points; Side/Solid/Entity/VisGroup/EntityGroup.parse of malformed blocks - bad plane / uaxis / dispinfo / '
    'groupid / visgroupid / unknown block / bad output - whose ids equal ids of live objects, rejected part-way or tolerated) followed by further allocations.  After every command ids of all objects reachable from the maps are checked per kind.  '
    'Non-trivial = the history frees an id (remove / last reference dropped / nodeid or fixup deleted) and allocates one '
    'of that kind afterwards, or parses a tree with colliding / missing / non-positive ids, or builds fixups from a list '
    'with duplicate or non-positive indexes, or collapses a non-empty template; distinct = sha1 of the descriptor JSON'
)
ASSUMPTIONS = [
    'maps under judgement are made with preserve_ids=False (the template of collapse_one is preserve_ids=True and exempt)',
    'the caller never assigns .id, passes ints as desired ids, and only attaches an object to the map it was created for, in one place',
    'worldspawn is never removed; objects the harness holds but that are not reachable from a map are not judged',
    'nodeid values that do not parse as int are ignored; fixup variable names are non-empty',
    'when a live id is missing from the map\'s public id manager (vmf.ent_id / solid_id / face_id / vis_id / node_id) the harness '
    'appends one ordinary allocation asking for that id; only the resulting duplicate among live objects is judged',
    'object lifetime = CPython reference counting plus the explicit gc commands (automatic GC disabled during a case)',
    'entity classes used in collapse_one exist in the shipped FGD database',
    'malformed blocks given to the parse classmethods may be rejected with ValueError or LookupError (NoKeyError) or tolerated - '
    'neither is judged, only the ids of live objects afterwards; "Exception ignored in __del__" noise is not judged',
]
LEVEL_TEXT = ('Generated-input search: thousands (quick) to hundreds of thousands (thorough) of allocation / removal / GC / copy / '
              'parse / collapse histories per family, uniqueness and positivity of ids checked after every command and in the exported '
              'text; held-on-everything-explored, not a proof.')
LEVEL_NOTE = ('Trusts the harness walk over spawn/entities/solids/sides/vis_tree/groups, CPython refcount semantics for "last '
              'reference dropped", and a small line scanner for the exported text; histories bounded (2 maps, 45 commands).')
CAPS = (300, 2400)

KINDS = ('ent', 'solid', 'side', 'vis', 'group')
SMALL_IDS = [0, -7, 1, 2, 3, 4, 6, 9]
DOC_IDS = [None, '0', '-3', '1', '1', '2', '2', '3', '4', '7', '30', '4294967297']
NODE_VALUES = ['1', '2', '3', '0', '-1', '5', 'x', '0', '4', '-1']   # 0 / -1: lowest free id, so a released id is re-issued at once
VARS = ['a', 'A', '$b', 'b', 'c', 'long_name', 'd', '$E']
FIX_IDS = [1, 1, 2, 3, 0, -1, 2, 99, 100, 7]
REPL_KEYS = ['replace01', 'replace01', 'replace02', 'replace03', 'replace00', 'replace100', 'replace-1', 'replace02', 'replace10']
COLLAPSE_CLASSES = ['info_target', 'func_brush', 'info_node', 'logic_relay']


# ---------------------------------------------------------------------------------------------- strategies
FAMILIES: dict[str, list[str]] = {
    # allocation of every kind with desired ids, copies, last-reference drops (no entity removal: that is 'recycle')
    'alloc': ['new_ent', 'new_ent', 'new_solid', 'new_solid', 'new_side', 'new_vis', 'new_group', 'copy', 'copy', 'copy',
              'detach', 'reattach', 'drop', 'drop', 'gc', 'grab', 'bad_side', 'bad_parse', 'bad_parse'],
    # entities: remove, drop, gc, create again, re-add
    'recycle': ['new_ent', 'new_ent', 'new_ent', 'remove_ent', 'remove_ent', 'drop', 'drop', 'gc', 'reattach', 'copy', 'grab',
                'clear_ent', 'discard_ent'],
    # maps that come from VMF.parse of documents with bad ids
    'parse': ['new_ent', 'new_solid', 'new_side', 'new_vis', 'new_group', 'copy', 'grab', 'grab', 'detach', 'drop', 'gc',
              'bad_side', 'bad_parse', 'bad_parse'],
    # node ids (judged: node ids only)
    'nodeid': ['new_node', 'new_node', 'set_node', 'set_node', 'set_node', 'set_node', 'del_node', 'del_node', 'remove_ent',
               'reattach', 'copy', 'grab', 'drop', 'gc', 'clear_ent', 'discard_ent', 'discard_ent'],
    # fixups (judged: fixup indexes only)
    'fixup': ['new_fix', 'new_fix', 'fix_set', 'fix_set', 'fix_set', 'fix_del', 'fix_del', 'fix_clear', 'fix_default',
              'copy', 'fix_many', 'fix_copy', 'fix_copy'],
    # instancing.collapse_one
    'collapse': ['new_ent', 'new_solid', 'new_vis', 'collapse', 'collapse', 'collapse', 'grab', 'detach', 'drop', 'copy'],
    'mixed': ['new_ent', 'new_ent', 'new_solid', 'new_side', 'new_vis', 'new_group', 'new_node', 'new_fix', 'copy', 'copy',
              'detach', 'remove_ent', 'remove_ent', 'reattach', 'drop', 'drop', 'gc', 'grab', 'set_node', 'del_node',
              'fix_set', 'fix_del', 'fix_copy', 'collapse', 'bad_side', 'bad_parse', 'clear_ent', 'discard_ent'],
}
JUDGE = {
    'alloc': ('ent', 'solid', 'side', 'vis', 'group'),
    'recycle': ('ent', 'solid', 'side'),
    'parse': ('ent', 'solid', 'side', 'vis', 'group', 'node', 'fixup'),
    'nodeid': ('node',),
    'fixup': ('fixup',),
    'collapse': ('ent', 'solid', 'side', 'vis', 'group', 'node', 'fixup'),
    'mixed': ('ent', 'solid', 'side', 'vis', 'group', 'node', 'fixup'),
}
PARSED_ORIGIN = {'parse', 'mixed'}
WITH_TEMPLATE = {'collapse', 'mixed'}


def doc_strategy(small: bool = False):
    idv = st.integers(0, len(DOC_IDS) - 1)
    solid = st.fixed_dictionaries({
        'id': idv, 'sides': st.lists(idv, max_size=3), 'hidden': st.booleans(),
    })
    fix = st.lists(st.tuples(st.integers(0, len(REPL_KEYS) - 1), st.integers(0, len(VARS) - 1)).map(list), max_size=4)
    ent = st.fixed_dictionaries({
        'id': idv, 'cls': st.integers(0, 3), 'node': st.one_of(st.none(), st.integers(0, len(NODE_VALUES) - 1)),
        'solids': st.lists(solid, max_size=2), 'fix': fix, 'hidden': st.booleans(), 'vis': st.lists(st.integers(0, 4), max_size=2),
    })
    vis_leaf = st.fixed_dictionaries({'id': idv, 'kids': st.just([])})
    vis = st.fixed_dictionaries({'id': idv, 'kids': st.lists(vis_leaf, max_size=2)})
    return st.fixed_dictionaries({
        'wid': idv,
        'wsolids': st.lists(solid, max_size=2 if small else 3),
        'groups': st.lists(idv, max_size=3),
        'ents': st.lists(ent, max_size=3 if small else 4),
        'vis': st.lists(vis, max_size=2),
    })


def strategy_for(fam: str):
    # 'nop' is the simplest element: whatever the shrinker cannot delete it can turn into a command that does nothing.
    ops = ['nop'] + FAMILIES[fam]

    def strat(tier: str):
        max_cmds = 30 if tier == 'quick' else 45
        small = st.integers(0, 63)
        cmd = st.tuples(st.sampled_from(ops), small, small, small, small, small).map(list)
        origin = st.none() if fam not in PARSED_ORIGIN else st.one_of(st.none(), doc_strategy())
        tmpl = st.none() if fam not in WITH_TEMPLATE else doc_strategy(small=True)
        return st.fixed_dictionaries({
            'fam': st.just(fam),
            'maps': st.tuples(origin, origin).map(list),
            'tmpl': tmpl,
            'cmds': st.one_of(st.lists(cmd, max_size=8), st.lists(cmd, min_size=9, max_size=max_cmds),
                              st.lists(cmd, min_size=16, max_size=max_cmds)),
        })
    return strat


# ---------------------------------------------------------------------------------------------- documents
def build_doc(doc):
    """A VMF document as a Keyvalues tree (harness-built, not VMF.export())."""
    from srctools.keyvalues import Keyvalues as KV

    def idkv(name: str, n: int) -> list:
        v = DOC_IDS[n % len(DOC_IDS)]
        return [] if v is None else [KV(name, v)]

    def solid_kv(spec):
        kids = idkv('id', spec['id'])
        for sid in spec['sides']:
            kids.append(KV('side', idkv('id', sid) + [
                KV('plane', '(0 0 0) (16 0 0) (0 16 0)'), KV('material', 'tools/toolsnodraw'),
                KV('uaxis', '[1 0 0 0] 0.25'), KV('vaxis', '[0 -1 0 0] 0.25'),
            ]))
        kids.append(KV('editor', [KV('color', '0 255 0')]))
        block = KV('solid', kids)
        return KV('hidden', [block]) if spec['hidden'] else block

    def vis_kv(spec):
        return KV('visgroup', [KV('name', 'vg')] + idkv('visgroupid', spec['id']) + [KV('color', '1 2 3')]
                  + [vis_kv(k) for k in spec['kids']])

    vis_values: list = []

    def flat(lst) -> None:
        for v in lst:
            if DOC_IDS[v['id'] % len(DOC_IDS)] is not None:
                vis_values.append(DOC_IDS[v['id'] % len(DOC_IDS)])
            flat(v['kids'])
    flat(doc['vis'])
    world = idkv('id', doc['wid']) + [KV('classname', 'worldspawn')]
    world += [solid_kv(s) for s in doc['wsolids']]
    for g in doc['groups']:
        world.append(KV('group', idkv('id', g) + [KV('editor', [KV('color', '9 9 9')])]))
    blocks = [
        KV('versioninfo', [KV('formatversion', '100')]),
        KV('visgroups', [vis_kv(v) for v in doc['vis']]),
        KV('world', world),
    ]
    for spec in doc['ents']:
        cls = COLLAPSE_CLASSES[spec['cls'] % len(COLLAPSE_CLASSES)]
        kids = idkv('id', spec['id']) + [KV('classname', cls), KV('origin', '8 0 0'), KV('targetname', 'n%d' % spec['cls'])]
        if spec['node'] is not None:
            kids.append(KV('nodeid', NODE_VALUES[spec['node'] % len(NODE_VALUES)]))
        for nn, var in spec['fix']:
            kids.append(KV(REPL_KEYS[nn % len(REPL_KEYS)], '$' + VARS[var % len(VARS)].lstrip('$') + ' value'))
        kids += [solid_kv(s) for s in spec['solids']]
        # visgroup membership only ever names a visgroup id that the document defines
        member = sorted({vis_values[v % len(vis_values)] for v in spec['vis']}) if vis_values else []
        kids.append(KV('editor', [KV('color', '1 1 1')] + [KV('visgroupid', v) for v in member]))
        block = KV('entity', kids)
        blocks.append(KV('hidden', [block]) if spec['hidden'] else block)
    return KV.root(*blocks)


def doc_is_colliding(doc) -> bool:
    """Does the document have a duplicated, missing, zero or negative id of any kind?"""
    per_kind: dict[str, list] = {'ent': [doc['wid']], 'solid': [], 'side': [], 'vis': [], 'group': list(doc['groups'])}

    def solids(lst):
        for s in lst:
            per_kind['solid'].append(s['id'])
            per_kind['side'].extend(s['sides'])

    def vis(lst):
        for v in lst:
            per_kind['vis'].append(v['id'])
            vis(v['kids'])
    solids(doc['wsolids'])
    for e in doc['ents']:
        per_kind['ent'].append(e['id'])
        solids(e['solids'])
    vis(doc['vis'])
    for ids in per_kind.values():
        vals = [DOC_IDS[n % len(DOC_IDS)] for n in ids]
        if any(v is None or int(v) <= 0 for v in vals) or len(set(vals)) != len(vals):
            return True
    return False


# ---------------------------------------------------------------------------------------------- interpreter
class World:
    def __init__(self, desc, ctx) -> None:
        self.ctx = ctx
        self.desc = desc
        self.fam = desc['fam']
        self.judge = JUDGE[self.fam]
        self.maps = []
        self.pool = []              # [kind, object, map index]; the ONLY place the harness keeps object references
        self.tmpl = None            # InstanceFile
        self.trace: list[str] = []
        self.flags: set[str] = set()
        self.nontrivial = False
        self.freed: set[str] = set()    # kinds of which an id was released earlier in the history
        self.failed_ctor = False        # a constructor / parse call was rejected earlier in the history
        self.last_op = ''
        self.n_collapse = 0
        self.instances = []         # instancing.Instance objects of earlier collapses (no references to map objects)
        self.fixmaps = []           # stand-alone EntityFixup mappings (copies of an entity's fixups), named f0, f1, ...
        self.fix_rel = []           # [mapping, copy-family number, 'a variable was deleted from it'] (identity-keyed)

    def log(self, text: str) -> None:
        self.trace.append(text)

    def flag(self, *names: str) -> None:
        self.flags.update(names)

    def note_free(self, kind: str) -> None:
        self.freed.add(kind)

    def note_alloc(self, kind: str) -> None:
        if self.failed_ctor:
            self.flag('failed_ctor_then_alloc')
            self.nontrivial = True
        if kind in self.freed:
            self.flag('alloc_after_free:' + kind)
            self.nontrivial = True

    def fail(self, clause: str, msg: str, **facts) -> None:
        tr = '\n'.join(f'  {i:2d}: {t}' for i, t in enumerate(self.trace))
        self.ctx.fail(clause, f'{msg}\n after history (m0/m1 = maps, pN = harness reference N at that time):\n{tr}',
                      op=self.last_op, family=self.fam, **facts)

    def pick(self, kind, n: int, mi=None):
        """Index into the pool of the n-th (modulo) reference of this kind (and map), or -1."""
        kinds = (kind,) if isinstance(kind, str) else kind
        cands = [i for i, (k, _, m) in enumerate(self.pool) if k in kinds and (mi is None or m == mi)]
        return cands[n % len(cands)] if cands else -1

    def pool_index(self, obj) -> int:
        for i, rec in enumerate(self.pool):
            if rec[1] is obj:
                return i
        return -1

    def name(self, obj) -> str:
        i = self.pool_index(obj)
        return f'p{i}' if i >= 0 else '<not held>'


def planes():
    from srctools import Vec
    return [Vec(0, 0, 0), Vec(16, 0, 0), Vec(0, 16, 0)]


# ---- reachability walk --------------------------------------------------------------------------------
def add_unique(lst: list, obj) -> None:
    if not any(x is obj for x in lst):
        lst.append(obj)


def walk(vmf) -> dict:
    """Everything reachable from the map, per kind (identity-deduplicated, in a deterministic order)."""
    ents = [vmf.spawn]
    for e in vmf.entities:
        add_unique(ents, e)
    solids: list = []
    for s in vmf.brushes:
        add_unique(solids, s)
    for e in ents:
        for s in e.solids:
            add_unique(solids, s)
    sides: list = []
    for s in solids:
        for f in s.sides:
            add_unique(sides, f)
    vis: list = []

    def rec(lst) -> None:
        for v in lst:
            if not any(x is v for x in vis):
                vis.append(v)
                rec(v.child_groups)
    rec(vmf.vis_tree)
    groups: list = []
    for g in vmf.groups.values():
        add_unique(groups, g)
    return {'ent': ents, 'solid': solids, 'side': sides, 'vis': vis, 'group': groups}


def live_ids(vmf, kind: str) -> list:
    return sorted(o.id for o in walk(vmf)[kind])


def check_maps(w: World) -> None:
    for mi, vmf in enumerate(w.maps):
        reach = walk(vmf)
        for kind in KINDS:
            if kind not in w.judge:
                continue
            seen: dict = {}
            for obj in reach[kind]:
                oid = obj.id
                if type(oid) is not int:
                    w.fail('id_type', f'm{mi}: {kind} {w.name(obj)} has id {oid!r} of type {type(oid).__name__}', kind=kind)
                    continue
                if oid < 1:
                    w.fail('id_positive', f'm{mi}: {kind} {w.name(obj)} has non-positive id {oid}', kind=kind)
                if oid in seen:
                    w.fail('id_unique', f'm{mi}: two live {kind} objects reachable from the map share id {oid}: '
                           f'{w.name(seen[oid])} and {w.name(obj)}; ids of that kind now: {[o.id for o in reach[kind]]}',
                           kind=kind)
                seen[oid] = obj
        if 'node' in w.judge:
            nodes: dict = {}
            for e in reach['ent']:
                if 'nodeid' not in e:
                    continue
                try:
                    nid = int(e['nodeid'])
                except ValueError:
                    continue
                if nid < 1:
                    w.fail('node_positive', f'm{mi}: entity {w.name(e)} has nodeid {nid}', kind='node')
                if nid in nodes:
                    w.fail('node_unique', f'm{mi}: entities {w.name(nodes[nid])} and {w.name(e)} are both in the map with '
                           f'nodeid {nid}', kind='node')
                nodes[nid] = e
        if 'fixup' in w.judge:
            for e in reach['ent']:
                check_fixup(w, f'm{mi}: entity {w.name(e)}', e.fixup)
    del reach
    if 'fixup' in w.judge:
        # copies of an entity's fixup mapping (copy.copy / deepcopy / pickle / rebuilt from copy_values()): each is the
        # fixup set of one (would-be) entity, so its indexes are judged exactly like those of an attached entity.
        for fi, fm in enumerate(w.fixmaps):
            check_fixup(w, f'fixup mapping f{fi}', fm)
    for mi, vmf in enumerate(w.maps):
        follow_up(w, mi, vmf)


def check_fixup(w: World, what: str, fixup) -> None:
    vals = fixup.copy_values()
    idx = [fv.id for fv in vals]
    for n in idx:
        if type(n) is not int or n < 1:
            w.fail('fixup_positive', f'{what} has fixup index {n!r}: {[(fv.var, fv.id) for fv in vals]}', kind='fixup')
            break
    if len(set(idx)) != len(idx):
        w.fail('fixup_unique', f'{what} has repeated fixup indexes: {[(fv.var, fv.id) for fv in vals]}', kind='fixup')


def follow_up(w: World, mi: int, vmf) -> None:
    """Adaptive last command: when the id of a live object is no longer registered in the map's public id manager
    (``obj.id in vmf.solid_id`` ...), the harness asks for exactly that id with an ordinary constructor call and puts the new
    object into the map.  Only the outcome is judged - two live objects with one id - the membership test merely picks
    the command, so nothing beyond the statement is demanded."""
    from srctools.vmf import Entity, Side, Solid, VisGroup
    managers = {'ent': vmf.ent_id, 'solid': vmf.solid_id, 'side': vmf.face_id, 'vis': vmf.vis_id}
    reach = walk(vmf)
    for kind, man in managers.items():
        if kind not in w.judge:
            continue
        for obj in reach[kind]:
            oid = obj.id
            if type(oid) is not int or oid < 1 or oid in man:
                continue
            w.flag('follow_up:' + kind)
            if kind == 'ent':
                new = Entity(vmf, keys={'classname': 'info_target'}, ent_id=oid)
                vmf.add_ent(new)
                txt = f'm{mi}.add_ent(Entity(m{mi}, ent_id={oid}))'
            elif kind == 'solid':
                new = Solid(vmf, oid, [])
                vmf.add_brush(new)
                txt = f'm{mi}.add_brush(Solid(m{mi}, {oid}))'
            elif kind == 'side':
                new = Side(vmf, planes(), oid)
                vmf.add_brush(Solid(vmf, -1, [new]))
                txt = f'm{mi}.add_brush(Solid(m{mi}, -1, [Side(m{mi}, planes, {oid})]))'
            else:
                new = VisGroup(vmf, 'follow_up', oid)
                vmf.vis_tree.append(new)
                txt = f'm{mi}.vis_tree.append(VisGroup(m{mi}, "follow_up", {oid}))'
            w.log(f'<follow-up chosen by the harness because {oid} not in the {kind} id manager> {txt}  -> id {new.id}')
            if new.id == oid:
                w.fail('id_unique', f'm{mi}: two live {kind} objects reachable from the map share id {oid}: {w.name(obj)} and '
                       f'the object just created with that desired id', kind=kind, follow_up=True)
            return
    if 'node' in w.judge:
        for e in reach['ent']:
            if 'nodeid' not in e:
                continue
            try:
                nid = int(e['nodeid'])
            except ValueError:
                continue
            if nid < 1 or nid in vmf.node_id:
                continue
            w.flag('follow_up:node')
            new = vmf.create_ent('info_node')
            new['nodeid'] = str(nid)
            w.log(f'<follow-up chosen by the harness because {nid} not in m{mi}.node_id> '
                  f'x = m{mi}.create_ent("info_node"); x["nodeid"] = "{nid}"  -> nodeid {new["nodeid"]!r}')
            if new['nodeid'] == str(nid):
                w.fail('node_unique', f'm{mi}: entity {w.name(e)} and the entity just created are both in the map with '
                       f'nodeid {nid}', kind='node', follow_up=True)
            return


LINE = re.compile(r'^\s*"([^"]*)" "(.*)"\s*$')


def check_export(w: World) -> None:
    """The exported text has no repeated id within a kind and no repeated replaceNN key within one entity."""
    block_kind = {'world': 'ent', 'entity': 'ent', 'solid': 'solid', 'side': 'side', 'group': 'group', 'visgroup': 'vis'}
    for mi, vmf in enumerate(w.maps):
        text = vmf.export()
        stack: list = []          # [block name, saw id?, replace keys]
        pending = None
        ids: dict = {k: [] for k in KINDS}
        for line in text.split('\n'):
            s = line.strip()
            if s == '{':
                stack.append([pending, False, []])
                pending = None
            elif s == '}':
                if stack:
                    stack.pop()
            elif s and not s.startswith('"'):
                pending = s
            else:
                m = LINE.match(line)
                if m is None or not stack:
                    continue
                key, value = m.group(1), m.group(2)
                top = stack[-1]
                kind = block_kind.get(top[0])
                id_key = 'visgroupid' if kind == 'vis' else 'id'
                if kind is not None and key == id_key and not top[1]:
                    top[1] = True           # the object's own id is the first "id" line of its block
                    ids[kind].append(value)
                elif kind == 'ent' and key.startswith('replace') and key[7:].lstrip('-').isdigit():
                    if 'fixup' in w.judge and key in top[2]:
                        w.fail('export_fixup_unique', f'm{mi}: exported entity has the key "{key}" twice', kind='fixup')
                    top[2].append(key)
        for kind in KINDS:
            if kind not in w.judge:
                continue
            vals = ids[kind]
            if len(set(vals)) != len(vals):
                dup = sorted({v for v in vals if vals.count(v) > 1})
                w.fail('export_id_unique', f'm{mi}: exported text has {kind} id(s) {dup} more than once (all: {vals})', kind=kind)
            for v in vals:
                if not (v.isdigit() and int(v) >= 1):
                    w.fail('export_id_positive', f'm{mi}: exported text has {kind} id {v!r}', kind=kind)


# ---- helpers --------------------------------------------------------------------------------------
def desired(w: World, vmf, kind: str, n: int) -> int:
    mode = n % 3
    if mode == 0:
        return -1
    if mode == 1:
        return SMALL_IDS[(n // 3) % len(SMALL_IDS)]
    ids = live_ids(vmf, kind)
    w.flag('desired_live_id')
    return ids[(n // 3) % len(ids)] if ids else 1


def make_solid(w: World, vmf, des: int, side_ns: list):
    from srctools.vmf import Side, Solid
    sides = []
    for n in side_ns:
        sides.append(Side(vmf, planes(), desired(w, vmf, 'side', n)))
        w.note_alloc('side')
    w.note_alloc('solid')
    return Solid(vmf, des, sides)


def attached_ent(w: World, ent, mi: int) -> bool:
    return any(x is ent for x in w.maps[mi].entities)


def solid_owner(w: World, solid, mi: int):
    """The list that currently holds this solid (world brushes, or the solids of an entity of the map / held by the harness)."""
    vmf = w.maps[mi]
    owners = [vmf.brushes] + [e.solids for e in vmf.entities] + [r[1].solids for r in w.pool if r[0] == 'ent' and r[2] == mi]
    for lst in owners:
        if any(x is solid for x in lst):
            return lst
    return None


def side_owner(w: World, side, mi: int):
    vmf = w.maps[mi]
    solids = list(walk(vmf)['solid'])
    for r in w.pool:
        if r[2] != mi:
            continue
        if r[0] == 'solid':
            solids.append(r[1])
        elif r[0] == 'ent':
            solids.extend(r[1].solids)
    for s in solids:
        if any(x is side for x in s.sides):
            return s.sides
    return None


def vis_owner(w: World, vis, mi: int):
    vmf = w.maps[mi]
    lists = [vmf.vis_tree] + [v.child_groups for v in walk(vmf)['vis']]
    todo = [r[1] for r in w.pool if r[0] == 'vis' and r[2] == mi]
    while todo:
        v = todo.pop()
        lists.append(v.child_groups)
        todo.extend(v.child_groups)
    for lst in lists:
        if any(x is vis for x in lst):
            return lst
    return None


def vis_contains(root, target) -> bool:
    if root is target:
        return True
    return any(vis_contains(c, target) for c in root.child_groups)


# ---- commands -------------------------------------------------------------------------------------
def op_nop(w, a, b, c, d, e):
    return


def op_new_ent(w: World, a, b, c, d, e):
    from srctools.vmf import Entity
    mi = a % 2
    vmf = w.maps[mi]
    des = desired(w, vmf, 'ent', b)
    solids = [make_solid(w, vmf, desired(w, vmf, 'solid', c + k), [e + k] * ((e + k) % 3)) for k in range(c % 3)]
    ent = Entity(vmf, keys={'classname': 'func_brush' if solids else 'info_target'}, ent_id=des, solids=solids)
    del solids
    w.note_alloc('ent')
    w.pool.append(['ent', ent, mi])
    w.log(f'p{len(w.pool) - 1} = Entity(m{mi}, ent_id={des}, solids=<{c % 3} new>)  -> id {ent.id}, '
          f'solid ids {[s.id for s in ent.solids]}, side ids {[f.id for s in ent.solids for f in s.sides]}')
    if d % 4:
        vmf.add_ent(ent)
        w.log(f'm{mi}.add_ent(p{len(w.pool) - 1})')
    else:
        w.flag('ent_never_added')


def op_new_solid(w: World, a, b, c, d, e):
    mi = a % 2
    vmf = w.maps[mi]
    des = desired(w, vmf, 'solid', b)
    solid = make_solid(w, vmf, des, [e + k for k in range(c % 4)])
    w.pool.append(['solid', solid, mi])
    me = len(w.pool) - 1
    w.log(f'p{me} = Solid(m{mi}, {des}, sides=<{c % 4} new>)  -> id {solid.id}, side ids {[f.id for f in solid.sides]}')
    where = d % 3
    if where == 0:
        vmf.add_brush(solid)
        w.log(f'm{mi}.add_brush(p{me})')
    elif where == 2:
        i = w.pick('ent', e, mi)
        if i >= 0:
            w.pool[i][1].solids.append(solid)
            w.log(f'p{i}.solids.append(p{me})')
        else:
            w.flag('solid_detached')
    else:
        w.flag('solid_detached')


def op_new_side(w: World, a, b, c, d, e):
    from srctools.vmf import Side
    mi = a % 2
    vmf = w.maps[mi]
    des = desired(w, vmf, 'side', b)
    side = Side(vmf, planes(), des)
    w.note_alloc('side')
    w.pool.append(['side', side, mi])
    me = len(w.pool) - 1
    w.log(f'p{me} = Side(m{mi}, planes, {des})  -> id {side.id}')
    if c % 3:
        i = w.pick('solid', d, mi)
        if i >= 0:
            w.pool[i][1].sides.append(side)
            w.log(f'p{i}.sides.append(p{me})')


def op_bad_side(w: World, a, b, c, d, e):
    """A constructor call that is rejected with the documented ValueError ("Must have only 3 planes!")."""
    from srctools import Vec
    from srctools.vmf import Side
    mi = a % 2
    vmf = w.maps[mi]
    n = [2, 4, 0, 1][b % 4]
    des = desired(w, vmf, 'side', c)
    pts = [Vec(k, 0, 0) for k in range(n)]
    # The half-made Side has no .id yet, so its __del__ prints "Exception ignored ... AttributeError"; that noise is not
    # judged (only what happens to the ids afterwards is) and is kept off stderr.
    import sys
    hook = sys.unraisablehook
    sys.unraisablehook = lambda unraisable: None
    try:
        try:
            Side(vmf, pts, des)
        except ValueError:
            w.log(f'Side(m{mi}, <{n} points>, {des})  -> ValueError (rejected)')
        else:
            w.fail('bad_side_accepted', f'Side(m{mi}, <{n} points>) did not raise ValueError')
    finally:
        sys.unraisablehook = hook
    del pts
    w.failed_ctor = True
    w.flag('failed_ctor:side')


BAD_PARSE_VARIANTS = [
    'side:plane2', 'side:uaxis', 'side:dispinfo_nokeys', 'side:disp_power9', 'side:point_data',
    'solid:groupid', 'solid:groupid', 'solid:third_side', 'solid:visgroupid_color',
    'ent:bogus_block', 'ent:group_block', 'ent:groupid', 'ent:visgroupid', 'ent:hidden_bogus', 'ent:bad_output',
    'vis:garbage', 'group:garbage',
]


def op_bad_parse(w: World, a, b, c, d, e):
    """Side/Solid/Entity/VisGroup/EntityGroup.parse of a malformed block whose ids (preferably) equal ids of LIVE objects.

    Whether the block is rejected (ValueError / LookupError, after some sub-objects or the object itself already took
    an id) or tolerated is not judged; what is judged is that the ids of the live objects stay unique afterwards.  A
    tolerated block yields an ordinary detached object, which joins the pool.
    """
    from srctools.keyvalues import Keyvalues as KV
    from srctools.vmf import Entity, EntityGroup, Side, Solid, VisGroup
    mi = a % 2
    vmf = w.maps[mi]
    collide = []

    def idstr(kind: str, n: int):
        """Every second id is the id of a live object of that kind."""
        if n % 2 == 0:
            ids = live_ids(vmf, kind)
            if ids:
                collide.append(kind)
                return str(ids[(n // 2) % len(ids)])
        return DOC_IDS[n % len(DOC_IDS)]

    def idkv(kind: str, n: int, key: str = 'id') -> list:
        v = idstr(kind, n)
        return [] if v is None else [KV(key, v)]

    def side(n: int, plane: str = '(0 0 0) (16 0 0) (0 16 0)', extra=()):
        return KV('side', idkv('side', n) + [KV('plane', plane), KV('material', 'tools/toolsnodraw')] + list(extra))

    def solid(n: int, m: int, extra=()):
        return KV('solid', idkv('solid', n) + [side(m), side(m + 2)] + list(extra))

    variant = BAD_PARSE_VARIANTS[b % len(BAD_PARSE_VARIANTS)]
    kind, what = variant.split(':')
    if kind == 'side':
        call = Side.parse
        if what == 'plane2':
            tree = side(c, '(0 0 0) (16 0 0)')
        elif what == 'uaxis':
            tree = side(c, extra=[KV('uaxis', '[1 0 0 0] x')])
        elif what == 'dispinfo_nokeys':
            tree = side(c, extra=[KV('dispinfo', [KV('power', '2')])])
        elif what == 'disp_power9':
            tree = side(c, extra=[KV('dispinfo', [KV('power', '9')])])
        else:
            tree = side(c, extra=[KV('point_data', [KV('numpts', 'x'), KV('point', '0 a b c')])])
    elif kind == 'solid':
        call = Solid.parse
        if what == 'groupid':
            tree = solid(c, d, [KV('editor', [KV('color', '0 180 0'), KV('groupid', 'not-a-number')])])
        elif what == 'third_side':
            tree = solid(c, d, [side(d + 1, '(0 0 0) (16 0 0)')])
        else:
            tree = solid(c, d, [KV('editor', [KV('visgroupid', 'x'), KV('color', 'zz')])])
    elif kind == 'ent':
        call = Entity.parse
        bad = {
            'bogus_block': KV('bogus_block', [KV('a', 'b')]),
            'group_block': KV('group', idkv('group', e) + [KV('editor', [])]),
            'groupid': KV('editor', [KV('groupid', 'x')]),
            'visgroupid': KV('editor', [KV('visgroupid', 'x')]),
            'hidden_bogus': KV('hidden', [KV('bogus', 'x')]),
            'bad_output': KV('connections', [KV('OnTrigger', 'a')]),
        }[what]
        tree = KV('entity', idkv('ent', c) + [KV('classname', 'func_brush'), solid(d, e), bad])
    elif kind == 'vis':
        call = VisGroup.parse
        tree = KV('visgroup', [KV('name', 'n')] + idkv('vis', c, 'visgroupid') + [
            KV('color', 'zz'), KV('visgroup', idkv('vis', d, 'visgroupid') + [KV('color', '1')])])
    else:
        call = EntityGroup.parse
        tree = KV('group', idkv('group', c) + [KV('editor', [KV('color', 'zz'), KV('visgroupshown', 'q')])])
    txt = f'{call.__qualname__}(m{mi}, <malformed: {what}; ids colliding with live: {sorted(set(collide)) or "none"}>)'
    try:
        obj = call(vmf, tree)
    except (ValueError, LookupError):
        w.log(f'{txt}  -> rejected')
        w.failed_ctor = True
        w.flag('failed_ctor:' + {'side': 'side_parse', 'solid': 'solid_parse', 'ent': 'ent_parse',
                                 'vis': 'vis_parse', 'group': 'group_parse'}[kind])
        if collide:
            w.flag('failed_ctor_colliding_id')
            if kind in collide:
                w.flag('failed_ctor_colliding_id:' + kind)
        for k in ('side', 'solid'):
            w.note_free(k)
    else:
        w.pool.append([kind, obj, mi])
        w.note_alloc(kind)
        w.flag('malformed_tolerated:' + kind)
        w.log(f'p{len(w.pool) - 1} = {txt}  -> tolerated, id {obj.id}')
        del obj
    del tree, call
    if e % 2:
        gc.collect()
        w.log('gc.collect()')


def op_new_vis(w: World, a, b, c, d, e):
    from srctools.vmf import VisGroup
    mi = a % 2
    vmf = w.maps[mi]
    des = desired(w, vmf, 'vis', b)
    where = c % 3
    if where == 0 and des == -1:
        vis = vmf.create_visgroup('made')
        w.pool.append(['vis', vis, mi])
        w.log(f'p{len(w.pool) - 1} = m{mi}.create_visgroup("made")  -> id {vis.id}')
        w.note_alloc('vis')
        return
    vis = VisGroup(vmf, 'made', des)
    w.note_alloc('vis')
    w.pool.append(['vis', vis, mi])
    me = len(w.pool) - 1
    w.log(f'p{me} = VisGroup(m{mi}, "made", {des})  -> id {vis.id}')
    if where == 0:
        vmf.vis_tree.append(vis)
        w.log(f'm{mi}.vis_tree.append(p{me})')
    elif where == 1:
        i = w.pick('vis', d, mi)
        if i >= 0 and i != me:
            w.pool[i][1].child_groups.append(vis)
            w.log(f'p{i}.child_groups.append(p{me})')


def op_new_group(w: World, a, b, c, d, e):
    from srctools.vmf import EntityGroup
    mi = a % 2
    vmf = w.maps[mi]
    des = desired(w, vmf, 'group', b)
    grp = EntityGroup(vmf, des)
    w.note_alloc('group')
    w.pool.append(['group', grp, mi])
    me = len(w.pool) - 1
    w.log(f'p{me} = EntityGroup(m{mi}, {des})  -> id {grp.id}')
    if c % 3:
        vmf.groups[grp.id] = grp
        w.log(f'm{mi}.groups[p{me}.id] = p{me}')


def op_copy(w: World, a, b, c, d, e):
    if not w.pool:
        return
    i = a % len(w.pool)
    kind, obj, mi = w.pool[i]
    how = c % 3
    ti = mi if how < 2 else 1 - mi
    target = None if how == 0 else w.maps[ti]
    tvmf = w.maps[ti]
    des = desired(w, tvmf, kind, b)
    if how == 2:
        w.flag('cross_map_copy')
    if des != -1:
        w.flag('copy_with_des_id')
    tname = 'None' if target is None else f'm{ti}'
    if kind == 'ent':
        new = obj.copy(des_id=des, vmf_file=target)
        for k in ('ent', 'solid', 'side'):
            w.note_alloc(k)
        txt = f'copy(des_id={des}, vmf_file={tname})'
    elif kind == 'solid':
        new = obj.copy(des_id=des, vmf_file=target)
        w.note_alloc('solid')
        w.note_alloc('side')
        txt = f'copy(des_id={des}, vmf_file={tname})'
    elif kind == 'side':
        new = obj.copy(des_id=des, vmf_file=target)
        w.note_alloc('side')
        txt = f'copy(des_id={des}, vmf_file={tname})'
    elif kind == 'vis':
        new = obj.copy(vmf=target, group_mapping={}, des_id=des)
        w.note_alloc('vis')
        txt = f'copy(vmf={tname}, des_id={des})'
    else:
        new = obj.copy(target) if how else obj.copy()
        w.note_alloc('group')
        txt = f'copy({tname if how else ""})'
    w.pool.append([kind, new, ti])
    me = len(w.pool) - 1
    w.log(f'p{me} = p{i}.{txt}  [{kind}]  -> id {new.id}')
    w.flag('copy:' + kind)
    if d % 3:
        attach(w, me)


def attach(w: World, i: int) -> bool:
    """Put a harness-held object that is attached nowhere into its map (returns False if that is not possible)."""
    kind, obj, mi = w.pool[i]
    vmf = w.maps[mi]
    if kind == 'ent':
        if attached_ent(w, obj, mi):
            return False
        vmf.add_ent(obj)
        w.log(f'm{mi}.add_ent(p{i})')
    elif kind == 'solid':
        if solid_owner(w, obj, mi) is not None:
            return False
        vmf.add_brush(obj)
        w.log(f'm{mi}.add_brush(p{i})')
    elif kind == 'side':
        if side_owner(w, obj, mi) is not None:
            return False
        reach = walk(vmf)['solid']
        if not reach:
            return False
        j = i % len(reach)
        reach[j].sides.append(obj)
        w.log(f'<solid id {reach[j].id} of m{mi}>.sides.append(p{i})')
    elif kind == 'vis':
        if vis_owner(w, obj, mi) is not None:
            return False
        # never create a cycle: a group already reachable (as descendant) is left alone
        if any(vis_contains(obj, v) for v in vmf.vis_tree):
            return False
        vmf.vis_tree.append(obj)
        w.log(f'm{mi}.vis_tree.append(p{i})')
    else:
        if any(g is obj for g in vmf.groups.values()):
            return False
        if obj.id in vmf.groups:
            return False        # key taken by another group object: not our precondition to break
        vmf.groups[obj.id] = obj
        w.log(f'm{mi}.groups[p{i}.id] = p{i}')
    return True


def op_reattach(w: World, a, b, c, d, e):
    if not w.pool:
        return
    i = a % len(w.pool)
    if attach(w, i):
        w.flag('reattach:' + w.pool[i][0])


def op_detach(w: World, a, b, c, d, e):
    """Remove a brush / side / visgroup / group from wherever it is attached (entities: see remove_ent)."""
    i = w.pick(('solid', 'side', 'vis', 'group'), a)
    if i < 0:
        return
    kind, obj, mi = w.pool[i]
    vmf = w.maps[mi]
    if kind == 'solid':
        lst = solid_owner(w, obj, mi)
        if lst is None:
            return
        if lst is vmf.brushes:
            if b % 2:
                obj.remove()
                w.log(f'p{i}.remove()  [solid]')
            else:
                vmf.remove_brush(obj)
                w.log(f'm{mi}.remove_brush(p{i})')
        else:
            lst.remove(obj)
            w.log(f'<entity>.solids.remove(p{i})')
    elif kind == 'side':
        lst = side_owner(w, obj, mi)
        if lst is None:
            return
        lst.remove(obj)
        w.log(f'<solid>.sides.remove(p{i})')
    elif kind == 'vis':
        lst = vis_owner(w, obj, mi)
        if lst is None:
            return
        lst.remove(obj)
        w.log(f'<vis_tree or child_groups>.remove(p{i})')
    else:
        if vmf.groups.get(obj.id) is not obj:
            return
        del vmf.groups[obj.id]
        w.log(f'del m{mi}.groups[p{i}.id]')
    w.flag('detach:' + kind)


def op_remove_ent(w: World, a, b, c, d, e):
    i = w.pick('ent', a)
    if i < 0:
        return
    _, ent, mi = w.pool[i]
    was = attached_ent(w, ent, mi)
    if b % 2:
        ent.remove()
        w.log(f'p{i}.remove()  [entity id {ent.id}{"" if was else ", was not in the map"}]')
    else:
        w.maps[mi].remove_ent(ent)
        w.log(f'm{mi}.remove_ent(p{i})  [entity id {ent.id}{"" if was else ", was not in the map"}]')
    w.flag('remove_ent_inmap' if was else 'remove_ent_detached')
    w.note_free('ent')
    if 'nodeid' in ent:
        w.note_free('node')


def op_discard_ent(w: World, a, b, c, d, e):
    """The usual way an entity's life ends, as one step: remove it from the map, forget the last reference, collect."""
    i = w.pick('ent', a)
    if i < 0:
        return
    _, ent, mi = w.pool[i]
    had_node = 'nodeid' in ent
    eid = ent.id
    ent.remove()
    del ent
    del w.pool[i]
    gc.collect()
    w.log(f'p{i}.remove(); del p{i}; gc.collect()  [entity id {eid}; later references are renumbered]')
    for k in ('ent', 'solid', 'side'):
        w.note_free(k)
    if had_node:
        w.note_free('node')
    w.flag('discard_ent', 'drop_unreachable:ent', 'remove_ent_inmap')


def op_drop(w: World, a, b, c, d, e):
    if not w.pool:
        return
    i = a % len(w.pool)
    kind, obj, mi = w.pool[i]
    reach = walk(w.maps[mi])
    alive = any(x is obj for x in reach[kind])
    del reach, obj
    w.log(f'del p{i}  [{kind}; harness reference dropped, later references are renumbered'
          f'{"; still reachable from the map" if alive else ""}]')
    del w.pool[i]
    if alive:
        w.flag('drop_reachable')
    else:
        w.flag('drop_unreachable:' + kind)
        w.note_free(kind)
        if kind == 'ent':
            w.note_free('solid')
            w.note_free('side')
        if kind == 'solid':
            w.note_free('side')


def op_gc(w: World, a, b, c, d, e):
    gc.collect()
    w.log('gc.collect()')


def op_grab(w: World, a, b, c, d, e):
    mi = a % 2
    kind = KINDS[b % len(KINDS)]
    reach = walk(w.maps[mi])[kind]
    if kind == 'ent':
        reach = reach[1:]       # never the worldspawn
    reach = [o for o in reach if w.pool_index(o) < 0]
    if not reach:
        return
    obj = reach[c % len(reach)]
    w.pool.append([kind, obj, mi])
    w.log(f'p{len(w.pool) - 1} = <{kind} with id {obj.id} found in m{mi}>')
    w.flag('grab:' + kind)


# -- node ids
def node_value(w: World, n: int) -> str:
    """A nodeid request: from the table, or (every third) numerically equal to the *entity* id of an entity the harness holds -
    ids of different kinds live in separate pools, so equal numbers across kinds must never interact."""
    if n % 3 == 2:
        ents = [r[1] for r in w.pool if r[0] == 'ent']
        if ents:
            w.flag('nodeid_equals_an_entity_id')
            return str(ents[(n // 3) % len(ents)].id)
    return NODE_VALUES[n % len(NODE_VALUES)]


def op_new_node(w: World, a, b, c, d, e):
    from srctools.vmf import Entity
    mi = a % 2
    vmf = w.maps[mi]
    val = node_value(w, b)
    if c % 3 == 0:
        ent = vmf.create_ent('info_node', nodeid=val)
        w.pool.append(['ent', ent, mi])
        w.log(f'p{len(w.pool) - 1} = m{mi}.create_ent("info_node", nodeid={val!r})  -> nodeid {ent["nodeid"]!r}')
    else:
        ent = Entity(vmf, keys={'classname': 'info_node', 'NodeID' if c % 3 == 2 else 'nodeid': val})
        w.pool.append(['ent', ent, mi])
        me = len(w.pool) - 1
        w.log(f'p{me} = Entity(m{mi}, keys={{classname: info_node, nodeid: {val!r}}})  -> nodeid {ent["nodeid"]!r}')
        if d % 3:
            vmf.add_ent(ent)
            w.log(f'm{mi}.add_ent(p{me})  -> nodeid {ent["nodeid"]!r}')
    w.note_alloc('node')
    w.note_alloc('ent')


def op_set_node(w: World, a, b, c, d, e):
    i = w.pick('ent', a)
    if i < 0:
        return
    ent = w.pool[i][1]
    val = node_value(w, b)
    had = 'nodeid' in ent
    key = ['nodeid', 'NodeID', 'NODEID'][c % 3]
    ent[key] = val
    w.log(f'p{i}[{key!r}] = {val!r}  -> nodeid {ent["nodeid"]!r}')
    if had:
        w.note_free('node')
    w.note_alloc('node')
    w.flag('set_node_attached' if attached_ent(w, ent, w.pool[i][2]) else 'set_node_detached')


def op_del_node(w: World, a, b, c, d, e):
    i = w.pick('ent', a)
    if i < 0:
        return
    ent = w.pool[i][1]
    if 'nodeid' not in ent:
        return
    how = b % 3
    if how == 0:
        del ent['nodeid']
        w.log(f'del p{i}["nodeid"]')
    elif how == 1:
        ent.pop('NodeID')
        w.log(f'p{i}.pop("NodeID")')
    else:
        ent.clear()
        w.log(f'p{i}.clear()')
    w.note_free('node')
    w.flag('del_node')


def op_clear_ent(w: World, a, b, c, d, e):
    """Empty a live entity in place (clear / clear_keys / the deprecated keys setter): it stays alive and keeps its id."""
    import warnings
    i = w.pick('ent', a)
    if i < 0:
        return
    ent = w.pool[i][1]
    had_node = 'nodeid' in ent
    how = b % 3
    with warnings.catch_warnings():
        warnings.simplefilter('ignore')
        if how == 0:
            ent.clear()
            w.log(f'p{i}.clear()')
        elif how == 1:
            ent.clear_keys()
            w.log(f'p{i}.clear_keys()')
        else:
            ent.keys = {'classname': 'info_target', 'targetname': 'kept'}
            w.log(f'p{i}.keys = {{...}}')
    if had_node:
        w.note_free('node')
    w.flag('clear_ent')


# -- fixups
def op_new_fix(w: World, a, b, c, d, e):
    from srctools.vmf import Entity, FixupValue
    mi = a % 2
    vmf = w.maps[mi]
    spec = [(VARS[(b + k) % len(VARS)].lstrip('$'), FIX_IDS[(n + k) % len(FIX_IDS)]) for k, n in enumerate((c, d, e)[:b % 4])]
    ent = Entity(vmf, keys={'classname': 'func_instance'}, fixup=[FixupValue(var, 'v%d' % n, n) for var, n in spec])
    vmf.add_ent(ent)
    w.pool.append(['ent', ent, mi])
    ids = [n for _, n in spec]
    if len(set(ids)) != len(ids):
        w.flag('fixup_list_duplicate_index')
        w.nontrivial = True
    if any(n < 1 for n in ids):
        w.flag('fixup_list_nonpositive_index')
        w.nontrivial = True
    w.note_alloc('ent')
    w.log(f'p{len(w.pool) - 1} = Entity(m{mi}, fixup=[FixupValue(var, value, id) for var, id in {spec}]); add_ent')


def pick_fix(w: World, n: int):
    """(name, mapping) of the n-th (modulo) fixup mapping the harness can reach: those of held entities, then the copies."""
    cands = [(f'p{i}.fixup', r[1].fixup) for i, r in enumerate(w.pool) if r[0] == 'ent']
    cands += [(f'f{j}', fm) for j, fm in enumerate(w.fixmaps)]
    return cands[n % len(cands)] if cands else (None, None)


def fix_rel(w: World, fm):
    for rec in w.fix_rel:
        if rec[0] is fm:
            return rec
    rec = [fm, len(w.fix_rel), False, len(w.fix_rel)]
    w.fix_rel.append(rec)
    return rec


def fix_freed(w: World, fm) -> None:
    w.note_free('fixup')
    fix_rel(w, fm)[2] = True


def fix_alloc(w: World, fm) -> None:
    """A new variable was added to fm."""
    w.note_alloc('fixup')
    me = fix_rel(w, fm)
    if any(rec[1] == me[1] and rec[2] and rec[0] is not fm for rec in w.fix_rel):
        # a copy-relative of this mapping lost a variable earlier: the two mappings must not influence each other
        w.flag('fixup_alloc_after_free_in_copy_relative')
        w.nontrivial = True
    if any(rec[3] == me[3] and rec[2] and rec[0] is not fm for rec in w.fix_rel):
        w.flag('fixup_alloc_after_free_in_shallow_copy_relative')   # related through copy.copy() only


def op_fix_copy(w: World, a, b, c, d, e):
    import copy
    import pickle
    from srctools.vmf import EntityFixup
    name, src = pick_fix(w, a)
    if src is None or len(w.fixmaps) >= 4:
        return
    mode = (0, 0, 0, 1, 1, 2, 2, 3)[b % 8]
    how = ('copy.copy({})', 'copy.deepcopy({})', 'pickle.loads(pickle.dumps({}))', 'EntityFixup({}.copy_values())')[mode]
    if mode == 0:
        new = copy.copy(src)
    elif mode == 1:
        new = copy.deepcopy(src)
    elif mode == 2:
        new = pickle.loads(pickle.dumps(src))
    else:
        new = EntityFixup(src.copy_values())
    rel = fix_rel(w, src)
    w.fixmaps.append(new)
    w.fix_rel.append([new, rel[1], False, rel[3] if mode == 0 else len(w.fix_rel)])
    w.flag('fix_copy:' + how.split('(')[0])
    w.log(f'f{len(w.fixmaps) - 1} = {how.format(name)}  -> {[(fv.var, fv.id) for fv in new.copy_values()]}')


def op_fix_set(w: World, a, b, c, d, e):
    name, fixup = pick_fix(w, a)
    if fixup is None:
        return
    var = VARS[b % len(VARS)]
    new = var not in fixup
    fixup[var] = 'set%d' % c
    w.log(f'{name}[{var!r}] = ...  -> {[(fv.var, fv.id) for fv in fixup.copy_values()]}')
    if new:
        fix_alloc(w, fixup)


def op_fix_del(w: World, a, b, c, d, e):
    name, fixup = pick_fix(w, a)
    if fixup is None:
        return
    vals = fixup.copy_values()
    if not vals:
        return
    var = vals[b % len(vals)].var
    if c % 2:
        var = '$' + var.upper()
    del fixup[var]
    w.log(f'del {name}[{var!r}]')
    fix_freed(w, fixup)
    w.flag('fix_del')


def op_fix_clear(w: World, a, b, c, d, e):
    name, fixup = pick_fix(w, a)
    if fixup is None:
        return
    if b % 2:
        if len(fixup):
            fix_freed(w, fixup)
        fixup.clear()
        w.log(f'{name}.clear()')
    else:
        if len(fixup):
            w.note_free('fixup')
        fixup.update({VARS[c % len(VARS)]: '1', VARS[d % len(VARS)]: '2'})
        fix_alloc(w, fixup)
        w.log(f'{name}.update(<2 vars>)  -> {[(fv.var, fv.id) for fv in fixup.copy_values()]}')


def op_fix_default(w: World, a, b, c, d, e):
    name, fixup = pick_fix(w, a)
    if fixup is None:
        return
    var = VARS[b % len(VARS)]
    new = var not in fixup
    fixup.setdefault(var, 'dflt')
    if new:
        fix_alloc(w, fixup)
    else:
        w.note_alloc('fixup')
    w.log(f'{name}.setdefault({var!r}, "dflt")  -> {[(fv.var, fv.id) for fv in fixup.copy_values()]}')


def op_fix_many(w: World, a, b, c, d, e):
    if a % 4:
        return          # rare: it is slow
    i = w.pick('ent', b)
    if i < 0:
        return
    ent = w.pool[i][1]
    for n in range(101):
        ent.fixup['many%d' % n] = str(n)
    w.note_alloc('fixup')
    w.flag('fixup_over_100')
    w.log(f'for n in range(101): p{i}.fixup["many%d" % n] = str(n)')


# -- instancing
def op_collapse(w: World, a, b, c, d, e):
    if w.tmpl is None:
        return
    from srctools import Matrix, Vec, instancing
    from srctools.vmf import FixupValue
    mi = a % 2
    vmf = w.maps[mi]
    mode = b % 4
    if mode <= 1:
        visgroup = bool(mode)
        vtxt = repr(visgroup)
    else:
        i = w.pick('vis', c, mi)
        reach = walk(vmf)['vis']
        if i >= 0 and any(v is w.pool[i][1] for v in reach):
            visgroup = w.pool[i][1]
            vtxt = f'p{i}'
        else:
            visgroup, vtxt = True, 'True'
    w.n_collapse += 1
    style = list(instancing.FixupStyle)[d % 3]
    # Instance objects are kept (they hold no map objects, only id tables) and every second collapse re-uses an earlier one,
    # moved to a new position: its ent/brush/face/visgroup/node id tables persist from the previous collapse.
    if w.instances and e % 2:
        k = (e // 2) % len(w.instances)
        inst = w.instances[k]
        inst.pos = Vec(64 * w.n_collapse, 0, 0)
        itxt = f'<Instance #{k} again, moved>'
        w.flag('collapse_reused_instance')
        if inst.node_ids:
            w.flag('collapse_reused_instance_with_node_ids')
    else:
        inst = instancing.Instance('inst%d' % w.n_collapse, 'tmpl.vmf', Vec(64 * w.n_collapse, 0, 0), Matrix(), style,
                                   fixup=[FixupValue('a', 'x', 1)])
        w.instances.append(inst)
        itxt = f'<Instance #{len(w.instances) - 1} = Instance({inst.name!r})>'
    instancing.collapse_one(vmf, inst, w.tmpl, visgroup=visgroup)
    w.log(f'collapse_one(m{mi}, {itxt}, <template>, visgroup={vtxt})  -> ent ids {inst.ent_ids}, '
          f'brush ids {inst.brush_ids}, face ids {inst.face_ids}, visgroup ids {inst.visgroup_ids}, node ids {inst.node_ids}')
    for k in KINDS:
        w.note_alloc(k)
    w.note_alloc('node')
    tv = w.tmpl.vmf
    if tv.entities or tv.brushes:
        w.flag('collapse_nonempty')
        w.nontrivial = True
        if w.n_collapse > 1:
            w.flag('collapse_twice')
    w.flag('collapse_visgroup:' + ('object' if vtxt.startswith('p') else vtxt))


OPS = {
    'nop': op_nop, 'new_ent': op_new_ent, 'new_solid': op_new_solid, 'new_side': op_new_side, 'new_vis': op_new_vis,
    'new_group': op_new_group, 'copy': op_copy, 'reattach': op_reattach, 'detach': op_detach, 'remove_ent': op_remove_ent,
    'drop': op_drop, 'gc': op_gc, 'grab': op_grab, 'new_node': op_new_node, 'set_node': op_set_node, 'del_node': op_del_node,
    'new_fix': op_new_fix, 'fix_set': op_fix_set, 'fix_del': op_fix_del, 'fix_clear': op_fix_clear,
    'fix_default': op_fix_default, 'fix_copy': op_fix_copy, 'fix_many': op_fix_many, 'collapse': op_collapse,
    'bad_side': op_bad_side, 'bad_parse': op_bad_parse, 'clear_ent': op_clear_ent, 'discard_ent': op_discard_ent,
}


def make_map(w: World, origin, mi: int):
    from srctools.vmf import VMF
    if origin is None:
        w.log(f'm{mi} = VMF()')
        return VMF()
    vmf = VMF.parse(build_doc(origin), preserve_ids=False)
    w.flag('parsed_map')
    if doc_is_colliding(origin):
        w.flag('parsed_colliding_ids')
        w.nontrivial = True
    if any(e['fix'] for e in origin['ents']):
        w.flag('parsed_fixups')
    if any(e['node'] is not None for e in origin['ents']):
        w.flag('parsed_nodeid')
    reach = walk(vmf)
    w.log(f'm{mi} = VMF.parse(<generated document: see "maps" in the replay>)  -> '
          + ', '.join(f'{k} ids {[o.id for o in reach[k]]}' for k in KINDS))
    return vmf


def run_history(desc, w: World) -> None:
    for mi, origin in enumerate(desc['maps']):
        w.last_op = 'parse' if origin is not None else 'VMF()'
        w.maps.append(make_map(w, origin, mi))
    if desc.get('tmpl') is not None:
        from srctools import instancing
        from srctools.vmf import VMF
        w.last_op = 'template'
        w.tmpl = instancing.InstanceFile(VMF.parse(build_doc(desc['tmpl']), preserve_ids=True))
        w.log('<template> = InstanceFile(VMF.parse(<generated document "tmpl">, preserve_ids=True))')
    check_maps(w)
    for cmd in desc['cmds']:
        op, a, b, c, d, e = cmd
        w.last_op = op
        before = len(w.trace)
        OPS[op](w, a, b, c, d, e)
        if len(w.trace) == before:
            w.flag('noop_command')
            continue
        w.flag('op:' + op)
        check_maps(w)
    w.last_op = 'export'
    check_export(w)


_LOGGING_QUIET = False


def execute(desc, ctx):
    global _LOGGING_QUIET
    if not _LOGGING_QUIET:
        import logging
        logging.getLogger('srctools').setLevel(logging.ERROR)   # collapse_one warns about unknown keyvalues
        _LOGGING_QUIET = True
    w = World(desc, ctx)
    # Deterministic object lifetimes: no automatic cyclic collection during the case, and nothing that existed before
    # the case (earlier cases' garbage, Hypothesis internals) can be collected by the explicit gc commands.
    was_enabled = gc.isenabled()
    gc.disable()
    gc.freeze()
    try:
        run_history(desc, w)
    finally:
        for f in sorted(w.flags):
            ctx.label(f)
        ctx.nontrivial(w.nontrivial)
        w.pool.clear()
        w.fixmaps.clear()
        w.fix_rel.clear()
        w.maps.clear()
        w.tmpl = None
        gc.unfreeze()
        if was_enabled:
            gc.enable()


def _sub(name: str, quick: int, thorough: int, floor: int, must_hit) -> Sub:
    return Sub(name, execute, strategy=strategy_for(name), quick=quick, thorough=thorough, floor=floor,
               must_hit=tuple(must_hit))


SUBCHECKS = [
    _sub('alloc', 700, 24000, 50, ('alloc_after_free:solid', 'alloc_after_free:side', 'desired_live_id', 'cross_map_copy',
                                   'copy_with_des_id', 'copy:ent', 'copy:solid', 'copy:side', 'copy:vis', 'copy:group',
                                   'drop_unreachable:solid', 'reattach:solid', 'failed_ctor_then_alloc',
                                   'failed_ctor:side', 'failed_ctor:solid_parse', 'failed_ctor:ent_parse',
                                   'failed_ctor:side_parse', 'failed_ctor_colliding_id:solid',
                                   'failed_ctor_colliding_id:side', 'failed_ctor_colliding_id:ent',
                                   'malformed_tolerated:vis', 'malformed_tolerated:group')),
    _sub('recycle', 700, 24000, 50, ('alloc_after_free:ent', 'remove_ent_inmap', 'drop_unreachable:ent', 'reattach:ent',
                                     'op:gc')),
    _sub('parse', 400, 14000, 50, ('parsed_colliding_ids', 'parsed_fixups', 'parsed_nodeid', 'grab:ent', 'grab:solid',
                                   'failed_ctor_then_alloc')),
    _sub('nodeid', 800, 14000, 50, ('alloc_after_free:node', 'del_node', 'set_node_attached', 'set_node_detached',
                                    'nodeid_equals_an_entity_id',
                                    'reattach:ent')),
    _sub('fixup', 1200, 14000, 50, ('alloc_after_free:fixup', 'fixup_list_duplicate_index', 'fixup_list_nonpositive_index',
                                   'fix_del', 'fixup_over_100', 'fix_copy:copy.copy', 'fix_copy:copy.deepcopy',
                                   'fix_copy:pickle.loads', 'fix_copy:EntityFixup',
                                   'fixup_alloc_after_free_in_copy_relative',
                                   'fixup_alloc_after_free_in_shallow_copy_relative')),
    _sub('collapse', 400, 10000, 50, ('collapse_nonempty', 'collapse_twice', 'collapse_reused_instance_with_node_ids',
                                      'collapse_visgroup:True',
                                      'collapse_visgroup:False', 'collapse_visgroup:object')),
    _sub('mixed', 800, 24000, 50, ('alloc_after_free:ent', 'parsed_colliding_ids', 'collapse_nonempty', 'drop_unreachable:ent',
                                   'failed_ctor_then_alloc')),
]

MATCHERS = {}
