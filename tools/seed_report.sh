#!/bin/sh
# Usage: seed_report.sh [tier] [jobs]  -- run the registered tier of the owning check on every seeded change (each in a private
# scratch worktree of /repo HEAD with VERIF_REPO pointing at it) and write seeded/RESULTS.md.
TIER=${1:-quick}; JOBS=${2:-4}; OUT=${3:-seeded/RESULTS.md}
cd /verif
ls -d seeded/C*-m* | xargs -P $JOBS -I{} sh -c 'VERIF_PROCS=4 tools/try_seed_wt.sh {} '$TIER' > /verif/.scratch/seedres_$(basename {}).txt 2>&1'
{
  echo "# Seeded changes vs. the registered $TIER tier, VERIF_SEED=${VERIF_SEED:-1} (repo HEAD $(git -C /repo rev-parse --short HEAD), $(date -u +%F))"
  echo
  echo "| seed | property | what was changed | needs | result |"
  echo "|---|---|---|---|---|"
  for d in seeded/C*-m*; do n=$(basename $d)
    python3 - "$d" "$(cat /verif/.scratch/seedres_$n.txt | tail -1)" <<'PY'
import json,sys
m=json.load(open(sys.argv[1]+'/meta.json')); r=sys.argv[2]
res='CAUGHT' if r.startswith('CAUGHT') else ('MISSED' if r.startswith('MISSED') else r[:40])
sub=''
if 'replay=' in r:
    import re; subs=sorted(set(x.split('/')[-1].split('-')[0] for x in re.findall(r'replay=(\S+)', r))); sub=' ('+', '.join(subs)+')'
cl=lambda s: ' '.join(str(s).split()).replace('|','/')[:300]
print(f"| {sys.argv[1].split('/')[-1]} | {m['property']} | {cl(m['summary'])} | {cl(m['needs'])} | {res}{sub} |")
PY
  done
} > $OUT
rm -f /verif/.scratch/seedres_*.txt; rm -rf /tmp/c11_m*
grep -c CAUGHT $OUT; grep "MISSED\|HARNESS\|NEEDS" $OUT | cut -c1-120
